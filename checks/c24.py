"""C24 Dense matrix algebra over exact numbers is correct."""
import os
import sys
from fractions import Fraction

sys.path.insert(0, os.path.join(os.path.dirname(os.path.abspath(__file__)), ".."))
from hypothesis import strategies as st
from pbt import engine
from pbt.engine import Check, Violation, R, is_exc
from pbt import linref as L
from pbt.linref import G, ZERO, ONE
from pbt import oracle_num as on
from pbt.oracle_num import Unjudgeable

import mpmath

# ------------------------------------------------------------------ strategies
BIG = [2 ** 31, -2 ** 31 - 1, 2 ** 32 + 1, 2 ** 63, -2 ** 63, 2 ** 64 + 1, -(2 ** 64) + 1, 2 ** 70 + 3, 10 ** 30 + 7]
FIELDS = ["z", "z", "z", "q", "q", "gi", "gq", "big"]
REAL_FIELDS = ["z", "z", "q", "q", "big"]


def _txt(v):
    if isinstance(v, tuple):
        a, b = Fraction(v[0]), Fraction(v[1])
        return str(a) if b == 0 else "%s,%s" % (a, b)
    return str(Fraction(v))


zi = st.integers(-4, 4)
nzi = st.sampled_from([-4, -3, -2, -1, 1, 2, 3, 4])
qq = st.builds(Fraction, st.integers(-6, 6), st.integers(1, 4))
nzq = st.builds(Fraction, nzi, st.integers(1, 3))
pos = st.one_of(st.integers(1, 5), st.builds(Fraction, st.integers(1, 6), st.integers(1, 4)))


def entry(field, nonzero=False):
    if nonzero:
        base = {"z": nzi, "q": nzq, "gi": st.one_of(nzi, st.tuples(zi, nzi)), "gq": st.one_of(nzq, st.tuples(qq, nzq)),
                "big": st.one_of(nzi, st.sampled_from(BIG))}[field]
    else:
        base = {"z": zi, "q": st.one_of(zi, qq), "gi": st.one_of(zi, st.tuples(zi, zi)),
                "gq": st.one_of(zi, qq, st.tuples(qq, qq)), "big": st.one_of(zi, zi, st.sampled_from(BIG))}[field]
    return base.map(_txt)


def matrix(field, r, c, nonzero=False):
    return st.lists(st.lists(entry(field, nonzero), min_size=c, max_size=c), min_size=r, max_size=r)


SIZES = [1, 2, 2, 3, 3, 3, 3, 4, 4, 4, 4, 5, 5, 6]
SQ_MODES = ["plain", "plain", "singular", "singular", "zerominor", "zerominor", "lower", "upper", "sparse",
            "lu", "lu", "lu", "plu", "plu", "lowrank"]


PARTS = st.sampled_from([["det"], ["inv"], ["solve"], ["factor"], ["elim"], ["det", "factor"], ["inv", "solve"]])


@st.composite
def fam_square(draw):
    field = draw(st.sampled_from(FIELDS))
    n = draw(st.sampled_from(SIZES))
    mode = draw(st.sampled_from(SQ_MODES))
    c = {"fam": "sq", "field": field, "n": n, "mode": mode, "M": draw(matrix(field, n, n)),
         "b": draw(matrix(field, n, draw(st.integers(1, 2)))), "parts": draw(PARTS)}
    if mode in ("lu", "plu", "lowrank"):
        c["M2"] = draw(matrix(field, n, n))
    if mode in ("lu", "plu"):
        c["diag"] = draw(st.lists(entry(field, True), min_size=n, max_size=n))
    if mode in ("plu", "zerominor"):
        c["swaps"] = draw(st.lists(st.tuples(st.integers(0, n - 1), st.integers(0, n - 1)), min_size=1, max_size=3))
    if mode == "singular":
        c["coef"] = draw(st.lists(entry(field), min_size=n, max_size=n))
        c["k"] = draw(st.integers(0, n - 1))
        c["col"] = draw(st.booleans())
    if mode == "sparse":
        c["mask"] = draw(st.lists(st.booleans(), min_size=n * n, max_size=n * n))
    if mode == "lowrank":
        c["k"] = draw(st.integers(0, max(0, n - 1)))
    return c


@st.composite
def fam_spd(draw):
    field = draw(st.sampled_from(["z", "z", "q"]))
    n = draw(st.sampled_from([1, 2, 2, 3, 3, 3, 4, 4, 5]))
    mode = draw(st.sampled_from(["ldl", "ldl", "square", "hermitian", "indefinite"]))
    c = {"fam": "spd", "field": field, "n": n, "mode": mode, "M": draw(matrix("gq" if mode == "hermitian" else field, n, n)),
         "diag": [_txt(x) for x in draw(st.lists(pos, min_size=n, max_size=n))],
         "b": draw(matrix(field, n, draw(st.integers(1, 2)))),
         "parts": ["spd"] + draw(PARTS)}
    if mode == "indefinite":
        c["neg"] = draw(st.integers(0, n - 1))
    return c


@st.composite
def fam_qr(draw):
    field = draw(st.sampled_from(["z", "z", "q"]))
    n = draw(st.sampled_from([1, 2, 2, 3]))
    m = n + draw(st.integers(0, 2))
    return {"fam": "qr", "field": field, "n": n, "m": m, "M": draw(matrix(field, n, n)), "M2": draw(matrix(field, n, n)),
            "diag": draw(st.lists(entry(field, True), min_size=n, max_size=n)), "E": draw(matrix(field, m - n, n)),
            "swaps": draw(st.lists(st.tuples(st.integers(0, m - 1), st.integers(0, m - 1)), min_size=0, max_size=3))}


@st.composite
def fam_rect(draw):
    field = draw(st.sampled_from(FIELDS))
    r = draw(st.integers(1, 6))
    c = draw(st.integers(1, 6))
    mode = draw(st.sampled_from(["plain", "plain", "lowrank", "lowrank", "zerocols", "lu"]))
    d = {"fam": "rect", "field": field, "r": r, "c": c, "mode": mode, "M": draw(matrix(field, r, c))}
    if mode == "lowrank":
        k = draw(st.integers(0, min(r, c)))
        d["k"] = k
        d["X"] = draw(matrix(field, r, k))
        d["Y"] = draw(matrix(field, k, c))
    if mode == "zerocols":
        d["cols"] = draw(st.lists(st.integers(0, c - 1), min_size=1, max_size=3))
    if mode == "lu":
        k = min(r, c)
        d["M2"] = draw(matrix(field, r, r))
        d["diag"] = draw(st.lists(entry(field, True), min_size=k, max_size=k))
    return d


@st.composite
def fam_ops(draw):
    field = draw(st.sampled_from(FIELDS))
    r = draw(st.integers(1, 5))
    c = draw(st.integers(1, 5))
    k = draw(st.integers(1, 4))
    idx = st.integers(0, 5)
    return {"fam": "ops", "field": field, "r": r, "c": c, "k": k, "A": draw(matrix(field, r, c)),
            "B": draw(matrix(field, r, c)), "C": draw(matrix(field, c, k)), "S": draw(matrix(field, c, c)),
            "J": draw(matrix(field, r, k)), "K": draw(matrix(field, k, c)),
            "s": draw(entry(field)), "t": draw(entry(field)),
            "i": [draw(idx) for _ in range(8)]}


@st.composite
def fam_vec(draw):
    field = draw(st.sampled_from(FIELDS))
    n = draw(st.integers(1, 5))
    r = draw(st.integers(1, 5))
    c = draw(st.integers(1, 5))
    return {"fam": "vec", "field": field, "n": n, "u": draw(st.lists(entry(field), min_size=n, max_size=n)),
            "v": draw(st.lists(entry(field), min_size=n, max_size=n)),
            "a3": draw(st.lists(entry(field), min_size=3, max_size=3)), "b3": draw(st.lists(entry(field), min_size=3, max_size=3)),
            "orient": draw(st.lists(st.booleans(), min_size=4, max_size=4)),
            "r": r, "c": c, "k": draw(st.integers(-(r - 1), c - 1)),
            "d": draw(st.lists(entry(field), min_size=max(r, c), max_size=max(r, c))),
            "A": draw(matrix(field, r, n))}


@st.composite
def fam_pred(draw):
    field = draw(st.sampled_from(FIELDS))
    n = draw(st.integers(1, 4))
    mode = draw(st.sampled_from(["plain", "sym", "herm", "diag", "dominant", "zero", "lower", "upper", "rect", "negdef"]))
    c = n if mode != "rect" else draw(st.integers(1, 4))
    return {"fam": "pred", "field": field, "n": n, "c": c, "mode": mode, "M": draw(matrix(field, n, c)),
            "boost": draw(st.integers(0, 12)), "sgn": draw(st.lists(st.booleans(), min_size=n, max_size=n))}


# ------------------------------------------------------------------ helpers
def dmr(M):
    """recipe constructing a DenseMatrix from reference rows"""
    r, c = L.shape(M)
    return ["dm_new", r, c, ["list"] + [L.recipe(x) for row in M for x in row]]


def unit_lower(M):
    n = len(M)
    return [[M[i][j] if j < i else (ONE if i == j else ZERO) for j in range(n)] for i in range(n)]


def upper_with_diag(M, d):
    n = len(M)
    return [[M[i][j] if j > i else (d[i] if i == j else ZERO) for j in range(n)] for i in range(n)]


def swap_rows(M, swaps):
    M = L.copy(M)
    for (i, j) in swaps:
        if i != j and i < len(M) and j < len(M):
            M[i], M[j] = M[j], M[i]
    return M


def tri_to_bool(t):
    return {"T": True, "F": False}.get(t)


class Bad(Exception):
    """an observed matrix that is not a matrix of exact numbers"""


def obs_matrix(o):
    """observation -> reference matrix; Bad if an entry is unassigned or not an exact number"""
    if not isinstance(o, dict) or "v" not in o:
        raise Bad("not a matrix observation: %r" % (o,))
    r, c = o["r"], o["c"]
    v = o["v"]
    if len(v) != r * c:
        raise Bad("%d entries for shape %dx%d" % (len(v), r, c))
    out = []
    for i in range(r):
        row = []
        for j in range(c):
            e = v[i * c + j]
            if e is None:
                raise Bad("entry (%d,%d) was never assigned" % (i, j))
            g = L.from_dump(e["B"])
            if g is None:
                raise Bad("entry (%d,%d) is not an exact number: %s" % (i, j, str(e["B"])[:120]))
            if e["B"] != L.dump(g):
                raise Bad("entry (%d,%d) is not a normalised number: %s" % (i, j, e["B"]))
            row.append(g)
        out.append(row)
    return out


def obs_numeric(o, dps=60):
    """observation whose entries may be algebraic expressions -> mpmath matrix"""
    r, c = o["r"], o["c"]
    rows = []
    for i in range(r):
        row = []
        for j in range(c):
            e = o["v"][i * c + j]
            if e is None:
                raise Bad("entry (%d,%d) was never assigned" % (i, j))
            row.append(on.stable_value(e["B"], lo=40, hi=dps))
        rows.append(row)
    return rows


def fmt(M):
    return "[" + "; ".join(" ".join(repr(x) for x in r) for r in M) + "]"


class C24(Check):
    pid = "C24"
    exe = "driver_matrix"
    builds = [("main", ("driver_matrix",))]
    rule = ("families of dense matrices (size 1-6, entries small integers / rationals / Gaussian rationals / multi-limb "
            "integers) constructed per precondition: arbitrary, singular by a dependent row/column, zero leading minor, "
            "triangular, sparse, L*U (non-zero leading minors), row-permuted L*U (needs pivoting), low rank X*Y, SPD "
            "L*D*L^T, perfect-square SPD L0*L0^T, Hermitian PD, full-column-rank rectangular; every determinant / "
            "char-poly / inverse / solve / factorisation / elimination / rref routine and the element-wise, structural "
            "and row/column operations are compared with exact Gaussian-rational linear algebra in Python or by "
            "reconstruction (L*U=P*A, L*D^-1*U=A, L*D*L^T=A, L*L^T=A, Q*R=A and Q^T*Q=I numerically at 60 digits). "
            "Routines are judged only inside their precondition (others: no crash). Non-trivial: a square/rectangular "
            "matrix of size >=3 that is singular, needs a row exchange or has non-real entries; distinct by matrix.")
    assumptions = ["fractions.Fraction Gaussian elimination (pbt/linref.py) is the reference",
                   "a library exception declines a sub-case; a crash/sanitizer report is a violation; a SYMENGINE_ASSERT firing on an input constructed inside the routine's precondition is a violation (outside it: skipped as assert_seen)",
                   "known findings are excluded by construction only while their tag is active (Check.tag_active)",
                   "QR and Cholesky factors containing square roots are compared numerically (mpmath, 40/60 digits, 1e-30)",
                   "un-pivoted routines (LU, fraction_free_LU, fraction_free_LDU, LU_solve, inverse_LU, fraction-free "
                   "eliminations) are judged only on matrices whose leading principal minors are all non-zero; LDL / cholesky / "
                   "LDL_solve only on real symmetric positive definite matrices; QR only on real full-column-rank matrices"]
    tiers = {"quick": {"examples": 6000}, "thorough": {"examples": 200000}}
    timeout = 60.0

    def strategy(self, tier):
        return st.one_of(fam_square(), fam_square(), fam_square(), fam_square(), fam_spd(), fam_spd(), fam_qr(),
                         fam_rect(), fam_rect(), fam_ops(), fam_ops(), fam_vec(), fam_pred())

    def enumerate(self, tier):
        # a few hand-made anchors: the shapes the hand-written tests never use
        yield {"fam": "sq", "field": "z", "n": 4, "mode": "plain",
               "M": [["0", "0", "1", "2"], ["0", "3", "0", "1"], ["2", "0", "0", "1"], ["1", "1", "1", "0"]], "b": [["1"], ["2"], ["3"], ["4"]]}
        yield {"fam": "sq", "field": "z", "n": 4, "mode": "plain",
               "M": [["0", "1", "0", "0"], ["1", "0", "0", "0"], ["0", "0", "0", "1"], ["0", "0", "1", "0"]], "b": [["1"], ["2"], ["3"], ["4"]]}
        yield {"fam": "rect", "field": "z", "r": 3, "c": 4, "mode": "plain",
               "M": [["0", "1", "1", "6"], ["0", "1", "1", "8"], ["0", "6", "8", "18"]]}

    # -------------------------------------------------------------- plumbing
    def go(self, stmts, plan, ctx):
        """run, then call every planned judge; plan entries: (name, index, fn)"""
        res = self.run(stmts)
        for (name, idx, fn) in plan:
            r = res[idx]
            self.cls(name)
            if is_exc(r):
                if r["exc"] == "VerifAssertFailure" and fn is not None:
                    # the input was constructed inside this routine's precondition: an internal assertion is not an answer
                    raise Violation("%s: a library assertion failed on an input inside the routine's precondition (%s); input %s"
                                    % (name, r.get("what", ""), ctx), {"routine": name, "result": r})
                if r["exc"] == "VerifAssertFailure":
                    self.skip("assert_seen")
                elif r["exc"] == "Dep":
                    self.skip("dep")
                else:
                    self.skip("declined:" + r["exc"])
                continue
            if fn is None:
                self.skip("unjudged:" + name)   # outside the routine's precondition: only "no crash" is required
                continue
            try:
                verdict = fn(r)
            except Bad as e:
                raise Violation("%s: %s; input %s" % (name, e, ctx), {"routine": name, "result": r})
            except Unjudgeable as e:
                self.skip("unjudgeable:" + str(e))
                continue
            self.count()
            if verdict is not None:
                raise Violation("%s: %s; input %s" % (name, verdict, ctx), {"routine": name, "result": r})

    @staticmethod
    def expect_matrix(exp):
        def f(r):
            got = obs_matrix(r)
            if not L.mat_eq(got, exp):
                return "returned %s, expected %s" % (fmt(got), fmt(exp))
        return f

    @staticmethod
    def expect_scalar(exp):
        def f(r):
            g = L.from_dump(r["B"])
            if g is None:
                return "returned %s, expected %r" % (r["B"], exp)
            if g != exp:
                return "returned %r, expected %r" % (g, exp)
        return f

    def judge(self, case):
        getattr(self, "fam_" + case["fam"])(case)

    # -------------------------------------------------------------- square family
    def build_square(self, c):
        n, mode = c["n"], c["mode"]
        M = L.mat_parse(c["M"])
        if mode == "plain":
            A = M
        elif mode == "singular":
            coef = [L.parse(x) for x in c["coef"]]
            k = c["k"]
            A = L.copy(M)
            if c.get("col"):
                A = L.transpose(A)
            A[k] = [sum((coef[i] * A[i][j] for i in range(n) if i != k), ZERO) for j in range(n)]
            if c.get("col"):
                A = L.transpose(A)
        elif mode == "zerominor":
            A = L.copy(M)
            (i, j) = c["swaps"][0]
            if n >= 2 and i % 2 == 0:
                A[0][0] = ZERO
            elif n >= 2:
                # leading 2x2 minor zero, first entry kept
                t = L.parse(c["M"][1][0])
                A[1][0] = t * A[0][0]
                A[1][1] = t * A[0][1]
            else:
                A[0][0] = ZERO
        elif mode == "lower":
            A = [[M[i][j] if j <= i else ZERO for j in range(n)] for i in range(n)]
        elif mode == "upper":
            A = [[M[i][j] if j >= i else ZERO for j in range(n)] for i in range(n)]
        elif mode == "sparse":
            A = [[M[i][j] if c["mask"][i * n + j] else ZERO for j in range(n)] for i in range(n)]
        elif mode in ("lu", "plu"):
            d = [L.parse(x) for x in c["diag"]]
            A = L.matmul(unit_lower(M), upper_with_diag(L.mat_parse(c["M2"]), d))
            if mode == "plu":
                A = swap_rows(A, c["swaps"])
        elif mode == "lowrank":
            k = c["k"]
            X = [row[:k] for row in M]
            Y = L.mat_parse(c["M2"])[:k]
            A = L.matmul(X, Y) if k else L.zeros(n, n)
        else:
            raise engine.GeneratorDefect("mode " + mode)
        return A

    def fam_sq(self, c):
        A = self.build_square(c)
        b = L.mat_parse(c["b"])
        self.square_checks(A, b, c["mode"], parts=c.get("parts"))

    def square_checks(self, A, b, mode, spd=False, extra=None, parts=None):
        n = len(A)
        ctx = "A=%s b=%s" % (fmt(A), fmt(b))
        detA = L.det(A)
        want = (lambda *ps: parts is None or any(p in parts for p in ps))
        invA = L.inverse(A) if (detA and want("inv", "solve", "spd")) else None
        minors = L.leading_minors(A)
        minors_ok = all(bool(m) for m in minors)       # LU without pivoting exists and the library's loops never divide by 0
        X = L.matmul(invA, b) if invA is not None else None
        pivA = L.rref(A)[1]
        real = L.is_real_mat(A)
        stmts = [["let", dmr(A)], ["let", dmr(b)]]
        plan = []

        cur = ["det"]

        def add(name, stmt, fn):
            # each case exercises the routine groups named in `parts` (all when None)
            if parts is not None and cur[0] not in parts:
                return
            plan.append((name, len(stmts), fn))
            stmts.append(stmt)

        def obs(x):
            return ["mat_obs", x]

        # determinants, characteristic polynomial
        for w in ("bareis", "berkowitz", "det"):
            add("det_" + w, ["dm_det", R(0), w], self.expect_scalar(detA))
        cp = L.char_poly(A) if (parts is None or "det" in parts) else None
        add("char_poly", obs(["dm_char_poly", R(0)]), self.expect_matrix([[x] for x in (cp or [])]))

        def berk(r):
            if len(r) != n:
                return "berkowitz returned %d polynomials for a %dx%d matrix" % (len(r), n, n)
            for k in range(n):
                exp = [[x] for x in L.char_poly([row[:k + 1] for row in A[:k + 1]])]
                got = obs_matrix(r[k])
                if not L.mat_eq(got, exp):
                    return "polynomial of the leading %dx%d minor is %s, expected %s" % (k + 1, k + 1, fmt(got), fmt(exp))
        add("berkowitz", obs(["dm_berkowitz", R(0)]), berk)
        add("trace", ["dm_trace", R(0)], self.expect_scalar(L.trace(A)))
        add("rank", ["dm_rank", R(0)], lambda r: None if r == len(pivA) else "rank %r, expected %d" % (r, len(pivA)))

        # inverses
        cur[0] = "inv"
        for w in ("pivoted_LU", "gauss_jordan", "inv"):
            add("inverse_" + w, obs(["dm_inverse", R(0), w]), self.expect_matrix(invA) if invA is not None else None)
        for w in ("LU", "fraction_free_LU"):
            add("inverse_" + w, obs(["dm_inverse", R(0), w]), self.expect_matrix(invA) if (invA is not None and minors_ok) else None)

        # solves
        cur[0] = "solve"
        for w, flag in (("pivoted_LU", None), ("fraction_free_gauss_jordan", True), ("fraction_free_gauss_jordan_default", None)):
            st_ = ["dm_solve", w, R(0), R(1)] + ([flag] if flag is not None else [])
            add("solve_" + w, obs(st_), self.expect_matrix(X) if X is not None else None)
        for w, flag in (("LU", None), ("LU_method", None), ("fraction_free_LU", None), ("fraction_free_gaussian_elimination", None),
                        ("fraction_free_gauss_jordan", False)):
            st_ = ["dm_solve", w, R(0), R(1)] + ([flag] if flag is not None else [])
            add("solve_" + w + ("_nopivot" if flag is False else ""), obs(st_),
                self.expect_matrix(X) if (X is not None and minors_ok) else None)
        # triangular / diagonal solvers on the matching part of A
        diag_ok = all(bool(A[i][i]) for i in range(n))
        if diag_ok:
            U = [[A[i][j] if j >= i else ZERO for j in range(n)] for i in range(n)]
            add("back_substitution", obs(["dm_solve", "back_substitution", R(0), R(1)]), self.expect_matrix(L.solve(U, b)))
            add("diagonal_solve", obs(["dm_solve", "diagonal", R(0), R(1)]),
                self.expect_matrix([[b[i][k] / A[i][i] for k in range(len(b[0]))] for i in range(n)]))

        # LU family
        cur[0] = "factor"
        def lu_check(r):
            Lm, Um = obs_matrix(r["L"]), obs_matrix(r["U"])
            if not L.is_lower(Lm) or any(Lm[i][i] != ONE for i in range(n)):
                return "L is not unit lower triangular: %s" % fmt(Lm)
            if not L.is_upper(Um):
                return "U is not upper triangular: %s" % fmt(Um)
            if not L.mat_eq(L.matmul(Lm, Um), A):
                return "L*U != A: L=%s U=%s" % (fmt(Lm), fmt(Um))
        for m in (False, True):
            add("LU" + ("_method" if m else ""), obs(["dm_LU", R(0), m]), lu_check if (minors_ok) else None)

        def plu_check(split):
            def f(r):
                pl = [tuple(p) for p in r["pl"]]
                for (i, j) in pl:
                    if not (0 <= i < n and 0 <= j < n and i != j):
                        return "permutation list entry (%d,%d) is not an exchange of two rows" % (i, j)
                if split:
                    Lm, Um = obs_matrix(r["L"]), obs_matrix(r["U"])
                else:
                    LU = obs_matrix(r["LU"])
                    Lm = unit_lower(LU)
                    Um = [[LU[i][j] if j >= i else ZERO for j in range(n)] for i in range(n)]
                if not L.is_lower(Lm) or any(Lm[i][i] != ONE for i in range(n)) or not L.is_upper(Um):
                    return "factors are not unit-lower / upper triangular: L=%s U=%s" % (fmt(Lm), fmt(Um))
                PA = L.perm_apply(A, pl)
                if not L.mat_eq(L.matmul(Lm, Um), PA):
                    return "L*U != P*A with pl=%s: L=%s U=%s" % (pl, fmt(Lm), fmt(Um))
            return f
        add("pivoted_LU", obs(["dm_pivoted_LU", R(0)]), plu_check(False) if detA else None)
        add("pivoted_LU_split", obs(["dm_pivoted_LU2", R(0)]), plu_check(True) if detA else None)

        def fflu_check(r):
            got = obs_matrix(r)
            exp = [[L.bareiss_entry(A, i, j) for j in range(n)] for i in range(n)]
            if not L.mat_eq(got, exp):
                return "returned %s, expected the Bareiss minors %s" % (fmt(got), fmt(exp))
        for m in (False, True):
            add("fraction_free_LU" + ("_method" if m else ""), obs(["dm_fraction_free_LU", R(0), m]), fflu_check if minors_ok else None)

        def ffldu_check(r):
            Lm, Dm, Um = obs_matrix(r["L"]), obs_matrix(r["D"]), obs_matrix(r["U"])
            if not L.is_lower(Lm) or not L.is_upper(Um) or not L.is_diagonal(Dm):
                return "factors are not lower / diagonal / upper: L=%s D=%s U=%s" % (fmt(Lm), fmt(Dm), fmt(Um))
            if any(not Dm[i][i] for i in range(n)):
                return "D is singular: %s" % fmt(Dm)
            Dinv = [[Dm[i][i].inv() if i == j else ZERO for j in range(n)] for i in range(n)]
            if not L.mat_eq(L.matmul(L.matmul(Lm, Dinv), Um), A):
                return "L*D^-1*U != A: L=%s D=%s U=%s" % (fmt(Lm), fmt(Dm), fmt(Um))
        for m in (False, True):
            add("fraction_free_LDU" + ("_method" if m else ""), obs(["dm_fraction_free_LDU", R(0), m]), ffldu_check if minors_ok else None)

        # eliminations and rref
        cur[0] = "elim"
        if parts is None or "elim" in parts:
            self.elimination_plan(A, add, obs, 0)

        # symmetric positive definite routines
        cur[0] = "spd"
        sym = L.is_symmetric(A)
        pd = spd
        if spd:
            def ldl_check(r):
                Lm, Dm = obs_matrix(r["L"]), obs_matrix(r["D"])
                if not L.is_lower(Lm) or any(Lm[i][i] != ONE for i in range(n)) or not L.is_diagonal(Dm):
                    return "factors are not unit-lower / diagonal: L=%s D=%s" % (fmt(Lm), fmt(Dm))
                if not L.mat_eq(L.matmul(L.matmul(Lm, Dm), L.transpose(Lm)), A):
                    return "L*D*L^T != A: L=%s D=%s" % (fmt(Lm), fmt(Dm))
            for m in (False, True):
                add("LDL" + ("_method" if m else ""), obs(["dm_LDL", R(0), m]), ldl_check)
            add("solve_LDL", obs(["dm_solve", "LDL", R(0), R(1)]), self.expect_matrix(X))

            def chol_check(r):
                try:
                    Lm = obs_matrix(r)
                    exact = True
                except Bad:
                    exact = False
                if exact:
                    if not L.is_lower(Lm) or any(Lm[i][i].im != 0 or Lm[i][i].re <= 0 for i in range(n)):
                        return "L is not lower triangular with positive diagonal: %s" % fmt(Lm)
                    if not L.mat_eq(L.matmul(Lm, L.transpose(Lm)), A):
                        return "L*L^T != A: L=%s" % fmt(Lm)
                    if extra is not None and not L.mat_eq(Lm, extra):
                        return "L=%s, expected the unique factor %s" % (fmt(Lm), fmt(extra))
                    return None
                Ln = obs_numeric(r)
                tol = mpmath.mpf(10) ** -30
                with mpmath.workdps(60):
                    for i in range(n):
                        for j in range(n):
                            if j > i and abs(Ln[i][j]) > tol:
                                return "L is not lower triangular at (%d,%d)" % (i, j)
                            s = sum(Ln[i][k] * Ln[j][k] for k in range(n))
                            a = on.frac_to_mp(A[i][j].re)
                            if abs(s - a) > tol * max(1, abs(a)):
                                return "(L*L^T)[%d][%d] = %s, expected %s" % (i, j, mpmath.nstr(s, 30), A[i][j])
                        d = Ln[i][i]
                        if abs(mpmath.im(d)) > tol or mpmath.re(d) <= 0:
                            return "diagonal entry %d of L is not positive: %s" % (i, mpmath.nstr(d, 30))
                return None
            for m in (False, True):
                add("cholesky" + ("_method" if m else ""), obs(["dm_cholesky", R(0), m]), chol_check)
        else:
            # outside the documented precondition: no crash only
            add("LDL", obs(["dm_LDL", R(0), False]), None)
            add("cholesky", obs(["dm_cholesky", R(0), False]), None)
            add("solve_LDL", obs(["dm_solve", "LDL", R(0), R(1)]), None)

        self.go(stmts, plan, ctx)
        if n >= 3 and (not detA or not minors_ok or not real):
            self.nontriv(("sq", fmt(A)))
        self.sample({"family": "square/" + mode, "A": L.mat_text(A), "det": repr(detA), "needs_pivoting": not minors_ok,
                     "spd": bool(pd), "symmetric": sym})

    def elimination_plan(self, A, add, obs, reg):
        r_, c_ = L.shape(A)
        rrefA, pivA = L.rref(A)
        k = min(r_, c_)
        minors = L.leading_minors(A)
        minors_ok = all(bool(m) for m in minors)
        for flag in (False, True, None):
            def rref_check(r, flag=flag):
                got = obs_matrix(r["B"])
                if not L.mat_eq(got, rrefA):
                    return "returned %s, expected %s" % (fmt(got), fmt(rrefA))
                if list(r["piv"]) != pivA:
                    return "pivot columns %s, expected %s" % (r["piv"], pivA)
            add("rref" + {False: "", True: "_normalize_last", None: "_default"}[flag],
                obs(["dm_rref", R(reg)] + ([flag] if flag is not None else [])), rref_check)

        def pl_ok(r):
            for (i, j) in r["pl"]:
                if not (0 <= i < r_ and 0 <= j < r_ and i != j):
                    return "permutation list entry (%d,%d) is not an exchange of two rows" % (i, j)

        def pgj(r):
            got = obs_matrix(r["B"])
            if not L.mat_eq(got, rrefA):
                return "returned %s, expected the reduced row echelon form %s" % (fmt(got), fmt(rrefA))
            return pl_ok(r)
        add("pivoted_gauss_jordan_elimination", obs(["dm_eliminate", "pivoted_gauss_jordan", R(reg)]), pgj)

        def scaled_rref(r):
            got = obs_matrix(r["B"])
            if not pivA:
                return None if L.is_zero_mat(got) else "returned %s for the zero matrix" % fmt(got)
            lam = got[0][pivA[0]]
            if not lam:
                return "first pivot entry is zero: %s" % fmt(got)
            if not L.mat_eq(got, L.scal(rrefA, lam)):
                return "returned %s, which is not a multiple of the reduced row echelon form %s" % (fmt(got), fmt(rrefA))
            return pl_ok(r)
        add("pivoted_fraction_free_gauss_jordan_elimination", obs(["dm_eliminate", "pivoted_fraction_free_gauss_jordan", R(reg)]), scaled_rref)

        # Gaussian (not Jordan) eliminations process the first cols-1 columns only
        pc = max(c_ - 1, 0)
        head = [row[:pc] for row in A]
        pivH = L.rref(head)[1] if pc else []
        prefix = pivH == list(range(len(pivH)))

        def ge(unit):
            def f(r):
                got = obs_matrix(r["B"])
                if not L.row_equivalent(got, A):
                    return "result %s is not row equivalent to the input" % fmt(got)
                if not L.is_echelon(got, pc):
                    return "the first %d columns of %s are not in row echelon form" % (pc, fmt(got))
                if unit:
                    for i in range(len(pivH)):
                        if got[i][pivH[i]] != ONE:
                            return "pivot of row %d is not normalised in %s" % (i, fmt(got))
                return pl_ok(r)
            return f
        if not prefix and self.tag_active("pivoted_gaussian_elimination_skipped_column"):
            # known finding (row `index` vs column counter `i` after a pivot-free column): excluded by construction
            self.skip("known:pivoted_gaussian_elimination_skipped_column", 2)
        else:
            add("pivoted_gaussian_elimination", obs(["dm_eliminate", "pivoted_gaussian", R(reg)]), ge(True))
            add("pivoted_fraction_free_gaussian_elimination", obs(["dm_eliminate", "pivoted_fraction_free_gaussian", R(reg)]), ge(False))

        # un-pivoted fraction-free eliminations: judged when all leading minors are non-zero
        if c_ > r_ and self.tag_active("fraction_free_gauss_jordan_elimination_wide"):
            # known finding: fraction_free_gauss_jordan_elimination reads B[i][i] for i >= rows (heap overflow) on wide matrices
            self.skip("known:fraction_free_gauss_jordan_elimination_wide")
        else:
            def ffgj(r):
                got = obs_matrix(r["B"])
                exp = L.scal(rrefA, minors[k - 1])
                if not L.mat_eq(got, exp):
                    return "returned %s, expected %s" % (fmt(got), fmt(exp))
            add("fraction_free_gauss_jordan_elimination", obs(["dm_eliminate", "fraction_free_gauss_jordan", R(reg)]),
                ffgj if minors_ok else None)

        def ffge(r):
            got = obs_matrix(r["B"])
            exp = [[(L.bareiss_entry(A, i, j) if j >= i else ZERO) for j in range(c_)] for i in range(r_)]
            if not L.mat_eq(got, exp):
                return "returned %s, expected the Bareiss form %s" % (fmt(got), fmt(exp))
        add("fraction_free_gaussian_elimination", obs(["dm_eliminate", "fraction_free_gaussian", R(reg)]),
            ffge if (minors_ok and r_ <= c_) else None)

    # -------------------------------------------------------------- SPD family
    def fam_spd(self, c):
        n, mode = c["n"], c["mode"]
        M = L.mat_parse(c["M"])
        d = [L.parse(x) for x in c["diag"]]
        b = L.mat_parse(c["b"])
        Lo = unit_lower(M)
        D = [[d[i] if i == j else ZERO for j in range(n)] for i in range(n)]
        if mode == "ldl":
            A = L.matmul(L.matmul(Lo, D), L.transpose(Lo))
            self.square_checks(A, b, "spd", spd=True, parts=c.get("parts"))
        elif mode == "square":
            L0 = [[M[i][j] if j < i else (d[i] if i == j else ZERO) for j in range(n)] for i in range(n)]
            A = L.matmul(L0, L.transpose(L0))
            self.square_checks(A, b, "spd_square", spd=True, extra=L0, parts=c.get("parts"))
        elif mode == "hermitian":
            A = L.matmul(L.matmul(Lo, D), L.conj(L.transpose(Lo)))
            self.pred_checks(A, "hermitian_pd")
            self.square_checks(A, b, "hermitian_pd", parts=c.get("parts"))
        else:
            D[c["neg"]][c["neg"]] = -D[c["neg"]][c["neg"]]
            A = L.matmul(L.matmul(Lo, D), L.transpose(Lo))
            self.pred_checks(A, "indefinite")
            self.square_checks(A, b, "symmetric_indefinite", parts=c.get("parts"))
        if mode in ("ldl", "square"):
            self.pred_checks(A, "spd")

    # -------------------------------------------------------------- QR family
    def fam_qr(self, c):
        n, m = c["n"], c["m"]
        d = [L.parse(x) for x in c["diag"]]
        T = L.matmul(unit_lower(L.mat_parse(c["M"])), upper_with_diag(L.mat_parse(c["M2"]), d))
        A = swap_rows(T + L.mat_parse(c["E"]), c["swaps"])
        ctx = "A=%s" % fmt(A)
        stmts = [["let", dmr(A)]]
        plan = []

        def check(r):
            Q, Rm = obs_numeric(r["Q"]), obs_numeric(r["R"])
            if (r["Q"]["r"], r["Q"]["c"], r["R"]["r"], r["R"]["c"]) != (m, n, n, n):
                return "wrong shapes"
            tol = mpmath.mpf(10) ** -30
            with mpmath.workdps(60):
                for i in range(n):
                    for j in range(n):
                        if j < i and abs(Rm[i][j]) > tol:
                            return "R is not upper triangular at (%d,%d)" % (i, j)
                        s = sum(Q[k][i] * Q[k][j] for k in range(m))
                        if abs(s - (1 if i == j else 0)) > tol:
                            return "(Q^T*Q)[%d][%d] = %s" % (i, j, mpmath.nstr(s, 30))
                    if abs(mpmath.im(Rm[i][i])) > tol or mpmath.re(Rm[i][i]) <= 0:
                        return "diagonal entry %d of R is not positive" % i
                for i in range(m):
                    for j in range(n):
                        s = sum(Q[i][k] * Rm[k][j] for k in range(n))
                        a = on.frac_to_mp(A[i][j].re)
                        if abs(s - a) > tol * max(1, abs(a)):
                            return "(Q*R)[%d][%d] = %s, expected %s" % (i, j, mpmath.nstr(s, 30), A[i][j])
        for meth in (False, True):
            plan.append(("QR" + ("_method" if meth else ""), len(stmts), check))
            stmts.append(["mat_obs", ["dm_QR", R(0), meth]])
        self.go(stmts, plan, ctx)
        if m >= 3:
            self.nontriv(("qr", fmt(A)))
        self.sample({"family": "qr", "A": L.mat_text(A)})

    # -------------------------------------------------------------- rectangular family
    def fam_rect(self, c):
        r_, c_, mode = c["r"], c["c"], c["mode"]
        M = L.mat_parse(c["M"])
        if mode == "plain":
            A = M
        elif mode == "lowrank":
            A = L.matmul(L.mat_parse(c["X"]), L.mat_parse(c["Y"])) if c["k"] else L.zeros(r_, c_)
        elif mode == "zerocols":
            A = [[ZERO if j in c["cols"] else M[i][j] for j in range(c_)] for i in range(r_)]
        else:
            # unit-lower (r x r) times an upper-trapezoidal r x c matrix with non-zero diagonal: non-zero leading minors
            d = [L.parse(x) for x in c["diag"]]
            U = [[(M[i][j] if j > i else (d[i] if (i == j and i < len(d)) else ZERO)) for j in range(c_)] for i in range(r_)]
            A = L.matmul(unit_lower(L.mat_parse(c["M2"])), U)
        ctx = "A=%s" % fmt(A)
        stmts = [["let", dmr(A)]]
        plan = []

        def add(name, stmt, fn):
            plan.append((name, len(stmts), fn))
            stmts.append(stmt)

        def obs(x):
            return ["mat_obs", x]
        self.elimination_plan(A, add, obs, 0)
        add("transpose", obs(["dm_transpose", R(0)]), self.expect_matrix(L.transpose(A)))
        add("conjugate_transpose", obs(["dm_conjugate_transpose", R(0)]), self.expect_matrix(L.conj(L.transpose(A))))
        self.go(stmts, plan, ctx)
        rk = L.rank(A)
        if max(r_, c_) >= 3 and (rk < min(r_, c_) or not L.is_real_mat(A)):
            self.nontriv(("rect", fmt(A)))
        self.sample({"family": "rect/" + mode, "A": L.mat_text(A), "rank": rk})

    # -------------------------------------------------------------- element-wise and structural operations
    def fam_ops(self, c):
        A, Bm, C, S = (L.mat_parse(c[k]) for k in ("A", "B", "C", "S"))
        J, K = L.mat_parse(c["J"]), L.mat_parse(c["K"])
        s, t = L.parse(c["s"]), L.parse(c["t"])
        r_, c_, k_ = c["r"], c["c"], c["k"]
        ix = c["i"]
        ctx = "A=%s B=%s C=%s s=%r" % (fmt(A), fmt(Bm), fmt(C), s)
        stmts = [["let", dmr(A)], ["let", dmr(Bm)], ["let", dmr(C)], ["let", dmr(S)], ["let", dmr(J)], ["let", dmr(K)],
                 ["let", L.recipe(s)], ["let", L.recipe(t)]]
        rA, rB, rC, rS, rJ, rK, rs, rt = (R(i) for i in range(8))
        plan = []

        def add(name, stmt, fn):
            plan.append((name, len(stmts), fn))
            stmts.append(["mat_obs", stmt])
        E = self.expect_matrix
        add("construct", rA, E(A))
        add("copy", ["dm_copy", rA], E(A))
        add("assign", ["dm_assign", rA], E(A))
        add("add_matrix", ["dm_add", rA, rB], E(L.add(A, Bm)))
        add("mul_matrix", ["dm_mul", rA, rC], E(L.matmul(A, C)))
        add("mul_matrix_alias_A", ["dm_mul_alias", rA, rS, 0], E(L.matmul(A, S)))
        add("mul_matrix_alias_B", ["dm_mul_alias", rS, rK if k_ == c_ else rS, 1], E(L.matmul(S, K if k_ == c_ else S)))
        add("elementwise_mul_matrix", ["dm_emul", rA, rB], E(L.emul(A, Bm)))
        add("add_scalar", ["dm_add_scalar", rA, rs], E(L.add_scalar(A, s)))
        add("mul_scalar", ["dm_mul_scalar", rA, rs], E(L.scal(A, s)))
        add("transpose", ["dm_transpose", rA], E(L.transpose(A)))
        add("conjugate", ["dm_conjugate", rA], E(L.conj(A)))
        add("conjugate_transpose", ["dm_conjugate_transpose", rA], E(L.conj(L.transpose(A))))
        # submatrix (inclusive bounds, unit steps)
        r0, r1 = sorted((ix[0] % r_, ix[1] % r_))
        c0, c1 = sorted((ix[2] % c_, ix[3] % c_))
        add("submatrix", ["dm_submatrix", rA, r0, c0, r1, c1], E(L.submatrix(A, r0, c0, r1, c1)))
        add("submatrix_steps1", ["dm_submatrix", rA, r0, c0, r1, c1, 1, 1], E(L.submatrix(A, r0, c0, r1, c1)))
        add("submatrix_dense", ["dm_submatrix", rA, r0, c0, r1, c1, 1, 1, True], E(L.submatrix(A, r0, c0, r1, c1)))
        # joins / inserts / deletions
        add("row_join", ["dm_row_join", rA, rJ], E([ra + rj for ra, rj in zip(A, J)]))
        add("col_join", ["dm_col_join", rA, rK], E(A + K))
        pr, pc = ix[4] % (r_ + 1), ix[5] % (c_ + 1)
        add("row_insert", ["dm_row_insert", rA, rK, pr], E(A[:pr] + K + A[pr:]))
        add("col_insert", ["dm_col_insert", rA, rJ, pc], E([ra[:pc] + rj + ra[pc:] for ra, rj in zip(A, J)]))
        if r_ >= 2:
            kr = ix[6] % r_
            add("row_del", ["dm_row_del", rA, kr], E(A[:kr] + A[kr + 1:]))
            i, j = ix[0] % r_, ix[1] % r_
            if i != j:
                X = L.copy(A)
                X[i], X[j] = X[j], X[i]
                add("row_exchange_dense", ["dm_row_exchange", rA, i, j], E(X))
                Y = L.copy(A)
                Y[i] = [x + t * y for x, y in zip(A[i], A[j])]
                add("row_add_row_dense", ["dm_row_add_row", rA, i, j, rt], E(Y))
                i2, j2 = ix[2] % r_, ix[3] % r_
                pl = [(i, j)] + ([(i2, j2)] if i2 != j2 else [])
                add("permuteFwd", ["dm_permute_fwd", rA, ["list"] + [["list", a_, b_] for (a_, b_) in pl]], E(L.perm_apply(A, pl)))
        else:
            plan.append(("row_del_last", len(stmts), None))
            stmts.append(["mat_obs", ["dm_row_del", rA, 0]])
        if c_ >= 2:
            kc = ix[7] % c_
            add("col_del", ["dm_col_del", rA, kc], E([ra[:kc] + ra[kc + 1:] for ra in A]))
            i, j = ix[2] % c_, ix[3] % c_
            if i != j:
                X = L.copy(A)
                for row in X:
                    row[i], row[j] = row[j], row[i]
                add("column_exchange_dense", ["dm_col_exchange", rA, i, j], E(X))
        else:
            plan.append(("col_del_last", len(stmts), None))
            stmts.append(["mat_obs", ["dm_col_del", rA, 0]])
        i = ix[5] % r_
        Z = L.copy(A)
        Z[i] = [t * x for x in A[i]]
        add("row_mul_scalar_dense", ["dm_row_mul_scalar", rA, i, rt], E(Z))
        # get / set
        gi, gj = ix[6] % r_, ix[7] % c_
        plan.append(("get", len(stmts), self.expect_scalar(A[gi][gj])))
        stmts.append(["dm_get", rA, gi, gj])
        W = L.copy(A)
        W[gi][gj] = s
        add("set", ["dm_set", rA, gi, gj, rs], E(W))
        # equality
        same = L.mat_eq(A, Bm)
        plan.append(("eq", len(stmts), lambda r: None if r == [same, not same] else "A==B, A!=B returned %s, expected %s" % (r, [same, not same])))
        stmts.append(["mat_eq", rA, rB])
        plan.append(("eq_self", len(stmts), lambda r: None if r == [True, False] else "A==copy(A) returned %s" % r))
        stmts.append(["mat_eq", rA, ["dm_copy", rA]])
        same_c = L.mat_eq(A, C)
        plan.append(("eq_shape", len(stmts), lambda r: None if r == [same_c, not same_c] else "A==C returned %s" % r))
        stmts.append(["mat_eq", rA, rC])
        # submatrix with steps through the C wrapper (which allocates the result itself)
        rs_, cs_ = 1 + ix[4] % 3, 1 + ix[5] % 3
        if (rs_ > 1 or cs_ > 1) and self.tag_active("submatrix_dense_step_holes"):
            # known finding: only every step-th position of an un-stepped-size result is assigned, the rest stay null
            self.skip("known:submatrix_dense_step_holes")
        else:
            add("submatrix_steps", ["dm_submatrix_c", rA, r0, c0, r1, c1, rs_, cs_],
                E([[A[i][j] for j in range(c0, c1 + 1, cs_)] for i in range(r0, r1 + 1, rs_)]))
        self.go(stmts, plan, ctx)
        if max(r_, c_) >= 3 and not L.is_real_mat(A):
            self.nontriv(("ops", fmt(A)))
        self.sample({"family": "ops", "A": L.mat_text(A)})

    # -------------------------------------------------------------- vectors and NumPy-like constructors
    def fam_vec(self, c):
        n = c["n"]
        u = [L.parse(x) for x in c["u"]]
        v = [L.parse(x) for x in c["v"]]
        a3 = [L.parse(x) for x in c["a3"]]
        b3 = [L.parse(x) for x in c["b3"]]
        o = c["orient"]
        A = L.mat_parse(c["A"])
        r_, c_, k = c["r"], c["c"], c["k"]
        d = [L.parse(x) for x in c["d"]]

        def vecm(x, col):
            return [[e] for e in x] if col else [list(x)]
        stmts = [["let", dmr(vecm(u, o[0]))], ["let", dmr(vecm(v, o[1]))], ["let", dmr(vecm(a3, o[2]))], ["let", dmr(vecm(b3, o[3]))],
                 ["let", dmr(A)], ["let", dmr(vecm(v, True))]]
        ctx = "u=%s v=%s a=%s b=%s orient=%s A=%s" % (u, v, a3, b3, o, fmt(A))
        plan = []

        def add(name, stmt, fn):
            plan.append((name, len(stmts), fn))
            stmts.append(["mat_obs", stmt])
        E = self.expect_matrix
        add("dot", ["dm_dot", R(0), R(1)], E([[sum((x * y for x, y in zip(u, v)), ZERO)]]))
        # matrix . column vector -> flattened product
        Av = L.matmul(A, vecm(v, True))
        add("dot_matrix_vector", ["dm_dot", R(4), R(5)], E([[row[0] for row in Av]]))
        cr = [a3[1] * b3[2] - a3[2] * b3[1], a3[2] * b3[0] - a3[0] * b3[2], a3[0] * b3[1] - a3[1] * b3[0]]
        add("cross", ["dm_cross", R(2), R(3)], E(vecm(cr, o[2])))
        add("eye", ["dm_eye", r_, c_, k], E(L.eye(r_, c_, k)))
        add("eye0", ["dm_eye", r_, c_, 0], E(L.eye(r_, c_, 0)))
        if self.tag_active("eye_offset_outside_matrix"):
            # known finding: eye() does not return after zeros(A) for an offset outside the matrix
            self.skip("known:eye_offset_outside_matrix", 2)
        else:
            # only the first outside offsets are used: beyond them a defective tree allocates ~32 GB
            add("eye_offset_cols", ["dm_eye", r_, c_, c_], E(L.zeros(r_, c_)))
            add("eye_offset_minus_rows", ["dm_eye", r_, c_, -r_], E(L.zeros(r_, c_)))
        D = L.zeros(r_, c_)
        for i in range(r_):
            j = i + k
            if 0 <= j < c_:
                D[i][j] = d[i if k >= 0 else j]
        add("diag", ["dm_diag", r_, c_, ["list"] + [L.recipe(x) for x in d], k], E(D))
        add("ones", ["dm_ones", r_, c_], E([[ONE] * c_ for _ in range(r_)]))
        add("zeros", ["dm_zeros", r_, c_], E(L.zeros(r_, c_)))
        add("column_constructor", ["dm_col", ["list"] + [L.recipe(x) for x in u]], E(vecm(u, True)))
        self.go(stmts, plan, ctx)
        self.sample({"family": "vec", "u": c["u"], "v": c["v"]})

    # -------------------------------------------------------------- predicates
    def fam_pred(self, c):
        n, cc, mode = c["n"], c["c"], c["mode"]
        M = L.mat_parse(c["M"])
        if mode == "sym":
            A = [[M[min(i, j)][max(i, j)] for j in range(n)] for i in range(n)]
        elif mode == "herm":
            A = [[(M[i][j] if i < j else (M[j][i].conj() if j < i else G(M[i][i].re))) for j in range(n)] for i in range(n)]
        elif mode == "diag":
            A = [[M[i][j] if i == j else ZERO for j in range(n)] for i in range(n)]
        elif mode == "dominant":
            A = L.copy(M)
            for i in range(n):
                # real rows: |a_ii| equal to (boost 0: weak only) or larger than the off-diagonal sum
                srow = sum((abs(M[i][j].re) + abs(M[i][j].im) for j in range(n) if j != i), Fraction(0))
                A[i][i] = G((srow + Fraction(c["boost"] % 3)) * (1 if c["sgn"][i] else -1))
        elif mode == "negdef":
            A = [[G(M[min(i, j)][max(i, j)].re) for j in range(n)] for i in range(n)]
            for i in range(n):
                srow = sum((abs(A[i][j].re) for j in range(n) if j != i), Fraction(0))
                A[i][i] = G(-(srow + 1 + c["boost"]))
        elif mode == "zero":
            A = L.zeros(n, cc)
        elif mode == "lower":
            A = [[M[i][j] if j <= i else ZERO for j in range(n)] for i in range(n)]
        elif mode == "upper":
            A = [[M[i][j] if j >= i else ZERO for j in range(n)] for i in range(n)]
        else:
            A = M
        self.pred_checks(A, mode)

    def pred_checks(self, A, mode):
        r_, c_ = L.shape(A)
        square = r_ == c_
        ctx = "A=%s" % fmt(A)
        stmts = [["let", dmr(A)]]
        plan = []

        def tri(name, truth):
            """a definite answer must be right; 'U' (indeterminate) is always allowed"""
            def f(r):
                if r == "U" or truth is None:
                    return None
                if tri_to_bool(r) != truth:
                    return "answered %s, the matrix %s" % (r, "has the property" if truth else "does not have the property")
            plan.append((name, len(stmts), f))
            stmts.append(["dm_pred", R(0), name])

        def boolean(name, truth):
            plan.append((name, len(stmts), lambda r: None if r is truth else "answered %s, expected %s" % (r, truth)))
            stmts.append(["dm_pred", R(0), name])
        boolean("is_square", square)
        tri("is_zero", L.is_zero_mat(A))
        tri("is_real", L.is_real_mat(A))
        tri("is_diagonal", square and L.is_diagonal(A))
        tri("is_symmetric", L.is_symmetric(A))
        tri("is_hermitian", L.is_hermitian(A))
        boolean("is_symmetric_dense", L.is_symmetric(A))
        if square:
            # known finding: DenseMatrix::is_lower() tests the entries BELOW the diagonal (true for upper triangular
            # matrices) and is_upper() the entries above it; test_matrix.cpp pins this.  The pinned meaning is what is
            # compared while the finding is active; otherwise the conventional meaning is demanded.
            if self.tag_active("is_lower_is_upper_names_swapped"):
                self.skip("known:is_lower_is_upper_names_swapped")
                boolean("is_lower", L.is_upper(A))
                boolean("is_upper", L.is_lower(A))
            else:
                boolean("is_lower", L.is_lower(A))
                boolean("is_upper", L.is_upper(A))
        # diagonal dominance (exact when every modulus is rational, else decided at 50 digits with a margin)
        weak = strict = None
        if square:
            weak, strict = True, True
            with mpmath.workdps(50):
                for i in range(r_):
                    dd = mpmath.sqrt(on.frac_to_mp(A[i][i].abs2()))
                    s = sum((mpmath.sqrt(on.frac_to_mp(A[i][j].abs2())) for j in range(c_) if j != i), mpmath.mpf(0))
                    exact = all(A[i][j].im == 0 for j in range(c_))
                    if exact:
                        de = abs(A[i][i].re) - sum((abs(A[i][j].re) for j in range(c_) if j != i), Fraction(0))
                        weak = weak and de >= 0
                        strict = strict and de > 0
                    else:
                        if abs(dd - s) < mpmath.mpf(10) ** -30:
                            weak = strict = None
                            break
                        weak = weak and dd > s
                        strict = strict and dd > s
        else:
            weak = strict = False
        tri("is_weakly_diagonally_dominant", weak)
        tri("is_strictly_diagonally_dominant", strict)
        # definiteness: x^H A x > 0 for all x != 0, i.e. the Hermitian part A + A^H is positive definite
        if square:
            H = L.add(A, L.conj(L.transpose(A)))
            pdef = L.positive_definite(H)
            ndef = L.positive_definite(L.scal(H, G(-1)))
        else:
            pdef = ndef = False
        tri("is_positive_definite", pdef)
        tri("is_negative_definite", ndef)
        self.go(stmts, plan, ctx)
        if r_ >= 3 and not L.is_real_mat(A):
            self.nontriv(("pred", fmt(A)))
        self.sample({"family": "pred/" + mode, "A": L.mat_text(A)})


if __name__ == "__main__":
    sys.exit(engine.main(C24))
