"""C29 Number comparisons agree with numeric order."""
import os
import sys
from fractions import Fraction

sys.path.insert(0, os.path.join(os.path.dirname(os.path.abspath(__file__)), ".."))
from hypothesis import strategies as st
from pbt import engine, gen
from pbt.engine import Check, Violation, R, B, is_exc

INF = float("inf")


def val(r):
    """recipe -> exact value as Fraction or +-inf (float)"""
    h = r[0]
    if h == "integer":
        return Fraction(r[1])
    if h == "rational":
        return Fraction(r[1], r[2])
    if h == "real_double":
        f = r[1]
        if f in (INF, -INF):
            return f
        return Fraction(f)
    if h == "oo":
        return INF
    if h == "noo":
        return -INF
    raise KeyError(h)


def kind(r):
    return {"integer": "Integer", "rational": "Rational", "real_double": "RealDouble", "oo": "Infty", "noo": "Infty"}[r[0]]


def truth(d):
    if d == ["BooleanAtom", True]:
        return True
    if d == ["BooleanAtom", False]:
        return False
    return None


def adjacent(f, k):
    import math
    return math.nextafter(f, INF if k > 0 else -INF)


def twins():
    """equal or nearly equal values of different kinds"""
    out = []
    for q in [Fraction(1), Fraction(0), Fraction(-1), Fraction(1, 2), Fraction(-3, 4), Fraction(5, 2), Fraction(1, 3),
              Fraction(1, 10), Fraction(2 ** 53 + 1), Fraction(-(2 ** 53) - 1), Fraction(2 ** 70), Fraction(10 ** 22),
              Fraction(3, 2 ** 60)]:
        ex = ["integer", q.numerator] if q.denominator == 1 else ["rational", q.numerator, q.denominator]
        f = q.numerator / q.denominator
        out.append([ex, ["real_double", f]])
        out.append([ex, ["real_double", adjacent(f, 1)]])
        out.append([ex, ["real_double", adjacent(f, -1)]])
        fq = Fraction(f)
        if fq != q:
            ex2 = ["integer", fq.numerator] if fq.denominator == 1 else ["rational", fq.numerator, fq.denominator]
            out.append([ex2, ["real_double", f]])
    out += [[["real_double", 0.0], ["real_double", -0.0]], [["integer", 0], ["real_double", -0.0]],
            [["oo"], ["real_double", INF]], [["noo"], ["real_double", -INF]], [["oo"], ["real_double", 1e308]],
            [["oo"], ["oo"]], [["oo"], ["noo"]], [["noo"], ["noo"]], [["oo"], ["integer", 2 ** 200]],
            [["noo"], ["rational", -1, 3]], [["real_double", INF], ["integer", 2 ** 2000]],
            [["real_double", 1e308], ["integer", 10 ** 308]], [["real_double", 5e-324], ["rational", 1, 2 ** 1074]],
            [["real_double", 5e-324], ["integer", 0]]]
    return out


RELS = ["Lt", "Le", "Gt", "Ge", "Eq", "Ne"]


class C29(Check):
    pid = "C29"
    timeout = 20.0
    rule = ("ordered pairs (a, b) of real numbers of kinds Integer (incl. multi-limb), Rational, RealDouble (incl. +-0.0, "
            "+-inf, extremes), oo, -oo; a deterministic table of equal / one-ulp-apart values of different kinds in both "
            "orders plus Hypothesis pairs (independent values, and b derived from a: same value in another kind, "
            "neighbouring double). Lt/Le/Gt/Ge must equal the exact comparison (doubles taken at their exact rational "
            "value); Le(a,b) == not Lt(b,a); Ge(a,b) == Le(b,a); Eq, Ne symmetric and complementary (their truth value "
            "itself is not judged); the same relational built on symbols and instantiated with subs must give the same "
            "truth value. Non-trivial: pair of different kinds whose values are equal or differ by < 1 ulp-ish "
            "(relative 1e-15); distinct by (a, b).")
    assumptions = ["NaN doubles, nan and zoo are not real numbers and are outside the property",
                   "an exception declines the pair"]
    tiers = {"quick": {"examples": 2400}, "thorough": {"examples": 300000}}

    def enumerate(self, tier):
        tw = twins()
        batch = []
        for a, b in tw:
            batch.append([a, b])
            batch.append([b, a])
            if len(batch) >= 20:
                yield {"pairs": batch}
                batch = []
        if batch:
            yield {"pairs": batch}

    def strategy(self, tier):
        dbl = st.one_of(gen.real_double(special=False),
                        st.sampled_from([0.0, -0.0, INF, -INF, 1e308, -1e308, 5e-324, 1.0, -1.0, 0.5, 2.0 ** 53, 2.0 ** 63]).map(lambda f: ["real_double", f]),
                        st.floats(allow_nan=False, allow_infinity=False).map(lambda f: ["real_double", f]))
        v = st.one_of(gen.integer(), gen.rational(), dbl, st.sampled_from([["oo"], ["noo"]]))

        def derive(a, how):
            x = val(a)
            if x in (INF, -INF):
                return ["real_double", x] if a[0] != "real_double" else (["oo"] if x > 0 else ["noo"])
            if how == 0:  # same value, other kind
                if a[0] == "real_double":
                    return ["integer", x.numerator] if x.denominator == 1 else ["rational", x.numerator, x.denominator]
                try:
                    f = x.numerator / x.denominator
                except OverflowError:
                    return ["real_double", INF if x > 0 else -INF]
                return ["real_double", f]
            try:
                f = x.numerator / x.denominator
            except OverflowError:
                return ["real_double", 1e308]
            if abs(f) == INF:
                return ["real_double", f]
            return ["real_double", adjacent(f, 1 if how == 1 else -1)]
        pair = st.one_of(st.tuples(v, v).map(list),
                         st.builds(lambda a, h: [a, derive(a, h)], v, st.integers(0, 2)),
                         st.builds(lambda a, h: [derive(a, h), a], v, st.integers(0, 2)))
        return st.fixed_dictionaries({"pairs": st.lists(pair, min_size=1, max_size=6)})

    def judge(self, case):
        stmts = [["let", ["symbol", "x"]], ["let", ["symbol", "y"]]]
        for rel in RELS:
            stmts.append(["let", [rel, R(0), R(1)]])  # 2..7 symbolic relationals
        plan = []
        for a, b in case["pairs"]:
            ia = len(stmts)
            stmts.append(["let", a])
            stmts.append(["let", b])
            idx = {}
            for k, rel in enumerate(RELS):
                idx[rel] = len(stmts)
                stmts.append([rel, R(ia), R(ia + 1)])
                idx[rel + "_sw"] = len(stmts)
                stmts.append([rel, R(ia + 1), R(ia)])
                idx[rel + "_subs"] = len(stmts)
                stmts.append(["subs", R(2 + k), ["list", ["list", R(0), R(ia)], ["list", R(1), R(ia + 1)]]])
            plan.append((a, b, idx))
        res = self.run(stmts)
        for a, b, idx in plan:
            self.check_pair(a, b, {k: res[i] for k, i in idx.items()})

    def check_pair(self, a, b, r):
        x, y = val(a), val(b)
        if x in (INF, -INF) and x == y and kind(a) != kind(b):
            self.skip("ambiguous:oo_vs_inf_double")
            return
        desc = "(%s, %s)" % (engine.sx(a), engine.sx(b))
        exp = {"Lt": x < y, "Le": x <= y, "Gt": x > y, "Ge": x >= y}
        got = {}
        for k, v in r.items():
            if is_exc(v):
                self.skip("assert_seen" if v["exc"] == "VerifAssertFailure" else "declined:" + v["exc"])
                got[k] = None
            else:
                got[k] = truth(B(v))
                if got[k] is None:
                    got[k] = ("expr", B(v))
        self.count()
        if kind(a) != kind(b):
            close = x == y or (x not in (INF, -INF) and y not in (INF, -INF) and abs(x - y) <= abs(x) * Fraction(1, 10 ** 15))
            if close:
                self.nontriv((a, b))
        self.sample({"a": engine.sx(a), "b": engine.sx(b), "Lt": got["Lt"], "Le": got["Le"], "Eq": got["Eq"]})

        def bad(msg):
            raise Violation("%s: %s" % (desc, msg), {"a": a, "b": b, "results": {k: str(v) for k, v in got.items()}})
        for rel in ("Lt", "Le", "Gt", "Ge"):
            g = got[rel]
            if g is None:
                continue
            self.cls(rel)
            if isinstance(g, tuple):
                bad("%s of two real numbers did not evaluate to a truth value: %s" % (rel, g[1]))
            if g != exp[rel]:
                bad("%s returned %s, exact comparison gives %s" % (rel, g, exp[rel]))
            gs = got[rel + "_subs"]
            if gs is not None and gs != g:
                bad("%s built on symbols and instantiated by subs gives %s, direct construction gives %s" % (rel, gs, g))
        # consistency laws (also covered by exactness, kept explicit)
        if got["Le"] is not None and got["Lt_sw"] is not None and not isinstance(got["Lt_sw"], tuple):
            if got["Le"] != (not got["Lt_sw"]):
                bad("Le(a,b)=%s is not the negation of Lt(b,a)=%s" % (got["Le"], got["Lt_sw"]))
        if got["Ge"] is not None and got["Le_sw"] is not None and got["Ge"] != got["Le_sw"]:
            bad("Ge(a,b)=%s differs from Le(b,a)=%s" % (got["Ge"], got["Le_sw"]))
        e, n = got["Eq"], got["Ne"]
        if e is not None and n is not None:
            self.cls("EqNe")
            if isinstance(e, tuple) or isinstance(n, tuple):
                bad("Eq/Ne of two numbers did not evaluate: %s %s" % (e, n))
            if e == n:
                bad("Eq=%s and Ne=%s are not negations of each other" % (e, n))
            if got["Eq_sw"] is not None and got["Eq_sw"] != e:
                bad("Eq not symmetric: Eq(a,b)=%s Eq(b,a)=%s" % (e, got["Eq_sw"]))
            if got["Ne_sw"] is not None and got["Ne_sw"] != n:
                bad("Ne not symmetric: Ne(a,b)=%s Ne(b,a)=%s" % (n, got["Ne_sw"]))
            for rel, g in (("Eq", e), ("Ne", n)):
                gs = got[rel + "_subs"]
                if gs is not None and gs != g:
                    bad("%s built on symbols and instantiated by subs gives %s, direct construction gives %s" % (rel, gs, g))


def m_exact_vs_double_precision(case, v):
    """KF-C29-02: Lt/Le of an exact number and a double go through a double subtraction of the
    (truncated) double conversion of the exact operand; wrong only when the two values are within
    one ulp of each other or the exact operand is outside the double range."""
    a, b = v.detail["a"], v.detail["b"]
    ks = {kind(a), kind(b)}
    if "RealDouble" not in ks or not (ks & {"Integer", "Rational"}):
        return False
    x, y = val(a), val(b)
    ex, d = (x, y) if kind(a) != "RealDouble" else (y, x)
    if abs(ex) >= 2 ** 1023 or (ex != 0 and abs(ex) < Fraction(1, 2 ** 1021)):
        return True
    if d in (INF, -INF):
        return False
    return abs(ex - d) <= Fraction(1, 2 ** 51) * max(abs(ex), abs(d))


C29.matchers = {"exact_vs_double_precision": m_exact_vs_double_precision}


if __name__ == "__main__":
    sys.exit(engine.main(C29))
