"""C02 Expression ordering is a strict total order consistent with eq."""
import os
import sys

sys.path.insert(0, os.path.join(os.path.dirname(os.path.abspath(__file__)), ".."))
import numpy as np
from pbt import engine, pools
from pbt.engine import Check, Violation, R, is_exc
from c01 import PoolCheck


class C02(PoolCheck):
    pid = "C02"
    rule = ("the C01 pools (6-14 generated base expressions of every kind plus re-constructions, 20-150 members). On the "
            "n x n matrices of __cmp__, eq and RCPBasicKeyLess computed by the driver: cmp in {-1,0,1}; cmp == 0 <=> eq; "
            "cmp(a,b) == -cmp(b,a); transitivity of < and its compatibility with eq on all triples (boolean matrix "
            "products); RCPBasicKeyLess is irreflexive, asymmetric, transitive, and two members are unordered by it exactly "
            "when they are eq; std::set / std::map built in two insertion orders iterate over the same sequence of "
            "equivalence classes. Members that are not eq to themselves (NaN doubles and objects containing them) are "
            "reported separately and excluded from the laws that presuppose reflexivity. Non-trivial: a triple of three "
            "pairwise non-eq members with the same type code; distinct by the triple's pool hashes.")
    assumptions = ["eq() is the library's; only the order's consistency with it is judged",
                   "members whose construction throws are dropped from the pool"]
    tiers = {"quick": {"examples": 400}, "thorough": {"examples": 40000}}

    def enumerate(self, tier):
        return pools.structured_pools()

    def strategy(self, tier):
        return pools.pool_cases()

    def judge(self, case):
        out = self.relations(case)
        if out is None:
            return
        stmts, rel, conts, org, ci = out
        n = rel["n"]
        if n < 3:
            return
        self.count(n * n)
        cm = np.array([[{"-": -1, "0": 0, "+": 1, "x": 7, "o": 9}[c] for c in row] for row in rel["cmp"]], dtype=np.int8)
        em = np.array([[{"0": 0, "1": 1, "x": 7}[c] for c in row] for row in rel["eq"]], dtype=np.int8)
        lm = np.array([[{"0": 0, "1": 1, "x": 7}[c] for c in row] for row in rel["less"]], dtype=np.int8)

        def fail(msg, idxs):
            raise Violation(msg + " (members %s from %s)" % (idxs, [org[i] for i in idxs]),
                            {"members": self.describe(stmts, ci, idxs)})
        bad = np.argwhere(cm == 9)
        if len(bad):
            fail("__cmp__ returned a value outside {-1,0,1}", [int(bad[0][0]), int(bad[0][1])])
        exc = np.argwhere((cm == 7) | (em == 7) | (lm == 7))
        if len(exc):
            i, j = int(exc[0][0]), int(exc[0][1])
            fail("comparison raised an exception (%s): the order is not total" % (rel["errs"][:1],), [i, j])
        refl = np.array([em[i, i] == 1 and not rel["hasnan"][i] for i in range(n)])
        if not refl.all():
            self.cls("non_reflexive_member", int((~refl).sum()))
        ok = np.where(refl)[0]
        if len(ok) < 3:
            return
        C = cm[np.ix_(ok, ok)]
        E = em[np.ix_(ok, ok)]
        L = lm[np.ix_(ok, ok)]
        idx = [int(i) for i in ok]
        # cmp == 0 <=> eq
        d = np.argwhere((C == 0) != (E == 1))
        if len(d):
            i, j = d[0]
            fail("__cmp__ = %d but eq = %s" % (C[i, j], bool(E[i, j])), [idx[i], idx[j]])
        # antisymmetry
        d = np.argwhere(C != -C.T)
        if len(d):
            i, j = d[0]
            fail("cmp(a,b) = %d but cmp(b,a) = %d" % (C[i, j], C[j, i]), [idx[i], idx[j]])
        lt = (C == -1).astype(np.int32)
        eqb = (C == 0).astype(np.int32)
        # transitivity: a<b, b<c => a<c ; a==b, b<c => a<c ; a<b, b==c => a<c
        for name, M in (("a<b<c", lt @ lt), ("a==b<c", eqb @ lt), ("a<b==c", lt @ eqb)):
            d = np.argwhere((M > 0) & (lt == 0))
            if len(d):
                i, k = int(d[0][0]), int(d[0][1])
                A = lt if name != "a==b<c" else eqb
                Bm = lt if name != "a<b==c" else eqb
                js = [j for j in range(len(idx)) if A[i, j] and Bm[j, k]]
                fail("order is not transitive (%s but not a<c)" % name, [idx[i], idx[js[0]], idx[k]])
        # RCPBasicKeyLess: strict weak order whose equivalence is eq
        Lb = (L == 1)
        d = np.argwhere(Lb & Lb.T)
        if len(d):
            i, j = d[0]
            fail("RCPBasicKeyLess(a,b) and RCPBasicKeyLess(b,a) both hold", [idx[i], idx[j]])
        unordered = ~Lb & ~Lb.T
        d = np.argwhere(unordered != (E == 1))
        if len(d):
            i, j = d[0]
            fail("RCPBasicKeyLess leaves a pair unordered (%s) but eq = %s" % (bool(unordered[i, j]), bool(E[i, j])),
                 [idx[i], idx[j]])
        Li = Lb.astype(np.int32)
        d = np.argwhere(((Li @ Li) > 0) & ~Lb)
        if len(d):
            i, k = int(d[0][0]), int(d[0][1])
            js = [j for j in range(len(idx)) if Lb[i, j] and Lb[j, k]]
            fail("RCPBasicKeyLess is not transitive", [idx[i], idx[js[0]], idx[k]])
        # ordered containers: same sequence of classes for both insertion orders
        if not is_exc(conts[0]) and not is_exc(conts[1]):
            for name in ("set", "map"):
                s1, s2 = conts[0][name], conts[1][name]
                if any(em[i, i] != 1 for i in s1 + s2) or any(rel["hasnan"]):
                    continue
                if len(s1) != len(s2) or any(em[a, b] != 1 for a, b in zip(s1, s2)):
                    fail("std::%s iterates differently after a different insertion order: %s vs %s" % (name, s1, s2),
                         [s1[0], s2[0]])
        # non-trivial triples: three pairwise non-eq members with the same type code
        heads = {}
        for p, i in enumerate(idx):
            heads.setdefault(rel["type"][i], []).append(p)
        for h, ps in heads.items():
            if len(ps) >= 3:
                cls = []
                for p in ps:
                    if not any(E[p, q] == 1 for q in cls):
                        cls.append(p)
                if len(cls) >= 3:
                    self.nontriv((h, tuple(rel["hash"][idx[p]] for p in cls[:6])))
                    self.cls("triples:" + str(h))
        self.sample({"pool_size": n, "base": [engine.sx(b)[:160] for b in case["base"][:3]]})



if __name__ == "__main__":
    sys.exit(engine.main(C02))
