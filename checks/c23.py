"""C23 Finite-field polynomial arithmetic and factorisation are correct."""
import itertools
import os
import sys

sys.path.insert(0, os.path.join(os.path.dirname(os.path.abspath(__file__)), ".."))
from hypothesis import strategies as st
from pbt import engine
from pbt import gfref as G
from pbt.engine import Check, Violation, R, B, is_exc

# gf_edf_shoup with odd p and n >= 2 degenerates into a slow random walk with unbounded
# recursion (finding KF-C23-02): expected recursion depth grows like p**(n-1) per split.  Blocks of N
# irreducibles of degree n with p**(n-1) * N beyond this bound are not given to gf_edf_shoup / gf_shoup.
EDF_SHOUP_LIMIT = 200
# gf_edf_zassenhaus over GF(2) runs a loop of 2**(deg-1) modular squarings per random trial
# (as its sympy original); equal-degree blocks beyond this degree are only given to the Shoup family.
P2_BLOCK_LIMIT = 8
# Tags of the recorded findings (known_findings.json "matcher" names, GUIDE "Known findings protocol").
# An exclusion applies only while its tag is active (the finding's reproducer still fails on the tree
# under test); otherwise the inputs are generated and judged normally.
T01 = "gf_zero_plus_int"          # KF-C23-01 zero polynomial +/- integer stays zero
T02 = "gf_trace_map_frobenius"    # KF-C23-02 _gf_trace_map applies Frobenius the wrong way round
T03 = "gf_div_by_multiple_of_p"   # KF-C23-03 division by an integer that is 0 in GF(p) does not throw
T04 = "gf_get_coeff_zero_poly"    # KF-C23-04 get_coeff(0) of the zero polynomial reads out of bounds


class Bad(Exception):
    pass


def dec(r, p):
    """decode an observed value: {"p","c"} -> canonical coefficient list"""
    if isinstance(r, dict):
        if "c" in r and "p" in r:
            if r["p"] != p:
                raise Bad("result has modulus %s, expected %s" % (r["p"], p))
            c = r["c"]
            if any((not isinstance(x, int)) or isinstance(x, bool) or x < 0 or x >= p for x in c):
                raise Bad("coefficient outside [0,p): %s" % (c,))
            if c and c[-1] == 0:
                raise Bad("leading zero coefficient not stripped: %s" % (c,))
            return c
        raise Bad("unexpected result %s" % (r,))
    if isinstance(r, list):
        return [dec(x, p) for x in r]
    return r


def vec(cs):
    return ["list"] + list(cs)


def gdump(f, p):
    return ["GaloisField", ["Symbol", "x"], str(p), [str(c) for c in f]]


def shoup_compose_hit(f, p):
    """does gf_ddf_shoup(f) call gf_compose_mod on arguments that trigger KF-C23-01?"""
    n = G.deg(f)
    k = 0
    while k * k < n // 2:
        k += 1
    if k < 2:
        return False
    h = G.frob_x(f, p, k)
    v = h
    for _ in range(1, k):
        if G.compose_hits_zero_plus_const(v, h, f, p):
            return True
        v = G.compose_mod(v, h, f, p)
    return False


def trace_map_ref(a, b, c, n, f, p):
    """the documented algorithm (sympy gf_trace_map); also reports whether any
    of its compositions runs into KF-C23-01"""
    hit = [False]

    def cm(g, h):
        if G.compose_hits_zero_plus_const(g, h, f, p):
            hit[0] = True
        return G.compose_mod(g, h, f, p)

    u = cm(a, b)
    v = b
    if n & 1:
        U = G.add(a, u, p)
        V = b
    else:
        U = a
        V = c
    n >>= 1
    while n:
        u = G.add(u, cm(u, v), p)
        v = cm(v, v)
        if n & 1:
            U = G.add(U, cm(u, V), p)
            V = cm(v, V)
        n >>= 1
    return [cm(a, V), U], hit[0]


class Prog:
    """one driver request with its judging plan"""

    def __init__(self, chk, p, seed):
        self.chk = chk
        self.p = p
        self.st = [["gf_srand", seed % 2147483647]]
        self.plan = []

    def let(self, rec):
        self.st.append(["let", rec])
        return R(len(self.st) - 1)

    def poly(self, cs, p=None):
        return self.let(["gf_from_vec", vec(cs), self.p if p is None else p])

    def ask(self, rec, name, desc, fn, obs=True):
        self.st.append(["gf_obs", rec] if obs else rec)
        self.plan.append((len(self.st) - 1, name, desc, fn))

    # ---- expectation builders: fn(raw result) -> None | ("skip", reason) | complaint
    def value(self, rec, name, desc, exp, known=None, obs=True):
        """the op must return exactly exp.  known="tag:what" (from C23.kn, None while the tag is
        inactive): the input triggers a recorded defect; the result is not judged (counted as skipped)"""
        p = self.p

        def fn(r):
            if is_exc(r):
                if known is not None:
                    return ("skip", "known:" + known)
                if r["exc"] == "NotImplementedError":
                    return ("skip", "declined:NotImplementedError")
                return "raised %s (%s), expected %s" % (r["exc"], r.get("what"), exp)
            got = dec(r, p)
            if known is not None:
                return ("skip", "known:" + known)
            if got != exp:
                return "returned %s, expected %s" % (got, exp)
            return None
        self.ask(rec, name, desc, fn, obs)

    def throws(self, rec, name, desc):
        def fn(r):
            if is_exc(r):
                if r["exc"] in ("std::bad_alloc", "std::length_error", "std::out_of_range"):
                    return "raised %s (%s) instead of a library exception" % (r["exc"], r.get("what"))
                return None
            return "returned %s instead of throwing (division by the zero polynomial)" % (r,)
        self.ask(rec, name, desc, fn)

    def nocrash(self, rec, name, desc):
        self.ask(rec, name, desc, lambda r: None)

    def custom(self, rec, name, desc, judge, known_exc=None):
        """judge(decoded value) -> None | ("skip", why) | complaint.
        known_exc=(exception class, "tag:what") (None while the tag is inactive): that exception is a
        recorded finding on this input"""
        p = self.p

        def fn(r):
            if is_exc(r):
                if r["exc"] == "NotImplementedError":
                    return ("skip", "declined:NotImplementedError")
                if known_exc is not None and r["exc"] == known_exc[0]:
                    return ("skip", "known:" + known_exc[1])
                return "raised %s (%s)" % (r["exc"], r.get("what"))
            return judge(dec(r, p))
        self.ask(rec, name, desc, fn)

    def run(self):
        chk = self.chk
        res = chk.run(self.st)
        if len(res) != len(self.st):
            raise RuntimeError("driver returned %d results for %d statements" % (len(res), len(self.st)))
        for i, r in enumerate(res):
            if is_exc(r) and r["exc"] in ("Decline", "Dep") and not any(i == pl[0] for pl in self.plan):
                raise RuntimeError("setup statement %d declined: %s / %s" % (i, r, engine.sx(self.st[i])))
        for idx, name, desc, fn in self.plan:
            r = res[idx]
            chk.count()
            chk.cls(name)
            if is_exc(r) and r["exc"] == "VerifAssertFailure":
                chk.skip("assert_seen")
                continue
            if is_exc(r) and r["exc"] in ("Decline", "Dep"):
                raise RuntimeError("statement declined: %s / %s" % (r, engine.sx(self.st[idx])))
            try:
                out = fn(r)
            except Bad as e:
                out = str(e)
            if out is None:
                continue
            if isinstance(out, tuple):
                chk.skip(out[1])
                continue
            raise Violation("p=%d %s(%s): %s" % (self.p, name, desc, out),
                            {"op": name, "args": desc, "p": self.p, "result": r,
                             "statement": engine.sx(self.st[idx])})


# ---------------------------------------------------------------- strategies
prime = st.sampled_from(G.PRIMES)
small_prime = st.sampled_from([2, 3, 5, 7])
coef = st.integers(-200, 200)


def raw_poly(maxlen=13):
    return st.one_of(
        st.just([]),
        st.lists(coef, min_size=1, max_size=1),
        st.lists(coef, min_size=0, max_size=maxlen),
        st.lists(st.sampled_from([0, 0, 0, 1, -1, 2]), min_size=0, max_size=maxlen),
        st.lists(coef, min_size=0, max_size=maxlen - 1).map(lambda v: v + [1]),
    )


points = st.lists(st.one_of(st.integers(-200, 200), st.integers(-2 ** 70, 2 ** 70)), min_size=1, max_size=5)

rand_case = st.fixed_dictionaries({
    "k": st.just("rand"),
    "p": st.one_of(prime, small_prime),
    "rs": st.integers(0, 2 ** 31 - 2),
    "a": raw_poly(), "b": raw_poly(), "c": raw_poly(9),
    "n": st.integers(0, 12),
    "ns": st.lists(st.one_of(st.integers(0, 40), st.integers(0, 10 ** 9)), min_size=1, max_size=3),
    "pts": points,
    "ints": st.lists(st.one_of(st.integers(-200, 200), st.integers(-2 ** 70, 2 ** 70)), min_size=1, max_size=3),
})


@st.composite
def fac_case(draw):
    p = draw(st.one_of(prime, small_prime, st.sampled_from([2, 3])))
    budget = 12
    shape = draw(st.sampled_from(["free", "free", "equal", "repeated"]))
    parts = []
    if shape == "equal":
        d = draw(st.integers(1, 6))
        k = draw(st.integers(2, max(2, 12 // d)))
        for _ in range(k):
            if budget < d:
                break
            parts.append({"low": draw(st.lists(st.integers(0, p - 1), min_size=d, max_size=d)), "m": 1})
            budget -= d
    else:
        k = draw(st.integers(1, 5))
        for _ in range(k):
            if budget < 1:
                break
            d = draw(st.integers(1, min(budget, 6 if k > 1 else 12)))
            mmax = budget // d
            if shape == "repeated":
                m = draw(st.sampled_from([2, 3, p, p + 1, 2 * p, 4]))
            else:
                m = draw(st.sampled_from([1, 1, 1, 2, 3, p]))
            m = max(1, min(m, mmax))
            parts.append({"low": draw(st.lists(st.integers(0, p - 1), min_size=d, max_size=d)), "m": m})
            budget -= d * m
    return {"k": "fac", "p": p, "rs": draw(st.integers(0, 2 ** 31 - 2)), "lc": draw(st.integers(1, p - 1)),
            "parts": parts}


def chunks(seq, n):
    seq = list(seq)
    for i in range(0, len(seq), n):
        yield seq[i:i + n]


class C23(Check):
    pid = "C23"
    exe = "driver_gf"
    builds = [("main", ("driver_gf",))]
    rule = ("GaloisFieldDict / GaloisField over GF(p). Enumerated: every ordered pair of polynomials (incl. zero, "
            "constants, non-monic) for p=2 deg<=4, p=3 deg<=3, p=5 deg<=2 (thorough: p=2 deg<=5, p=3 deg<=4, p=5 deg<=3) "
            "through + - * *= / % gf_div gcd lcm == and the GaloisField add/sub/mul/quo wrappers; every polynomial for "
            "p=2 deg<=6, p=3 deg<=4, p=5 deg<=3, p=7 deg<=2 (thorough: 8, 5, 4, 3) through all unary operations, gf_is_sqf, gf_sqf_list, "
            "gf_sqf_part, gf_factor, and (on its monic square-free part and on each equal-degree block) ddf/edf "
            "zassenhaus+shoup, gf_zassenhaus, gf_shoup; all (modulus, g, h) triples of small degree for p=2,3 through "
            "gf_compose_mod, gf_pow_mod, gf_frobenius_map, gf_trace_map. Hypothesis: all primes <= 97, raw integer "
            "coefficient vectors of length <= 13 (deg <= 12), exponents to 1e9 for gf_pow_mod, and polynomials "
            "constructed as lc * prod(irreducible_i ** m_i) (total degree <= 12, irreducibles found by an independent "
            "Rabin/brute-force test; shapes: free, equal-degree products for edf, repeated incl. multiplicities p, p+1, 2p). "
            "Oracle: list arithmetic mod p in Python; a factorisation is accepted iff every factor is monic, canonical, "
            "irreducible (independent test), distinct, and the multiset equals the reference factorisation (order free). "
            "Library-internal randomness is pinned per case with srand. Non-trivial: a non-square-free input with >= 2 "
            "distinct irreducible factors; distinct by (p, coefficients).")
    assumptions = ["Python integer list arithmetic mod p is the reference; sympy.polys.galoistools agrees with it on the "
                   "self-test (pbt/gfref.py) and is used as a second opinion for random inputs",
                   "the modulus is prime (the library does not check); inputs to ddf/edf/zassenhaus/shoup are "
                   "constructed to satisfy the header preconditions (monic, square-free, equal-degree blocks)",
                   "division by the zero polynomial must raise a library exception; for any other in-domain input an "
                   "exception other than NotImplementedError is a violation",
                   "excluded by construction (recorded findings): zero polynomial +/- integer and gf_compose_mod / "
                   "gf_ddf_shoup / gf_trace_map inputs whose Horner evaluation passes through zero (KF-C23-01); "
                   "gf_edf_shoup / gf_shoup on blocks of N irreducibles of degree n with p odd, n>=2 and p**(n-1)*N > %d, and "
                   "their spurious DivisionByZeroError for n>=3 (KF-C23-02); division by an "
                   "integer that is a non-zero multiple of p (KF-C23-03); get_coeff(0) of the zero polynomial "
                   "(KF-C23-04). Each exclusion applies only while its tag (gf_zero_plus_int, gf_trace_map_frobenius, "
                   "gf_div_by_multiple_of_p, gf_get_coeff_zero_poly) is active, i.e. while its reproducer in "
                   "replays/known/C23-*.json still fails" % EDF_SHOUP_LIMIT,
                   "not judged (counted as skipped): modulus of degree < 1 in gf_compose_mod / gf_pow_mod(n=0), "
                   "gf_is_sqf / gf_sqf_part of the zero polynomial, GF(2) equal-degree blocks of total degree > %d for the "
                   "Zassenhaus family (its loop is 2**(deg-1) long, slowness is not a violation), operands over "
                   "different moduli (only no-crash)" % P2_BLOCK_LIMIT]
    # one example = one random polynomial triple or one constructed factorisation, about 60 judged operations
    tiers = {"quick": {"examples": 320}, "thorough": {"examples": 24000}}
    case_timeout = 60

    def kn(self, tag, what):
        """skip label of a recorded finding while its tag is active, else None (= judge normally)"""
        return "%s:%s" % (tag, what) if self.tag_active(tag) else None

    # ------------------------------------------------------------ enumeration
    def enumerate(self, tier):
        thorough = tier == "thorough"
        pair_ranges = [(2, 5), (3, 4), (5, 3)] if thorough else [(2, 4), (3, 3), (5, 2)]
        for p, md in pair_ranges:
            polys = list(G.all_polys(p, md))
            for a in polys:
                for bs in chunks(polys, 48):
                    yield {"k": "pairs", "p": p, "a": a, "bs": bs, "gfb": p == 2 or len(a) <= 2}
        for p, md in ([(2, 8), (3, 5), (5, 4), (7, 3)] if thorough else [(2, 6), (3, 4), (5, 3), (7, 2)]):
            for fs in chunks(G.all_polys(p, md), 6):
                yield {"k": "unary", "p": p, "fs": fs}
        trip = [(2, 3, 3), (3, 2, 2)] + ([(5, 2, 1), (3, 3, 2)] if thorough else [])
        for p, mdf, mdg in trip:
            gs = list(G.all_polys(p, mdg))
            for f in G.all_polys(p, mdf):
                for g in gs:
                    yield {"k": "mod", "p": p, "f": f, "g": g, "hs": gs, "ns": list(range(0, 7)) + [p, p * p, p ** 3 + 1]}

    def strategy(self, tier):
        return st.one_of(rand_case, fac_case(), fac_case())

    # ------------------------------------------------------------ judge
    def judge(self, case):
        k = case["k"]
        if k == "pairs":
            return self.judge_pairs(case)
        if k == "unary":
            return self.judge_unary(case)
        if k == "mod":
            return self.judge_mod(case)
        if k == "rand":
            return self.judge_rand(case)
        if k == "fac":
            return self.judge_fac(case)
        if k == "probe":
            return self.judge_probe(case)
        raise RuntimeError("unknown case kind")

    # -- binary operations
    def pair_ops(self, P, ra, rb, a, b, gfb=None):
        p = P.p
        d = "%s, %s" % (a, b)
        P.value(["gf_add", ra, rb], "add", d, G.add(a, b, p))
        P.value(["gf_sub", ra, rb], "sub", d, G.sub(a, b, p))
        P.value(["gf_mul", ra, rb], "mul", d, G.mul(a, b, p))
        P.value(["gf_mul_ip", ra, rb], "mul_ip", d, G.mul(a, b, p))
        P.value(["gf_eq", ra, rb], "eq", d, a == b, obs=False)
        P.value(["gf_ne", ra, rb], "ne", d, a != b, obs=False)
        if b:
            q, r = G.divmod_(a, b, p)
            P.value(["gf_div", ra, rb], "gf_div", d, [q, r])
            P.value(["gf_quo", ra, rb], "quo", d, q)
            P.value(["gf_rem", ra, rb], "rem", d, r)
        else:
            P.throws(["gf_div", ra, rb], "gf_div", d)
            P.throws(["gf_quo", ra, rb], "quo", d)
            P.throws(["gf_rem", ra, rb], "rem", d)
        P.value(["gf_gcd", ra, rb], "gf_gcd", d, G.gcd(a, b, p))
        P.value(["gf_lcm", ra, rb], "gf_lcm", d, G.lcm(a, b, p))
        if gfb is not None:
            ga, gb = gfb
            for op, exp in (("gfb_add", G.add(a, b, p)), ("gfb_sub", G.sub(a, b, p)), ("gfb_mul", G.mul(a, b, p))):
                self.basic(P, [op, ga, gb], op, d, exp)
            if b:
                self.basic(P, ["gfb_quo", ga, gb], "gfb_quo", d, G.quo(a, b, p))
            else:
                P.throws(["gfb_quo", ga, gb], "gfb_quo", d)

    def basic(self, P, rec, name, desc, exp):
        want = gdump(exp, P.p)

        def fn(r):
            if is_exc(r):
                return "raised %s (%s)" % (r["exc"], r.get("what"))
            if B(r) != want:
                return "returned %s, expected %s" % (B(r), want)
            return None
        P.ask(rec, name, desc, fn, obs=False)

    def judge_pairs(self, case):
        p = case["p"]
        a = case["a"]
        P = Prog(self, p, 1)
        ra = P.poly(a)
        ga = P.let(["gfb_from_vec", "x", vec(a), p]) if case.get("gfb") else None
        for b in case["bs"]:
            rb = P.poly(b)
            gfb = None
            if ga is not None:
                gfb = (ga, P.let(["gfb_from_vec", "x", vec(b), p]))
            self.pair_ops(P, ra, rb, a, b, gfb)
        P.run()

    # -- unary operations
    def unary_ops(self, P, rf, f, raw, pts, ints, pows):
        p = P.p
        d = "%s" % (f,)
        n = len(f)
        P.value(["gf_from_vec", vec(raw), p], "from_vec", "%s" % (raw,), f)
        P.value(["gf_from_map", vec([vec([i, c]) for i, c in enumerate(raw) if c != 0]), p], "from_map", "%s" % (raw,), f)
        P.value(["gf_neg", rf], "neg", d, G.neg(f, p))
        P.value(["gf_negate", rf], "negate", d, G.neg(f, p))
        P.value(["gf_sqr", rf], "gf_sqr", d, G.mul(f, f, p))
        P.value(["gf_diff", rf], "gf_diff", d, G.diff(f, p))
        lc, m = G.monic(f, p)
        P.value(["gf_monic", rf], "gf_monic", d, [lc, m])
        P.value(["gf_degree", rf], "degree", d, max(n - 1, 0), obs=False)
        P.value(["gf_size", rf], "size", d, n, obs=False)
        P.value(["gf_empty", rf], "empty", d, n == 0, obs=False)
        P.value(["gf_is_one", rf], "is_one", d, f == [1], obs=False)
        for i in (0, n // 2, max(n - 1, 0), n, n + 3):
            if n == 0 and i == 0 and self.tag_active(T04):
                # get_coeff(0) of the zero polynomial indexes an empty vector (finding KF-C23-04)
                self.skip("known:%s" % T04)
                continue
            P.value(["gf_get_coeff", rf, i], "get_coeff", "%s, %d" % (d, i), f[i] if i < n else 0, obs=False)
        for e in pows:
            exp = G.pw(f, e, p)
            if e <= 6 and exp != G.pow_naive(f, e, p):
                raise RuntimeError("reference pow inconsistent")
            P.value(["gf_pow", rf, e], "gf_pow", "%s, %d" % (d, e), exp)
            if e in pows[1::2]:
                P.value(["gf_pow_static", rf, e], "pow", "%s, %d" % (d, e), exp)
        for a in pts:
            self.eval_op(P, ["gf_eval", rf, a], "gf_eval", f, a)
        exps = [G.ev(f, a, p) for a in pts]

        def jm(got, exps=exps):
            if len(got) != len(exps) or any((not isinstance(x, int)) or (x - e) % p for x, e in zip(got, exps)):
                return "returned %s, expected %s (mod p)" % (got, exps)
            if any(a >= 0 and x != e for x, e, a in zip(got, exps, pts)):
                return "returned %s, expected %s" % (got, exps)
            return None
        P.custom(["gf_multi_eval", rf, vec(pts)], "gf_multi_eval", "%s, %s" % (d, pts), jm)
        for s in sorted({0, 1, 2, n, n + 1, max(n - 1, 0)}):
            P.value(["gf_lshift", rf, s], "gf_lshift", "%s, %d" % (d, s), G.lshift(f, s))
            q, r = G.rshift(f, s)
            P.value(["gf_rshift", rf, s], "gf_rshift", "%s, %d" % (d, s), [q, r])
        for c in ints:
            dc = "%s, %d" % (d, c)
            cp = c % p
            known = self.kn(T01, "zero+int") if (not f and cp != 0) else None
            P.value(["gf_add_int", rf, c], "add_int", dc, G.add(f, [cp] if cp else [], p), known)
            P.value(["gf_sub_int", rf, c], "sub_int", dc, G.sub(f, [cp] if cp else [], p), known)
            P.value(["gf_mul_int", rf, c], "mul_int", dc, G.scal(f, cp, p))
            P.value(["gf_from_int", c, p], "from_int", "%d" % c, [cp] if cp else [])
            if abs(c) < 2 ** 31:
                P.value(["gf_from_cint", c, p], "from_cint", "%d" % c, [cp] if cp else [])
            if c == 0 or (cp == 0 and not self.tag_active(T03)):
                P.throws(["gf_quo_int", rf, c], "quo_int", dc)
                P.throws(["gf_rem_int", rf, c], "rem_int", dc)
            elif cp == 0:
                P.ask(["gf_quo_int", rf, c], "quo_int", dc, lambda r: ("skip", "known:%s" % T03))
                P.ask(["gf_rem_int", rf, c], "rem_int", dc, lambda r: ("skip", "known:%s" % T03))
            else:
                P.value(["gf_quo_int", rf, c], "quo_int", dc, G.scal(f, G.inv(cp, p), p))
                P.value(["gf_rem_int", rf, c], "rem_int", dc, [])
        if n >= 2:
            P.value(["gf_frobenius_monomial_base", rf], "gf_frobenius_monomial_base", d,
                    [G.pow_mod(G.X, i * p, f, p) for i in range(n - 1)])
        else:
            P.value(["gf_frobenius_monomial_base", rf], "gf_frobenius_monomial_base", d, [])
        # the Basic wrapper
        gb = P.let(["gfb_from_vec", "x", vec(raw), p])
        self.basic(P, gb, "gfb_from_vec", "%s" % (raw,), f)
        self.basic(P, ["gfb_from_uintpoly", "x", vec(raw), p], "gfb_from_uintpoly", "%s" % (raw,), f)
        self.basic(P, ["gfb_from_dict", "x", rf], "gfb_from_dict", d, f)
        self.basic(P, ["gfb_neg", gb], "gfb_neg", d, G.neg(f, p))
        for e in pows[:3]:
            self.basic(P, ["gfb_pow", gb, e], "gfb_pow", "%s, %d" % (d, e), G.pw(f, e, p))
        P.value(["gfb_poly", gb], "gfb_poly", d, f)
        P.value(["gfb_degree", gb], "gfb_degree", d, max(n - 1, 0), obs=False)
        P.value(["gfb_size", gb], "gfb_size", d, n, obs=False)
        if n:
            P.value(["gfb_get_coeff", gb, n // 2], "gfb_get_coeff", d, f[n // 2], obs=False)
        P.value(["gfb_get_coeff", gb, n + 1], "gfb_get_coeff", d, 0, obs=False)
        self.eval_op(P, ["gfb_eval", gb, pts[0]], "gfb_eval", f, pts[0])
        P.custom(["gfb_multieval", gb, vec(pts)], "gfb_multieval", "%s, %s" % (d, pts), jm)
        g2 = P.let(["gfb_from_dict", "x", rf])
        P.value(["gfb_eq", gb, g2], "gfb_eq", d, True, obs=False)
        P.value(["gfb_hash_eq", gb, g2], "gfb_hash_eq", d, True, obs=False)
        P.value(["gfb_compare", gb, g2], "gfb_compare", d, 0, obs=False)

    def eval_op(self, P, rec, name, f, a):
        p = P.p
        exp = G.ev(f, a, p)

        def je(got):
            if not isinstance(got, int) or (got - exp) % p:
                return "returned %s, expected %s" % (got, exp)
            if got != exp:
                if a >= 0:
                    return "returned the non-canonical residue %s, expected %s" % (got, exp)
                self.cls("eval_noncanonical_residue_for_negative_point")
            return None
        P.custom(rec, name, "%s, %d" % (f, a), je)

    # -- square-free / factorisation family; fac = {tuple(irreducible): multiplicity}
    def factor_ops(self, P, rf, f, lc, fac, full=True):
        p = P.p
        d = "%s" % (f,)
        n = len(f)
        if not f:
            P.nocrash(["gf_is_sqf", rf], "gf_is_sqf", d)
            P.value(["gf_sqf_list", rf], "gf_sqf_list", d, [])
            P.nocrash(["gf_sqf_part", rf], "gf_sqf_part", d)
            P.value(["gf_factor", rf], "gf_factor", d, [0, []])
            return
        mf = G.monic(f, p)[1]
        irr = sorted(fac, key=lambda t: (len(t), t))
        groups = {}
        for t in irr:
            groups.setdefault(len(t) - 1, []).append(list(t))
        p2slow = p == 2 and any(len(v) >= 2 and k * len(v) > P2_BLOCK_LIMIT for k, v in groups.items())
        P.value(["gf_is_sqf", rf], "gf_is_sqf", d, all(m == 1 for m in fac.values()), obs=False)

        def j_sqf(got):
            prod = [1]
            seen = []
            for ent in got:
                if not (isinstance(ent, list) and len(ent) == 2 and isinstance(ent[1], int) and ent[1] >= 1):
                    return "malformed entry %s" % (ent,)
                g, m = ent
                if G.deg(g) < 1 or g[-1] != 1:
                    return "entry %s is not a monic polynomial of positive degree" % (g,)
                if not G.is_sqf(g, p):
                    return "entry %s is not square-free" % (g,)
                for h in seen:
                    if G.gcd(g, h, p) != [1]:
                        return "entries %s and %s are not coprime" % (g, h)
                seen.append(g)
                prod = G.mul(prod, G.pw(g, m, p), p)
            if prod != mf:
                return "prod(g_i**m_i) = %s differs from the monic input %s (list %s)" % (prod, mf, got)
            return None
        P.custom(["gf_sqf_list", rf], "gf_sqf_list", d, j_sqf)
        rad = G.prod([list(t) for t in irr], p)
        P.value(["gf_sqf_part", rf], "gf_sqf_part", d, rad)

        def j_factor(got):
            if not (isinstance(got, list) and len(got) == 2):
                return "malformed result %s" % (got,)
            glc, fs = got
            if glc != lc:
                return "leading coefficient %s, expected %s" % (glc, lc)
            bad = G.check_factor_list([e[0] for e in fs], p)
            if bad:
                return bad + " in %s" % (fs,)
            prod = G.scal(G.prod([G.pw(e[0], e[1], p) for e in fs], p), lc, p)
            if prod != f:
                return "factors %s multiply back to %s, not the input" % (fs, prod)
            if {tuple(e[0]): e[1] for e in fs} != fac:
                return "factorisation %s differs from the reference %s" % (fs, fac)
            return None
        if p2slow:
            self.skip("slow:GF(2)_edf_zassenhaus_block>%d" % P2_BLOCK_LIMIT)
        else:
            P.custom(["gf_factor", rf], "gf_factor", d, j_factor)
        if len(fac) >= 2 and any(m > 1 for m in fac.values()):
            self.nontriv((p, tuple(f)))
            self.sample({"p": p, "f": f, "reference_factorisation": [[list(t), m] for t, m in sorted(fac.items())]})
        if not full:
            return
        # monic square-free part and its equal-degree blocks
        g = rad
        rg = P.poly(g)
        dg = "%s" % (g,)
        ddf_exp = {k: G.prod(v, p) for k, v in groups.items()}
        if ddf_exp != G.ddf(g, p):
            raise RuntimeError("reference ddf inconsistent for %s mod %d" % (g, p))

        def j_ddf(got):
            out = {}
            for ent in got:
                if not (isinstance(ent, list) and len(ent) == 2 and isinstance(ent[1], int)):
                    return "malformed entry %s" % (ent,)
                if ent[1] in out:
                    return "degree %d listed twice in %s" % (ent[1], got)
                out[ent[1]] = ent[0]
            if out != ddf_exp:
                return "returned %s, expected %s" % (got, ddf_exp)
            return None

        def j_set(exp):
            want = sorted(exp)

            def j(got):
                bad = G.check_factor_list(got, p)
                if bad:
                    return bad + " in %s" % (got,)
                if sorted(got) != want:
                    return "returned %s, expected the set %s" % (got, want)
                return None
            return j
        kf02 = self.tag_active(T02)
        slow = kf02 and any(p != 2 and k >= 2 and len(v) >= 2 and p ** (k - 1) * len(v) > EDF_SHOUP_LIMIT
                            for k, v in groups.items())
        hit = self.tag_active(T01) and shoup_compose_hit(g, p)
        P.custom(["gf_ddf_zassenhaus", rg], "gf_ddf_zassenhaus", dg, j_ddf)
        if p2slow:
            self.skip("slow:GF(2)_edf_zassenhaus_block>%d" % P2_BLOCK_LIMIT)
        else:
            P.custom(["gf_zassenhaus", rg], "gf_zassenhaus", dg, j_set([list(t) for t in irr]))
        if hit:
            self.skip("known:%s:ddf_shoup_compose" % T01, 2)
        else:
            P.custom(["gf_ddf_shoup", rg], "gf_ddf_shoup", dg, j_ddf)
            if slow:
                self.skip("known:%s:edf_shoup_unbounded" % T02)
            else:
                # with n >= 3 the broken trace map can also hand the zero polynomial to gf_frobenius_map,
                # which then throws DivisionByZeroError (same finding)
                spur = any(p != 2 and k >= 3 and len(v) >= 2 for k, v in groups.items())
                P.custom(["gf_shoup", rg], "gf_shoup", dg, j_set([list(t) for t in irr]),
                         ("DivisionByZeroError", T02 + ":edf_shoup_spurious_throw") if (spur and kf02) else None)
        for k, v in sorted(groups.items()):
            e = ddf_exp[k]
            re_ = P.poly(e) if len(groups) > 1 else rg
            de = "%s, %d" % (e, k)
            if p == 2 and len(v) >= 2 and k * len(v) > P2_BLOCK_LIMIT:
                self.skip("slow:GF(2)_edf_zassenhaus_block>%d" % P2_BLOCK_LIMIT)
            else:
                P.custom(["gf_edf_zassenhaus", re_, k], "gf_edf_zassenhaus", de, j_set(v))
            if kf02 and p != 2 and k >= 2 and len(v) >= 2 and p ** (k - 1) * len(v) > EDF_SHOUP_LIMIT:
                self.skip("known:%s:edf_shoup_unbounded" % T02)
            else:
                P.custom(["gf_edf_shoup", re_, k], "gf_edf_shoup", de, j_set(v),
                         ("DivisionByZeroError", T02 + ":edf_shoup_spurious_throw")
                         if (kf02 and p != 2 and k >= 3 and len(v) >= 2) else None)

    def judge_unary(self, case):
        p = case["p"]
        for i, f in enumerate(case["fs"]):
            P = Prog(self, p, 7 + i)
            rf = P.poly(f)
            raw = [c + p * ((j % 3) - 1) for j, c in enumerate(f)]
            pts = list(range(p)) + [-1, -p - 1, p + 2]
            self.unary_ops(P, rf, f, raw, pts, list(range(-1, p + 1)) + [2 * p, -3 * p], [0, 1, 2, 3, 6])
            lc, fac = G.factor_small(f, p)
            self.factor_ops(P, rf, f, lc, fac)
            P.run()

    # -- modular operations with modulus f
    def mod_ops(self, P, rf, rg, f, g, hs, ns, trace=True):
        p = P.p
        df = G.deg(f)
        for h in hs:
            rh = P.poly(h) if not isinstance(h, tuple) else h[1]
            hv = h if not isinstance(h, tuple) else h[0]
            d = "mod %s; g=%s, h=%s" % (f, g, hv)
            if df >= 1:
                exp = G.compose_mod(g, hv, f, p)
                known = self.kn(T01, "compose_mod") if G.compose_hits_zero_plus_const(g, hv, f, p) else None
                P.value(["gf_compose_mod", rf, rg, rh], "gf_compose_mod", d, exp, known)
            else:
                P.nocrash(["gf_compose_mod", rf, rg, rh], "gf_compose_mod", d)
                self.skip("edge:modulus_of_degree<1")
        for n in ns:
            d = "mod %s; g=%s, n=%d" % (f, g, n)
            if df >= 1:
                P.value(["gf_pow_mod", rf, rg, n], "gf_pow_mod", d, G.pow_mod(g, n, f, p))
            elif not f and n >= 1:
                P.throws(["gf_pow_mod", rf, rg, n], "gf_pow_mod", d)
            elif f and n >= 1:
                P.value(["gf_pow_mod", rf, rg, n], "gf_pow_mod", d, [])
            else:
                P.nocrash(["gf_pow_mod", rf, rg, n], "gf_pow_mod", d)
                self.skip("edge:modulus_of_degree<1")
        d = "%s ** p mod %s" % (g, f)
        if df >= 1:
            P.value(["gf_frobenius_map", rg, rf], "gf_frobenius_map", d, G.pow_mod(g, p, f, p))
        elif f:
            P.value(["gf_frobenius_map", rg, rf], "gf_frobenius_map", d, [])
        else:
            P.throws(["gf_frobenius_map", rg, rf], "gf_frobenius_map", d)
        if trace and df >= 1:
            a = G.rem(g, f, p)
            b = G.frob_x(f, p)
            c = G.rem(G.X, f, p)
            ra, rb, rc = P.poly(a), P.poly(b), P.poly(c)
            for n in [x for x in ns if 1 <= x <= 6][:4]:
                exp, hit = trace_map_ref(a, b, c, n, f, p)
                s, t = [], a
                for _ in range(n + 1):
                    s = G.add(s, t, p)
                    t = G.pow_mod(t, p, f, p)
                if exp != [G.pow_mod(a, p ** n, f, p), s]:
                    raise RuntimeError("trace map reference inconsistent")
                P.value(["gf_trace_map", rf, ra, rb, rc, n], "gf_trace_map", "mod %s; a=%s, b=x^p, c=x, n=%d" % (f, a, n),
                        exp, self.kn(T01, "trace_map_compose") if hit else None)
                # _gf_trace_map(a, n) = a + a**p + ... + a**(p**(n-1)) mod f; n = 1 is the identity
                P.value(["gf_trace_map_frob", rf, ra, n], "_gf_trace_map", "mod %s; a=%s, n=%d" % (f, a, n),
                        G.sub(s, G.pow_mod(a, p ** n, f, p), p), self.kn(T02, "_gf_trace_map") if n >= 2 else None)

    def judge_mod(self, case):
        p = case["p"]
        f, g = case["f"], case["g"]
        P = Prog(self, p, 3)
        rf, rg = P.poly(f), P.poly(g)
        self.mod_ops(P, rf, rg, f, g, case["hs"], case["ns"])
        P.run()

    # -- random polynomials
    def judge_rand(self, case):
        p = case["p"]
        a, b, c = (G.norm(case[k], p) for k in "abc")
        P = Prog(self, p, case["rs"])
        ra, rb, rc = P.poly(case["a"]), P.poly(case["b"]), P.poly(case["c"])
        self.pair_ops(P, ra, rb, a, b, (P.let(["gfb_from_vec", "x", vec(case["a"]), p]),
                                        P.let(["gfb_from_vec", "x", vec(case["b"]), p])))
        self.pair_ops(P, rb, rc, b, c)
        self.unary_ops(P, ra, a, case["a"], case["pts"], case["ints"] + [0, p], sorted({0, 1, 2, 3, min(case["n"], 48 // max(len(a) - 1, 1))}))
        self.mod_ops(P, rc, ra, c, a, [(b, rb), (a, ra)], case["ns"] + [0, 1, 2, 3])
        self.mod_ops(P, ra, rb, a, b, [(c, rc)], case["ns"][:1], trace=False)
        # factorisation of an arbitrary polynomial: sympy as reference, validated independently
        for f, rf in ((a, ra), (c, rc)):
            if f:
                lc, fac = G.sy_factor(f, p)
                bad = G.check_factor_list([list(t) for t in fac], p)
                if bad or G.scal(G.prod([G.pw(list(t), m, p) for t, m in fac.items()], p), lc, p) != f:
                    raise RuntimeError("sympy reference factorisation rejected: %s %s" % (f, fac))
            else:
                lc, fac = 0, {}
            self.factor_ops(P, rf, f, lc, fac)
        # operands over different fields: anything but a crash is accepted
        q = 3 if p != 3 else 5
        P.nocrash(["gf_add", ra, P.poly(case["b"], q)], "mixed_modulus", "p=%d,q=%d" % (p, q))
        P.run()

    # -- minimal reproducers of single recorded findings (replays/known/C23-*.json); never excluded
    def judge_probe(self, case):
        p = case["p"]
        P = Prog(self, p, 1)
        z = P.poly([])
        if case["what"] == "zero_plus_int":
            for c in (1, 3, -1, p + 2):
                cp = c % p
                P.value(["gf_add_int", z, c], "add_int", "[], %d" % c, [cp] if cp else [])
                P.value(["gf_sub_int", z, c], "sub_int", "[], %d" % c, [(-c) % p] if cp else [])
        elif case["what"] == "get_coeff_zero":
            P.value(["gf_get_coeff", z, 0], "get_coeff", "[], 0", 0, obs=False)
            P.value(["gfb_get_coeff", ["gfb_from_vec", "x", vec([]), p], 0], "gfb_get_coeff", "[], 0", 0, obs=False)
        else:
            raise RuntimeError("unknown probe")
        P.run()

    # -- constructed factorisations
    def judge_fac(self, case):
        p = case["p"]
        fac = {}
        for part in case["parts"]:
            q = tuple(G.next_irreducible(p, part["low"]))
            fac[q] = fac.get(q, 0) + part["m"]
        # keep the total degree bounded when two parts collapse onto the same irreducible
        while sum((len(t) - 1) * m for t, m in fac.items()) > 16:
            t = max(fac, key=lambda t: (len(t) - 1) * fac[t])
            if fac[t] > 1:
                fac[t] -= 1
            else:
                del fac[t]
        lc = case["lc"] % p or 1
        f = G.scal(G.prod([G.pw(list(t), m, p) for t, m in fac.items()], p), lc, p)
        if self.rng.random() < 0.05:
            slc, sfac = G.sy_factor(f, p)
            if (slc, sfac) != (lc, fac):
                raise RuntimeError("construction and sympy disagree: %s vs %s" % (fac, sfac))
        P = Prog(self, p, case["rs"])
        rf = P.poly(f)
        self.factor_ops(P, rf, f, lc, fac)
        P.run()


if __name__ == "__main__":
    sys.exit(engine.main(C23))
