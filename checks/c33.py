"""C33 The prime sieve yields exactly the primes after any call history.

A case is a history: a list of steps (generate_primes, iterator creation / next_prime bursts /
destruction, clear, set_clear, set_sieve_size).  The whole history is ONE driver program (the
driver resets the sieve at program start), so shrinking and replay need no hidden state.
Limits are symbolic (relative to the modelled end of the cache, to segment ends, to squares of
primes) and are resolved against a small Python model of the cache before the program is sent;
the oracle itself is a plain Python sieve and does not use the model."""
import bisect
import math
import os
import sys

sys.path.insert(0, os.path.join(os.path.dirname(os.path.abspath(__file__)), ".."))
from hypothesis import strategies as st
from pbt import engine, ntref
from pbt.engine import Check, Violation, R, is_exc

MAXLIM = 2100000
REFMAX = 2 * MAXLIM + 100
DIGEST_ABOVE = 60000
MULT = 0x9E3779B97F4A7C15
M64 = 2 ** 64 - 1


class Ref:
    """reference primes with prefix digests"""

    def __init__(self):
        import numpy as np
        self.primes = ntref.primes_upto(REFMAX)
        p = np.array(self.primes, dtype=np.uint64)
        self.csum = np.cumsum(p)
        with np.errstate(over="ignore"):
            h = p * np.uint64(MULT)
        self.cxor = np.bitwise_xor.accumulate(h)

    def count(self, limit):
        return bisect.bisect_right(self.primes, limit)

    def upto(self, limit):
        return self.primes[:self.count(limit)]

    def digest(self, limit):
        k = self.count(limit)
        if k == 0:
            return [0, 0, 0, 0, 0, True]
        return [k, int(self.csum[k - 1]), int(self.cxor[k - 1]), 2, self.primes[k - 1], True]

    def prev(self, limit):
        """largest prime <= limit (limit >= 2)"""
        return self.primes[self.count(limit) - 1]


_REF = None


def ref():
    global _REF
    if _REF is None:
        _REF = Ref()
    return _REF


# ------------------------------------------------------------------ model of the library's cache (for generation only)
class Model:
    def __init__(self, kf):
        self.back = 29          # largest cached prime
        self.seg = 32 * 1024 * 8
        self.clear = True
        self.kf = kf            # the segment-overflow defect is present: never cross a whole segment
        self.ext = 0            # real extensions
        self.edge = 0           # extensions ending within 2 of a segment end
        self.multi = 0          # extensions spanning more than one segment
        self.recursive = 0      # extensions that first had to extend to sqrt(limit)

    def try_extend(self, limit, commit=True):
        """Sieve::_extend(limit).  Returns False (state unchanged) when the defect would be hit."""
        back = self.back
        rec = 0
        start = back + 1
        if limit <= start:
            return True
        sq = math.isqrt(limit)
        if sq >= start:
            if self.kf and sq >= start + 2 * self.seg + 1:
                return False
            back = max(back, ref().prev(sq))
            start = back + 1
            rec = 1
        if limit > start:
            span_end = start + 2 * self.seg
            if limit >= span_end + 1:
                if self.kf:
                    return False
                if commit:
                    self.multi += 1
            if commit and abs(limit - span_end) <= 2:
                self.edge += 1
            back = max(back, ref().prev(limit))
        if commit:
            if back > self.back:
                self.ext += 1
            self.recursive += rec
            self.back = back
        return True

    def eff_start(self, limit):
        """first unsieved number when _extend(limit) enters its segment loop (after the recursive sqrt extension)"""
        start = self.back + 1
        if limit > start:
            sq = math.isqrt(limit)
            if sq >= start:
                return max(self.back, ref().prev(sq)) + 1
        return start

    def safe_limit(self, limit):
        """largest limit <= the requested one that does not cross a whole segment"""
        if not self.kf:
            return limit
        for _ in range(8):
            cap = self.eff_start(limit) + 2 * self.seg
            if limit <= cap:
                break
            limit = cap
        return limit

    def do_clear(self):
        self.back = 29


def resolve_limit(d, m):
    """limit descriptor -> concrete limit in [0, MAXLIM]"""
    k = d["k"]
    if k == "abs":
        v = d["v"]
    elif k == "seg":
        # the end of the mult-th segment of the extension this very call performs (+- d)
        v = m.back + 1 + 2 * m.seg * d.get("mult", 1) + d["d"]
        for _ in range(3):
            v = m.eff_start(min(MAXLIM, max(v, 0))) + 2 * m.seg * d.get("mult", 1) + d["d"]
    elif k == "sq":
        p = ref().primes[d["i"]]
        v = p * p + d["d"]
    elif k == "back":
        v = m.back + d["d"]
    elif k == "dbl":
        v = 2 * m.back + d["d"]
    else:
        raise ValueError(k)
    return max(0, min(MAXLIM, v))


# ------------------------------------------------------------------ strategies
lim_desc = st.one_of(
    st.integers(0, 40).map(lambda v: {"k": "abs", "v": v}),
    st.integers(0, 40).map(lambda v: {"k": "abs", "v": v}),
    st.integers(41, 3000).map(lambda v: {"k": "abs", "v": v}),
    st.integers(3000, 70000).map(lambda v: {"k": "abs", "v": v}),
    st.integers(70000, 2000000).map(lambda v: {"k": "abs", "v": v}),
    st.builds(lambda d, mult: {"k": "seg", "d": d, "mult": mult}, st.integers(-3, 3), st.sampled_from([1, 1, 1, 2, 3])),
    st.builds(lambda d, mult: {"k": "seg", "d": d, "mult": mult}, st.integers(-3, 3), st.sampled_from([1, 1, 2])),
    st.builds(lambda i, d: {"k": "sq", "i": i, "d": d}, st.integers(0, 220), st.integers(-2, 2)),
    st.builds(lambda i, d: {"k": "sq", "i": i, "d": d}, st.integers(0, 30), st.integers(-1, 1)),
    st.integers(-3, 40).map(lambda d: {"k": "back", "d": d}),
    st.integers(-2, 2).map(lambda d: {"k": "dbl", "d": d}),
)
step = st.one_of(
    st.builds(lambda l: {"op": "gen", "lim": l}, lim_desc),
    st.builds(lambda l: {"op": "gen", "lim": l}, lim_desc),
    st.builds(lambda l: {"op": "gen", "lim": l}, lim_desc),
    st.builds(lambda l: {"op": "new", "lim": l}, st.one_of(st.none(), lim_desc, lim_desc)),
    st.builds(lambda l: {"op": "new", "lim": l}, st.one_of(st.none(), lim_desc, lim_desc)),
    st.builds(lambda i, n: {"op": "next", "it": i, "n": n}, st.integers(0, 7), st.one_of(st.integers(1, 12), st.integers(1, 400), st.integers(400, 4000))),
    st.builds(lambda i, n: {"op": "next", "it": i, "n": n}, st.integers(0, 7), st.one_of(st.integers(1, 12), st.integers(1, 400), st.integers(400, 4000))),
    st.builds(lambda i, n: {"op": "next", "it": i, "n": n}, st.integers(0, 7), st.one_of(st.integers(1, 12), st.integers(1, 400), st.integers(400, 4000))),
    st.builds(lambda i: {"op": "del", "it": i}, st.integers(0, 7)),
    st.just({"op": "clear"}),
    st.booleans().map(lambda b: {"op": "setclear", "v": b}),
    st.sampled_from([1, 1, 2, 32]).map(lambda k: {"op": "size", "k": k}),
)


def fixed_histories():
    """deterministic histories around the pressure points of DESIGN Appendix D"""
    A = lambda v: {"k": "abs", "v": v}
    out = []
    for v in (0, 1, 2, 3, 28, 29, 30, 31, 36, 37, 40, 841, 842, 961, 962, 1369):
        out.append([{"op": "gen", "lim": A(v)}])
        out.append([{"op": "setclear", "v": False}, {"op": "gen", "lim": A(v)}, {"op": "gen", "lim": A(v + 7)}, {"op": "gen", "lim": A(v)}])
        out.append([{"op": "new", "lim": A(v)}, {"op": "next", "it": 0, "n": 60}])
    for size in (1, 2, 32):
        for d in range(-3, 4):
            out.append([{"op": "size", "k": size}, {"op": "gen", "lim": {"k": "seg", "d": d, "mult": 1}}])
            out.append([{"op": "size", "k": size}, {"op": "setclear", "v": False}, {"op": "gen", "lim": A(500)},
                        {"op": "gen", "lim": {"k": "seg", "d": d, "mult": 1}}, {"op": "gen", "lim": {"k": "seg", "d": -d, "mult": 1}},
                        {"op": "gen", "lim": {"k": "seg", "d": d, "mult": 2}}])
            out.append([{"op": "size", "k": size}, {"op": "new", "lim": {"k": "seg", "d": d, "mult": 1}}, {"op": "next", "it": 0, "n": 3000},
                        {"op": "next", "it": 0, "n": 3000}])
    # a live iterator survives a clear() triggered by another call
    out.append([{"op": "new", "lim": None}, {"op": "next", "it": 0, "n": 300}, {"op": "gen", "lim": A(100)}, {"op": "next", "it": 0, "n": 300}])
    out.append([{"op": "new", "lim": A(5000)}, {"op": "next", "it": 0, "n": 100}, {"op": "clear"}, {"op": "next", "it": 0, "n": 1000}])
    out.append([{"op": "setclear", "v": False}, {"op": "new", "lim": None}, {"op": "new", "lim": A(3000)}, {"op": "next", "it": 0, "n": 200},
                {"op": "next", "it": 1, "n": 50}, {"op": "del", "it": 0}, {"op": "clear"}, {"op": "next", "it": 0, "n": 500},
                {"op": "setclear", "v": True}, {"op": "gen", "lim": A(10)}, {"op": "new", "lim": None}, {"op": "next", "it": 1, "n": 700}])
    for i in (0, 1, 2, 3, 5, 9, 10, 11, 30, 100, 220):
        for d in (-1, 0, 1):
            out.append([{"op": "gen", "lim": {"k": "sq", "i": i, "d": d}}])
            out.append([{"op": "setclear", "v": False}, {"op": "gen", "lim": {"k": "sq", "i": max(i - 1, 0), "d": 0}},
                        {"op": "gen", "lim": {"k": "sq", "i": i, "d": d}}])
    for v in (100000, 524317, 524318, 524319, 1000000, 2000000):
        out.append([{"op": "gen", "lim": A(v)}])
        out.append([{"op": "setclear", "v": False}, {"op": "gen", "lim": A(v // 3)}, {"op": "gen", "lim": A(v)}])
    return [{"steps": h} for h in out]


class C33(Check):
    pid = "C33"
    exe = "driver_nt"
    builds = [("main", ("driver_nt",))]
    timeout = 120.0
    case_timeout = 180
    rule = ("case = history of <=25 steps (generate_primes(limit), iterator new bounded/unbounded, next_prime bursts, iterator "
            "destruction, clear, set_clear, set_sieve_size 1/2/32 KB) run as one driver program; limits 0..40, up to 2e6, "
            "cache end + 2*segment*{1,2,3} +-3, squares of primes +-2, cache end +-, 2*cache end. Every generate_primes must "
            "return exactly the primes <= limit increasing (lists above 60000 compared through count/sum/hash/last digest); "
            "every iterator must yield the primes in order without gap or repeat and then a value > its limit. Non-trivial: "
            ">=2 cache extensions with one ending within 2 of a segment end or spanning several segments or needing the "
            "recursive sqrt extension, or an iterator advanced after the cache was cleared below its position; distinct by "
            "resolved program.")
    assumptions = ["reference = plain Python sieve of Eratosthenes up to 4.2e6",
                   "after an iterator returned a value > its limit it is not used again (that is how every in-tree caller uses it)",
                   "a small Python model of the cache (end of cache, segment size, clear flag) only chooses limits; it is not part of the oracle"]
    tiers = {"quick": {"examples": 1500}, "thorough": {"examples": 50000}}
    min_nontrivial = 20

    TAG = "sieve_segment_overflow"   # KF-C33-01: heap overflow in Sieve::_extend when an extension spans a whole segment

    def enumerate(self, tier):
        return fixed_histories()

    def strategy(self, tier):
        first = st.one_of(st.builds(lambda l: {"op": "gen", "lim": l}, lim_desc),
                          st.builds(lambda l, n: [{"op": "new", "lim": l}, {"op": "next", "it": 0, "n": n}],
                                    st.one_of(st.none(), lim_desc), st.integers(1, 400)),
                          st.sampled_from([1, 2, 32]).map(lambda k: {"op": "size", "k": k}),
                          st.just({"op": "setclear", "v": False}))

        def flat(f, rest):
            return {"steps": (f if isinstance(f, list) else [f]) + rest}
        return st.builds(flat, first, st.lists(step, min_size=1, max_size=24))

    # ---------------------------------------------------------------- plan: resolve the history into a program
    def plan(self, steps, full=False):
        m = Model(self.tag_active(self.TAG))
        stmts = []
        checks = []        # (stmt index, kind, payload)
        its = []           # live iterators: dict(reg, limit, idx, done)
        used_after_clear = 0
        for s in steps:
            op = s["op"]
            if op == "gen":
                want = resolve_limit(s["lim"], m)
                lim = m.safe_limit(want)
                if lim != want:
                    self.skip("known:sieve_segment_overflow")
                if not m.try_extend(lim):
                    self.skip("known:sieve_segment_overflow")
                    continue
                digest = lim > DIGEST_ABOVE and not full
                checks.append((len(stmts), "digest" if digest else "gen", lim))
                stmts.append(["sieve_generate_digest" if digest else "sieve_generate", lim])
                if m.clear:
                    m.do_clear()
            elif op == "new":
                if len(its) >= 8:
                    continue
                lim = None if s["lim"] is None else resolve_limit(s["lim"], m)
                its.append({"reg": len(stmts), "limit": lim, "idx": 0, "done": False})
                stmts.append(["sieve_iter_new", -1 if lim is None else lim])
            elif op == "next":
                live = [it for it in its if not it["done"]]
                if not live:
                    continue
                it = live[s["it"] % len(live)]
                # simulate call by call: stop before a call that would hit the known defect, and after the value
                # that ends the iterator's contract (> limit)
                n = 0
                prm = ref().primes
                blocked = False
                ends = False
                while n < s["n"]:
                    size = ref().count(m.back)
                    if it["idx"] >= size:
                        if it["idx"] > size:
                            used_after_clear += 1
                        ext = 2 * prm[it["idx"] - 1]
                        if it["limit"] is not None and 0 < it["limit"] < ext:
                            ext = it["limit"]
                        if ext > REFMAX - 10:
                            blocked = True
                            break
                        if not m.try_extend(ext):
                            blocked = True
                            break
                        size = ref().count(m.back)
                        if it["idx"] >= size:
                            n += 1
                            ends = True
                            break
                    v = prm[it["idx"]]
                    it["idx"] += 1
                    n += 1
                    if it["limit"] is not None and v > it["limit"]:
                        ends = True
                        break
                if blocked:
                    self.skip("known:sieve_segment_overflow" if m.kf else "resource:beyond_reference")
                if n == 0:
                    continue
                checks.append((len(stmts), "next", it))
                stmts.append(["sieve_iter_next", R(it["reg"]), n, -1 if it["limit"] is None else it["limit"]])
                if ends:
                    it["done"] = True   # mirrors the judge: the contract of this iterator is over
            elif op == "del":
                if not its:
                    continue
                it = its.pop(s["it"] % len(its))
                stmts.append(["sieve_iter_del", R(it["reg"])])
                if m.clear:
                    m.do_clear()
            elif op == "clear":
                stmts.append(["sieve_clear"])
                m.do_clear()
            elif op == "setclear":
                stmts.append(["sieve_set_clear", bool(s["v"])])
                m.clear = bool(s["v"])
            elif op == "size":
                stmts.append(["sieve_set_size", s["k"]])
                m.seg = s["k"] * 1024 * 8
        return stmts, checks, m, used_after_clear

    # ---------------------------------------------------------------- judge
    def judge(self, case):
        stmts, checks, m, uac = self.plan(case["steps"])
        if not checks:
            self.skip("empty_history")
            return
        try:
            res = self.run(stmts)
        except engine.DriverCrash as e:
            if self.tag_active(self.TAG) and "Sieve::_extend" in e.stderr and "heap-buffer-overflow" in e.stderr:
                # the generator's cache model mispredicted; the crash is the known defect, not a new one
                self.skip("known:sieve_segment_overflow_crash")
                return
            raise
        self.judge_results(case, stmts, checks, res)
        self.count()
        self.cls("steps_%02d" % min(len(stmts), 25))
        if (m.ext >= 2 and (m.edge or m.multi or m.recursive)) or uac:
            self.nontriv(stmts)
        self.cls("multi_segment_extension", m.multi)
        self.cls("edge_extension", m.edge)
        self.cls("iterator_after_clear", uac)
        self.sample({"program": engine.prog(stmts)[:600], "extensions": m.ext, "edge": m.edge, "multi": m.multi})

    def judge_results(self, case, stmts, checks, res):
        rf = ref()
        pos = {}   # iterator reg -> number of primes consumed
        for idx, kind, payload in checks:
            r = res[idx]
            if is_exc(r):
                if r["exc"] == "VerifAssertFailure":
                    self.skip("assert_seen")
                    return
                raise Violation("step %d %s raised %s: %s" % (idx, engine.sx(stmts[idx]), r["exc"], r.get("what")),
                                {"program": engine.prog(stmts)})
            if kind == "gen":
                exp = rf.upto(payload)
                if r != exp:
                    raise Violation("step %d generate_primes(%d): %s" % (idx, payload, list_diff(r, exp)),
                                    {"program": engine.prog(stmts), "step": idx})
            elif kind == "digest":
                exp = rf.digest(payload)
                if r != exp:
                    detail = self.explain_digest(case, idx, payload)
                    raise Violation("step %d generate_primes(%d): digest [count,sum,hash,first,last,increasing] = %s, expected %s%s"
                                    % (idx, payload, r, exp, detail), {"program": engine.prog(stmts), "step": idx})
            else:
                it = payload
                k = pos.get(it["reg"], 0)
                lim = it["limit"]
                for j, v in enumerate(r):
                    p = rf.primes[k]
                    if lim is not None and v > lim:
                        if p <= lim:
                            raise Violation("step %d iterator(limit=%d) returned %d (> limit) but the prime %d <= limit was never yielded"
                                            % (idx, lim, v, p), {"program": engine.prog(stmts), "step": idx, "values": r[max(0, j - 5):j + 1]})
                        if j != len(r) - 1:
                            raise Violation("driver contract: burst continued after the end value", {"program": engine.prog(stmts)})
                        break
                    if v != p:
                        raise Violation("step %d iterator(limit=%s) yielded %d where the next prime is %d (position %d)"
                                        % (idx, lim, v, p, k), {"program": engine.prog(stmts), "step": idx, "values": r[max(0, j - 5):j + 3]})
                    k += 1
                pos[it["reg"]] = k

    def explain_digest(self, case, idx, limit):
        try:
            stmts, checks, _, _ = self.plan(case["steps"], full=True)
            res = self.run(stmts)
            r = res[idx]
            if isinstance(r, list):
                return "; " + list_diff(r, ref().upto(limit))
        except Exception:
            pass
        return ""


def list_diff(got, exp):
    if not isinstance(got, list):
        return "returned %r" % (got,)
    sg, se = set(got), set(exp)
    extra = sorted(sg - se)
    miss = sorted(se - sg)
    rep = len(got) - len(sg)
    order = got != sorted(got)
    parts = ["%d values returned, %d expected" % (len(got), len(exp))]
    if extra:
        parts.append("not prime / above limit: %s" % extra[:6])
    if miss:
        parts.append("missing primes: %s" % miss[:6])
    if rep:
        parts.append("%d repeated values" % rep)
    if order:
        parts.append("not increasing")
    return ", ".join(parts)


if __name__ == "__main__":
    sys.exit(engine.main(C33))
