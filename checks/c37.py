"""C37 Common-subexpression elimination is a faithful factoring."""
import json
import os
import sys

sys.path.insert(0, os.path.join(os.path.dirname(os.path.abspath(__file__)), ".."))
from hypothesis import strategies as st
from pbt import engine, gen
from pbt.engine import Violation, R, B, is_exc
from pbt import oracle_num as on
from pbt.oracle_num import Unjudgeable
from pbt.valuecheck import ValueCheck

SYMS = ["x", "y", "z", "x0", "x1", "x2"]
FUNCS = {"add": lambda *a: sum(a) * 0.5 + 1, "mul": lambda *a: a[0] * 0.25 - 2, "pow": lambda *a: a[0] + a[-1] * 0.5, "f": lambda *a: a[0] * a[0] / 3 + 1}


def syms_in_dump(d, acc=None):
    acc = set() if acc is None else acc
    if isinstance(d, list):
        if d[:1] == ["Symbol"] and len(d) == 2:
            acc.add(d[1])
        else:
            for x in d:
                syms_in_dump(x, acc)
    return acc


class C37(ValueCheck):
    pid = "C37"
    timeout = 60.0
    float_rel_floor = 1e-9
    rule = ("lists of 1-6 expressions assembled from 2-4 generated shared parts: sums and products over subsets of a common "
            "argument list (drives match_common_args), powers with related exponents, negated terms, functions of shared "
            "parts; symbols include x0, x1, x2 (the names cse itself would choose) and user functions named add / mul / pow / f. "
            "Judged: reduced_exprs has the input length; every replacement symbol is a Symbol, distinct from the others and "
            "not free in the inputs; replacement i mentions only input symbols and replacement symbols j < i; substituting "
            "the replacements back last-to-first with the library's xreplace gives expressions eq to the inputs; and, "
            "independently of subs, the value of each reduced expression with the replacements threaded through the "
            "environment equals the value of the input at 2 generic complex points. Non-trivial: cse produced >= 1 "
            "replacement; distinct by the input list.")
    assumptions = ["mpmath is the reference for the value half", "a library exception from cse declines the case"]
    tiers = {"quick": {"examples": 2500}, "thorough": {"examples": 200000}}

    def strategy(self, tier):
        num = gen.weighted([(5, st.integers(-5, 5).map(lambda n: ["integer", n])), (2, st.builds(gen._rat, st.integers(-7, 7), st.integers(2, 4)))])  # exact numbers: eq of float trees (0.0 terms, NaN) is not meaningful
        s = gen.sym(SYMS)
        leaves = gen.weighted([(2, num), (6, s)])
        part = gen.tree(leaves, unary=("neg", "sin", "cos", "exp"), binary=("add", "mul", "sub", "pow"), max_leaves=4,
                        special=lambda ch: st.one_of(st.builds(lambda n, a, b: ["function_symbol", n, ["list", a, b]], st.sampled_from(["add", "mul", "pow", "f"]), ch, ch),
                                                     st.builds(lambda a, e: ["pow", a, e], ch, st.one_of(st.integers(-3, 4).map(lambda n: ["integer", n]), st.builds(gen._rat, st.integers(-3, 3), st.integers(2, 3))))))

        def outputs(parts):
            idx = st.integers(0, len(parts) - 1)
            pick = idx.map(lambda i: parts[i])
            sub = st.lists(idx, min_size=2, max_size=len(parts) + 1).map(lambda ix: [parts[i] for i in ix])
            out = st.one_of(sub.map(lambda xs: ["add_vec", ["list"] + xs]), sub.map(lambda xs: ["mul_vec", ["list"] + xs]),
                            st.builds(lambda a, f: [f, a], pick, st.sampled_from(["sin", "cos", "exp", "neg", "sqrt"])),
                            st.builds(lambda a, n: ["pow", a, ["integer", n]], pick, st.integers(-3, 4)),
                            st.builds(lambda a, b: ["add", ["mul", a, b], ["neg", a]], pick, pick),
                            st.builds(lambda a, b, c: ["function_symbol", "f", ["list", ["add", a, b], ["mul", a, c]]], pick, pick, pick), pick)
            return st.lists(out, min_size=1, max_size=6)
        return st.lists(part, min_size=2, max_size=4).flatmap(
            lambda ps: st.fixed_dictionaries({"exprs": outputs(ps), "envs": gen.envs(names=SYMS, n=2)}))

    def judge(self, case):
        exprs, envs = case["exprs"], case["envs"]
        n = len(exprs)
        if any(on.resource_blocked(e, envs[0], 100, FUNCS) for e in exprs):
            self.skip("ref:overflow")
            return
        base = [["let", e] for e in exprs]
        base.append(["cse", ["list"] + [R(i) for i in range(n)]])
        base += [["id", R(i)] for i in range(n)]
        res = self.run(base)
        r = res[n]
        if any(is_exc(x) for x in res[:n]) or is_exc(r):
            bad = [x for x in res[:n + 1] if is_exc(x)][0]
            self.skip("assert_seen" if bad["exc"] == "VerifAssertFailure" else "declined:" + bad["exc"])
            return
        repl, red = r[0], r[1]
        inputs = [B(x) for x in res[n + 1:]]
        desc = "cse(%s)" % ", ".join(engine.sx(e)[:90] for e in exprs)
        self.count()
        if len(red) != n:
            raise Violation("%s: reduced_exprs has %d entries for %d inputs" % (desc, len(red), n), {"exprs": exprs})
        in_syms = set()
        for d in inputs:
            syms_in_dump(d, in_syms)
        seen = []
        for k, (sym, ex) in enumerate(repl):
            sd, ed = B(sym), B(ex)
            if sd[0] != "Symbol":
                raise Violation("%s: replacement %d is bound to %s, not a Symbol" % (desc, k, sd), {"exprs": exprs})
            if sd[1] in in_syms:
                raise Violation("%s: replacement symbol %s is free in the inputs" % (desc, sd[1]), {"exprs": exprs, "repl": [B(a) for a, _ in repl]})
            if sd[1] in seen:
                raise Violation("%s: replacement symbol %s is used twice" % (desc, sd[1]), {"exprs": exprs})
            extra = syms_in_dump(ed) - in_syms - set(seen)
            if extra:
                raise Violation("%s: replacement %d (%s) mentions %s, which is neither an input symbol nor an earlier replacement"
                                % (desc, k, sd[1], sorted(extra)), {"exprs": exprs, "expr": ed})
            seen.append(sd[1])
        # (1) back-substitution with the library's own xreplace, last to first
        m = len(repl)
        st2 = list(base[:n + 1])
        chk = []
        for i in range(n):
            cur = ["nth", ["nth", R(n), 1], i]
            for k in reversed(range(m)):
                pair = ["nth", ["nth", R(n), 0], k]
                cur = ["xreplace", cur, ["list", ["list", ["nth", pair, 0], ["nth", pair, 1]]]]
            st2.append(["let", cur])
            st2.append(["eq", R(len(st2) - 1), R(i)])
            # an input that held a non-distributed -1*(sum) comes back flattened: equal after expansion is accepted
            st2.append(["eq", ["expand", R(len(st2) - 2)], ["expand", R(i)]])
            chk.append(len(st2) - 2)
        res2 = self.run(st2)
        for i, j in enumerate(chk):
            if res2[j] is False and res2[j + 1] is True:
                self.cls("eq_only_after_expand")
            if res2[j] is False and res2[j + 1] is not True:
                raise Violation("%s: substituting the replacements back (last to first) into reduced expression %d = %s does not give "
                                "an expression eq to the input" % (desc, i, B(red[i])), {"exprs": exprs, "reduced": B(red[i]), "input": inputs[i], "repl": [[B(a), B(b)] for a, b in repl]})
        # value half: thread the replacements through the environment
        for env in envs:
            e2 = on.env_mp(env)
            try:
                for sym, ex in repl:
                    e2[B(sym)[1]] = on.stable_value(B(ex), e2, funcs=FUNCS, cut_guard=True, mag=100)
            except Unjudgeable as u:
                self.skip("repl:" + u.reason.split(":")[0])
                continue
            for i in range(n):
                refs, blocked = self.references(exprs[i], [env], funcs=FUNCS)
                if blocked:
                    continue
                try:
                    self.compare(exprs[i], B(red[i]), [e2], refs, funcs=FUNCS, what="reduced[%d] with replacements" % i, kappa_envs=[env])
                except Violation as v:
                    raise Violation("%s: %s" % (desc, v.msg), v.detail)
        self.cls("replacements:%d" % min(m, 5))
        if m >= 1:
            self.nontriv(exprs)
        self.sample({"exprs": [engine.sx(e)[:120] for e in exprs], "replacements": m})


def m_user_function_named_like_marker(case, v):
    """KF-C37-01: cse uses FunctionSymbols named add / mul / pow as internal markers for optimised sums, products and
    powers; a user function with one of these names is rebuilt as Add / Mul / Pow"""
    txt = json.dumps(case["exprs"])
    return any('["function_symbol", "%s"' % n in txt for n in ("add", "mul", "pow"))


def _nested_add(d):
    if isinstance(d, list):
        if d[:1] == ["Add"] and len(d) == 3 and any(isinstance(t, list) and t[:1] == ["Add"] for t, _ in d[2]):
            return True
        return any(_nested_add(x) for x in d)
    return False


def m_input_has_nested_add(case, v):
    """KF-C37-02 (root cause KF-C16-03): trigonometric constructors' handle_minus returns a sum nested as a term of
    another sum; cse rebuilds such an input flattened, so the back-substituted expression is not eq to the input"""
    return "substituting the replacements back" in v.msg and _nested_add(v.detail.get("input"))


def m_power_of_replaced_power(case, v):
    """KF-C37-03: b**n is rewritten as (b**m)**(n/m) through a replacement x_k = b**m; substituting back gives the
    unfolded power (b**m)**(n/m), which is not eq to b**n (and differs from it off the positive real axis)"""
    if "substituting the replacements back" not in v.msg:
        return False
    repl = v.detail.get("repl", [])
    names = {a[1] for a, b in repl if b[:1] == ["Pow"]}
    # also replacements defined as a power of such a symbol
    more = True
    while more:
        more = False
        for a, b in repl:
            if a[1] not in names and b[:1] == ["Pow"] and b[1][:1] == ["Symbol"] and b[1][1] in names:
                names.add(a[1])
                more = True
    return bool(names) and bool(names & syms_in_dump(v.detail.get("reduced")) or any(names & syms_in_dump(b) for a, b in repl))


C37.matchers = {"user_function_named_like_marker": m_user_function_named_like_marker,
                "power_of_replaced_power": m_power_of_replaced_power,
                "input_has_nested_add": m_input_has_nested_add}


if __name__ == "__main__":
    sys.exit(engine.main(C37))
