"""C20 Deserializing untrusted bytes is memory-safe (engine fz: libFuzzer target drv/fz_loads.cpp, build variant `fuzz` =
ASan + UBSan incl. vptr/enum, release semantics without SYMENGINE_ASSERT)."""
import os
import sys

sys.path.insert(0, os.path.join(os.path.dirname(os.path.abspath(__file__)), ".."))
from pbt import fuzz

SPEC = {
    "pid": "C20",
    "target": "fz_loads",
    "corpus": "corpus/C20",
    "raw_dump_env": "VERIF_FZ_DUMP",
    "rule": ("coverage-guided byte strings given to Basic::loads: mode A raw bytes (libFuzzer mutations of the committed corpus = "
             "dumps of 320 generated expressions covering all 88 serialisable classes, plus workers starting from an empty corpus); "
             "mode B structure-aware: bytes -> op-program building an object with shared nodes from a table of constructors of every "
             "serialisable class -> dumps -> up to 4 generated edits (type code flipped / swapped, sharing reference redirected, "
             "first_seen byte broken, count changed, integer string corrupted, truncation, duplicated chunk, byte flip) -> loads. "
             "In-target oracle: loads returns or throws a std::exception; a returned object is printed, hashed, compared with itself "
             "(eq, __cmp__), free_symbols, dumps -> loads, evalf, diff by each free symbol, subs (exceptions allowed): any crash, "
             "sanitizer report or abort is the violation. Non-trivial, measured by the target: loads returned an object; distinct by "
             "hash of the bytes given to loads."),
    "assumptions": ["allocation requests above 256 KiB throw std::bad_alloc in the target (replaced operator new) as they would without "
                    "ASan; GMP requests above 256 MiB, timeouts and out-of-memory are resource noise, counted, never reported",
                    "a returned non-canonical object is not by itself a violation",
                    "libFuzzer campaigns are only approximately reproducible; the saved artifact is the reproducible unit"],
    "tiers": {"quick": {"workers": 8, "runs": 9000, "empty_workers": 1, "empty_runs": 9000, "max_len": 512},
              "thorough": {"workers": 16, "runs": 250000, "empty_workers": 2, "empty_runs": 250000, "max_len": 1024}},
}

if __name__ == "__main__":
    sys.exit(fuzz.main(SPEC))
