"""C39 Structural queries are accurate."""
import json
import os
import sys
from fractions import Fraction

sys.path.insert(0, os.path.join(os.path.dirname(os.path.abspath(__file__)), ".."))
from hypothesis import strategies as st
from pbt import engine, gen, pools
from pbt.engine import Check, Violation, R, B, is_exc

SYMS = ["x", "y", "z", "t"]
BINDERS = ("ConditionSet", "ImageSet")


def walk(d):
    if isinstance(d, list):
        if d and isinstance(d[0], str):
            yield d
        for x in d[1:] if d and isinstance(d[0], str) else d:
            yield from walk(x)


def free_syms(d):
    """symbols occurring in the dump outside bound positions: the variables of a Subs node are bound inside its
    expression (the points are free)"""
    out = set()
    if not isinstance(d, list) or not d:
        return out
    t = d[0]
    if t in ("Symbol", "Dummy") and isinstance(t, str) and len(d) >= 2 and isinstance(d[1], str):
        out.add(json.dumps(d))
        return out
    if t == "Subs":
        bound = {json.dumps(k) for k, _ in d[2]}
        inner = free_syms(d[1]) - bound
        out |= inner
        for _, v in d[2]:
            out |= free_syms(v)
        return out
    if isinstance(t, str):
        for x in d[1:]:
            out |= free_syms(x)
    else:
        for x in d:
            out |= free_syms(x)
    return out


def has_binder(d):
    return any(n[0] in BINDERS for n in walk(d))


def subdumps(d, pred):
    return {json.dumps(n) for n in walk(d) if pred(n)}


class C39(Check):
    pid = "C39"
    timeout = 60.0
    rule = ("expressions from the broad pool grammar (numbers, symbols, arithmetic, every function class, undefined functions, "
            "Derivative and Subs objects, relationals, logic, Piecewise, finite/interval/union sets) plus polynomials in a "
            "chosen variable with symbolic coefficients. Judged against an independent walk over the raw dump: "
            "free_symbols(e) == symbols occurring outside Subs-bound positions; has_symbol(e, s) <=> s in free_symbols(e) for "
            "every pool symbol (binder-free expressions); function_symbols(e), atoms<Symbol>, atoms<FunctionSymbol>, "
            "== exactly the matching sub-dumps; for polynomials p in x of degree <= 6: "
            "sum_n coeff(p, x, n) * x**n expands to expand(p) (checked with eq by the library and by exact comparison of "
            "the reference coefficient list). Non-trivial: expression containing a Subs/Derivative or >= 3 distinct "
            "symbols at depth >= 3; distinct by recipe.")
    assumptions = ["the raw dump (public accessors) is the ground truth of the tree", "ConditionSet/ImageSet binder variables are judged in neither direction"]
    tiers = {"quick": {"examples": 2000}, "thorough": {"examples": 200000}}

    def strategy(self, tier):
        e = pools.expr(max_leaves=8, special=False).filter(lambda r: not pools.blocked(r))
        fx = ["function_symbol", "f", ["list", ["symbol", "x"]]]
        gxy = ["function_symbol", "g", ["list", ["symbol", "x"], ["symbol", "y"]]]
        dsub = st.sampled_from([["diff", fx, ["symbol", "x"]], ["diff", gxy, ["symbol", "y"]],
                                ["subs", ["diff", fx, ["symbol", "x"]], ["list", ["list", ["symbol", "x"], ["symbol", "t"]]]],
                                ["subs", ["diff", gxy, ["symbol", "x"]], ["list", ["list", ["symbol", "x"], ["add", ["symbol", "z"], ["integer", 1]]]]],
                                ["subs", ["diff", ["function_symbol", "f", ["list", ["mul", ["symbol", "x"], ["symbol", "y"]]]], ["symbol", "x"]],
                                 ["list", ["list", ["symbol", "y"], ["symbol", "x"]]]],
                                ["diff", ["diff", gxy, ["symbol", "x"]], ["symbol", "y"]]])
        mixed = st.builds(lambda a, b, o: [o, a, b], dsub, e, st.sampled_from(["add", "mul"]))
        general = st.fixed_dictionaries({"kind": st.just("general"), "e": st.one_of(e, e, dsub, mixed)})
        coef = st.one_of(st.integers(-5, 5).map(lambda n: ["integer", n]), st.builds(gen._rat, st.integers(-7, 7), st.integers(2, 4)),
                         gen.sym(["y", "z"]), st.builds(lambda a, b: ["add", a, b], gen.sym(["y", "z"]), st.integers(-3, 3).map(lambda n: ["integer", n])),
                         st.builds(lambda a: ["sin", a], gen.sym(["y", "z"])))
        polyc = st.fixed_dictionaries({"kind": st.just("poly"), "coefs": st.lists(coef, min_size=1, max_size=7),
                                       "shape": st.integers(0, 2)})
        return st.one_of(general, general, general, polyc)

    def judge(self, case):
        if case["kind"] == "poly":
            return self.judge_poly(case)
        rec = case["e"]
        syms = [["symbol", s] for s in SYMS]
        stmts = [rec, ["free_symbols", R(0)], ["function_symbols", R(0)]]
        for k in ("Symbol", "FunctionSymbol", "Pow", "Add", "Mul"):
            stmts.append(["atoms", R(0), k])
        for s in syms:
            stmts.append(["has_symbol", R(0), s])
        res = self.run(stmts)
        if is_exc(res[0]):
            self.skip("assert_seen" if res[0]["exc"] == "VerifAssertFailure" else "declined:" + res[0]["exc"])
            return
        d = B(res[0])
        desc = engine.sx(rec)[:300]
        self.count()
        binder = has_binder(d)
        want = free_syms(d)

        def dumpset(r):
            return {json.dumps(B(x)) for x in r}
        if not is_exc(res[1]) and not binder:
            got = dumpset(res[1])
            if got != want:
                raise Violation("%s: free_symbols = %s but the tree's free symbols are %s (dump %s)"
                                % (desc, sorted(got), sorted(want), d), {"recipe": rec, "dump": d})
            self.cls("free_symbols")
        if not is_exc(res[2]):
            got = dumpset(res[2])
            exp = subdumps(d, lambda n: n[0] == "FunctionSymbol")
            if got != exp:
                raise Violation("%s: function_symbols = %s, expected %s" % (desc, sorted(got), sorted(exp)), {"recipe": rec, "dump": d})
            self.cls("function_symbols")
        kinds = {"Symbol": lambda n: n[0] in ("Symbol", "Dummy") and len(n) >= 2 and isinstance(n[1], str), "FunctionSymbol": lambda n: n[0] == "FunctionSymbol",
                 "Pow": lambda n: n[0] == "Pow", "Add": lambda n: n[0] == "Add", "Mul": lambda n: n[0] == "Mul"}
        for i, k in enumerate(("Symbol", "FunctionSymbol", "Pow", "Add", "Mul")):
            r = res[3 + i]
            if is_exc(r) or k in ("Pow", "Add", "Mul"):
                continue  # atoms<Pow/Add/Mul> work on the materialised get_args() view (Mul{y:-1} yields Pow(y,-1)); not comparable with the raw dump
            got = dumpset(r)
            exp = subdumps(d, kinds[k])
            if k == "Symbol" and any(n[0] in ("Subs", "Derivative") or n[0] in BINDERS for n in walk(d)):
                continue  # atoms<Symbol> of bound positions: convention not documented, not judged
            if self.normalise(got) != self.normalise(exp):
                raise Violation("%s: atoms<%s> = %s, the tree holds %s" % (desc, k, sorted(got)[:6], sorted(exp)[:6]),
                                {"recipe": rec, "dump": d, "kind": k})
            self.cls("atoms:" + k)
        if not binder:
            for j, s in enumerate(SYMS):
                r = res[8 + j]
                if is_exc(r):
                    continue
                inside = json.dumps(["Symbol", s]) in want
                if r is not inside:
                    raise Violation("%s: has_symbol(%s) = %s but %s free_symbols" % (desc, s, r, "it is in" if inside else "it is not in"),
                                    {"recipe": rec, "dump": d})
            self.cls("has_symbol")
        if any(n[0] in ("Subs", "Derivative") for n in walk(d)) or len(want) >= 3:
            self.nontriv(rec)
        self.sample({"e": desc, "free": sorted(want)})

    @staticmethod
    def normalise(s):
        """dict-order-insensitive comparison of sets of dumps"""
        from c04 import canon
        return {json.dumps(canon(json.loads(x)), sort_keys=True) for x in s}

    def judge_poly(self, case):
        x = ["symbol", "x"]
        coefs = case["coefs"]
        terms = []
        for n, c in enumerate(coefs):
            if case["shape"] == 1 and n % 2:
                terms.append(["mul", ["pow", x, ["integer", n]], c])
            else:
                terms.append(["mul", c, ["pow", x, ["integer", n]]])
        p = ["add_vec", ["list"] + terms]
        if case["shape"] == 2 and len(coefs) >= 2:
            p = ["add", ["mul", ["add", x, ["integer", 1]], ["add", x, coefs[0]]], p]
        deg = len(coefs) + 2
        stmts = [["let", p], ["let", x], ["expand", R(0)]]
        for n in range(deg + 1):
            stmts.append(["coeff", R(0), R(1), ["integer", n]])
        recon = ["add_vec", ["list"] + [["mul", R(3 + n), ["pow", R(1), ["integer", n]]] for n in range(deg + 1)]]
        stmts.append(["expand", recon])
        stmts.append(["eq", R(2), R(len(stmts) - 1)])
        if case["shape"] != 2:
            for n, c in enumerate(coefs):
                stmts.append(["eq", R(3 + n), ["expand", c]])
        res = self.run(stmts)
        self.count()
        self.cls("coeff")
        if any(is_exc(r) and r["exc"] not in ("Dep",) for r in res[:3]):
            self.skip("declined:poly")
            return
        if case["shape"] == 2:
            self.skip("coeff_unexpanded_input")  # coeff does not expand products: reconstruction is only demanded of sums of monomials
            return
        k = 3 + deg + 2
        if res[k - 1] is False:
            raise Violation("coeff: sum_n coeff(p, x, n)*x**n does not expand to expand(p) for p = %s: %s vs %s"
                            % (engine.sx(p)[:300], res[2], res[k - 2]), {"p": p})
        for n, c in enumerate(coefs):
            r = res[k + n]
            if r is False:
                raise Violation("coeff(p, x, %d) = %s, expected %s for p = %s" % (n, res[3 + n], engine.sx(c), engine.sx(p)[:300]), {"p": p})
        if len(coefs) >= 3:
            self.nontriv(p)
        self.sample({"p": engine.sx(p)[:200]})


def m_has_symbol_sees_bound(case, v):
    """KF-C39-01: has_symbol(e, x) is true for a variable x that only occurs bound by a Subs node, while
    free_symbols(e) (correctly) leaves it out"""
    return "has_symbol(" in v.msg and "but it is not in free_symbols" in v.msg and "Subs" in json.dumps(v.detail.get("dump", ""))


C39.matchers = {"has_symbol_sees_bound": m_has_symbol_sees_bound}


if __name__ == "__main__":
    sys.exit(engine.main(C39))
