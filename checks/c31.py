"""C31 Series expansion coefficients equal Taylor coefficients."""
import os
import sys
from fractions import Fraction

sys.path.insert(0, os.path.join(os.path.dirname(os.path.abspath(__file__)), ".."))
import mpmath
from mpmath import mp, mpf, mpc
from hypothesis import strategies as st
from pbt import engine
from pbt.engine import Check, Violation, R, B, is_exc
from pbt import oracle_num as on
from pbt.oracle_num import Unjudgeable
from pbt import seriesref as sr
from pbt import seriesgen as sg

SLACK = 8
NONPOLY = set(sr.UNARY) - {"neg"}


def lit(d):
    """dump of an exact rational literal -> Fraction, else None"""
    if d[0] == "Integer":
        return Fraction(int(d[1]))
    if d[0] == "Rational":
        return Fraction(int(d[1]), int(d[2]))
    return None


def n_nonpoly(r):
    """number of non-polynomial function applications (incl. non-integer / non-literal powers, sqrt)"""
    if not isinstance(r, list) or not r:
        return 0
    h = r[0]
    c = sum(n_nonpoly(x) for x in r[1:] if isinstance(x, list))
    if h in NONPOLY or h in ("sqrt", "cbrt"):
        c += 1
    elif h == "pow":
        q = sr._as_frac(r[2])
        if q is None or q.denominator != 1:
            c += 1
    return c


def has_quotient(r):
    if not isinstance(r, list) or not r:
        return False
    if r[0] == "div" and sg_has_x(r[2]):
        return True
    if r[0] == "pow":
        q = sr._as_frac(r[2])
        if q is not None and q < 0 and sg_has_x(r[1]):
            return True
    return any(has_quotient(x) for x in r[1:] if isinstance(x, list))


def sg_has_x(r):
    if not isinstance(r, list) or not r:
        return False
    if r[0] == "symbol":
        return r[1] == "x"
    return any(sg_has_x(x) for x in r[1:] if isinstance(x, list))


def heads(r, acc):
    if isinstance(r, list) and r and isinstance(r[0], str):
        if r[0] not in ("list", "integer", "rational", "symbol", "constant"):
            acc.add(r[0])
        for x in r[1:]:
            heads(x, acc)
    return acc


def ref_numeric(rec, n, env, dps):
    with mp.workdps(dps):
        s = sr.series_of(rec, n + SLACK, False, env)
        return [+c for c in s]


def taylor_numeric(rec, n, env, dps):
    """secondary oracle: mpmath.taylor of the recipe's evaluation closure (numerical differentiation)"""
    envv = {k: [str(v), "0"] for k, v in env.items()}

    def f(t):
        e = dict(on.env_mp(envv))
        e["x"] = t
        return on.Evaluator(e).value(rec)
    with mp.workdps(dps):
        return [+c for c in mp.taylor(f, 0, n - 1, singular=True)]


INF = 10 ** 6


def lib_valid_terms(d, n, env):
    """Number of low-order coefficients that survive the library's way of evaluating the canonical
    expression d (raw dump): SeriesVisitor truncates every intermediate series to n terms, so
    inverting / dividing by a series of valuation k > 0 (series_invert shifts by x**-k after the
    truncation) costs terms.  A lower bound, mirroring series_visitor.h node by node (Mul factors in
    dictionary order); used only while the known finding 'series_quotient_precision' is active."""
    def val(dd):
        with mp.workdps(30):
            s = sr.series_of(sr.dump_to_recipe(dd), n + SLACK, False, env)
        v = sr.valuation(s)
        return 0 if v is None else v

    def invert(v, a, monomial=False):
        # series_invert: shift by x**-v (exact), Newton to n terms, shift back; only c*x**k is inverted exactly
        if monomial and a >= INF:
            return -v, INF
        return -v, min(n, a - v) - v

    def mul(va, vb):
        # Series::mul truncates at n whatever the operands
        (v1, a1), (v2, a2) = va, vb
        return v1 + v2, min(n, a1 + v2, a2 + v1)

    def ipow(va, e):
        v, a = va
        if a >= INF and v <= 0:
            return v * e, INF       # powers of x**-k and of constants stay exact
        return v * e, min(n, a + (e - 1) * v)

    def go(dd):
        t = dd[0]
        if t in ("Integer", "Rational", "Constant"):
            return 0, INF
        if t == "Symbol":
            return (1 if dd[1] == "x" else 0), INF
        if t == "Add":
            items = [go(dd[1])] + [go(term) for term, _ in dd[2]]
            return val(dd), min(a for _, a in items)
        if t == "Mul":
            acc = (0, INF)
            for base, ex in dd[2]:
                acc = mul(acc, go(["Pow", base, ex]) if ex != ["Integer", "1"] else go(base))
            return acc
        if t == "Pow":
            base, ex = dd[1], dd[2]
            if ex[0] == "Integer":
                e = int(ex[1])
                vb = go(base)
                if e > 0:
                    return ipow(vb, e)
                mono = base[0] == "Symbol"
                if e == -1:
                    return invert(vb[0], vb[1], mono)
                return ipow(invert(vb[0], vb[1], mono), -e)
            if ex[0] == "Rational":
                v, a = go(base)
                if v != 0:
                    return 0, 0
                return 0, min(n, a)
            if base == ["Constant", "E"]:
                return 0, min(n, go(ex)[1])
            return 0, min(n, go(base)[1], go(ex)[1])
        # functions
        v, a = go(dd[1])
        if t in ("Cot", "Csc"):
            return invert(v, min(n, a))
        if v < 0:
            return 0, 0
        return val(dd), min(n, a)
    try:
        return max(0, min(n, go(d)[1]))
    except (sr.NotAnalytic, sr.Unsupported, sr.NotExact, ZeroDivisionError):
        return 0


GENERIC_PATH = ("erf", "coth", "sech", "csch", "gamma")


def generic_function_with_irrational_constant(rec, env):
    """does the recipe apply a function that SeriesVisitor expands through bvisit(Function) (no dedicated
    series) to an argument whose constant term is not a rational number (KF-C31-03 needs an Add/Mul of
    constants there; 'not rational' is the cheap over-approximation)"""
    found = [False]

    def walk(r):
        if not isinstance(r, list) or not r:
            return
        if r[0] in GENERIC_PATH:
            if on_symbols(r[1]) - {"x"}:
                found[0] = True      # a symbolic parameter: the constant term is an Add/Mul for the library
            try:
                sr.series_of(r[1], 1, True, env)
            except sr.NotExact:
                found[0] = True
            except (sr.NotAnalytic, sr.Unsupported, ZeroDivisionError):
                pass
        for x in r[1:]:
            if isinstance(x, list):
                walk(x)
    walk(rec)
    return found[0]


def acos_with_constant(rec, env):
    """does the recipe apply acos to a series with non-zero constant term"""
    found = [False]

    def walk(r):
        if not isinstance(r, list) or not r:
            return
        if r[0] == "acos":
            with mp.workdps(30):
                s = sr.series_of(r[1], 2, False, env)
            if s and s[0] != 0:
                found[0] = True
        for x in r[1:]:
            if isinstance(x, list):
                walk(x)
    try:
        walk(rec)
    except (sr.NotAnalytic, sr.Unsupported, sr.NotExact):
        pass
    return found[0]


class C31(Check):
    pid = "C31"
    exe = "driver_solve"          # core ops only; the per-area binary is not relinked by other areas' builds
    builds = [("main", ("driver_solve",))]
    timeout = 6.0
    strict_crosscheck = False
    case_timeout = 40
    rule = ("f = composition (function nesting depth <= 3, <= 4 polynomial leaves) of sin cos tan exp log atan asin sinh "
            "cosh tanh asinh atanh lambertw (3/4 weight) and sec csc cot acos sech csch coth gamma erf, + - * /, integer, "
            "rational (p/q, q <= 4) and expression powers, over polynomials in x of degree <= 3 with small rational "
            "coefficients (zero or non-zero constant term; low weight: a symbolic parameter `a` or pi/E as a "
            "coefficient), made analytic at 0 by construction (an argument whose constant term is outside the "
            "function's domain of analyticity is shifted by a rational; removable singularities N/D are built from "
            "pieces of known valuation, val N >= val D <= 3); order n in 1..10. get_coeff(k), k < n, must equal the "
            "k-th Taylor coefficient of the recipe: exactly (Fractions) when my power-series model is rational, "
            "otherwise numerically (model in mpmath at 50 and 90 digits, library coefficient dumps evaluated by "
            "oracle_num at 45/90 digits, tolerance 1e-25 relative to the largest coefficient). The model itself is "
            "cross-checked per case against mpmath.taylor of the recipe's evaluation closure (n <= 6, no removable "
            "singularity) and against the value of the recipe at x = 1/256 (all n + 8 model terms); a case on "
            "which my two references disagree is counted and not judged. The order is capped (10 / 8 / 5 / 4 / 3) "
            "by the number of transcendental constants the recipe introduces, because the generic series keeps "
            "them symbolic and its run time explodes. as_dict must "
            "agree with get_coeff and must not contain non-zero negative powers; as_basic must evaluate like its "
            "as_dict. Non-trivial: >= 2 non-polynomial function applications or a quotient with a non-constant "
            "denominator; distinct by (recipe, n).")
    assumptions = ["the textbook power-series recurrences in pbt/seriesref.py (cross-checked against numerical "
                   "differentiation) are the reference", "principal branches; all constant terms are real",
                   "library exceptions (NotImplementedError ...) decline a case"]
    tiers = {"quick": {"examples": 640, "shrink_calls": 40}, "thorough": {"examples": 16000, "shrink_calls": 80}}

    def setup_worker(self, tier):
        # start the driver with a generous time-out: under load the first answer of a freshly started
        # sanitizer build can take seconds, and a timed-out reproducer would look like a repaired finding
        self.run([["integer", 1]], timeout=120)

    # ------------------------------------------------------------------ generation
    def enumerate(self, tier):
        x = ["symbol", "x"]
        one = ["integer", 1]
        fixed = [
            ["div", ["sub", ["exp", x], one], x],
            ["div", ["sin", x], x],
            ["acos", ["add", x, ["rational", 1, 2]]],
            ["acos", x],
            ["tan", ["add", x, ["mul", ["integer", 2], ["pow", x, ["integer", 2]]]]],
            ["atan", ["add", ["rational", 1, 2], x]],
            ["exp", ["add", one, x]],
            ["exp", ["sin", x]],
            ["log", ["cos", x]],
            ["div", x, ["tan", x]],
            ["div", x, ["sub", ["exp", x], one]],
            ["pow", ["add", one, x], x],
            ["lambertw", ["mul", x, ["exp", x]]],
            ["sqrt", ["add", ["integer", 4], ["sin", x]]],
            ["tanh", ["log", ["add", one, x]]],
            ["asin", ["tanh", x]],
        ]
        for e in fixed:
            for n in (1, 2, 3, 5, 6, 8, 10):
                yield {"e": e, "n": n, "env": {}}

    def strategy(self, tier):
        aval = st.builds(lambda n, d, s: Fraction(s * n, d), st.integers(1, 5), st.integers(1, 3), st.sampled_from([1, -1]))

        def mk(raw, n, a):
            rec, cap = sg.normalise(raw, a)
            env = {"a": str(a)} if "a" in on_symbols(rec) else {}
            return {"e": rec, "n": min(n, cap), "env": env}
        nn = st.one_of(st.integers(1, 10), st.integers(4, 10), st.sampled_from([5, 6, 7, 8, 9, 10]))
        return st.builds(mk, sg.raw_tree(max_leaves=4 if tier == "quick" else 5), nn, aval)

    # ------------------------------------------------------------------ judge
    def judge(self, case):
        rec, n = case["e"], case["n"]
        env = {k: Fraction(v) for k, v in case.get("env", {}).items()}
        envs = {k: [str(v), "0"] for k, v in env.items()}
        desc = "series(%s, x, %d)%s" % (engine.sx(rec), n, (" at %s" % case["env"]) if env else "")

        # ---- reference
        exact = None
        try:
            exact = sr.series_of(rec, n + SLACK, True, env)
        except sr.NotExact:
            pass
        except sr.NotAnalytic as e:
            self.skip("ref:not_analytic")
            return
        except sr.Unsupported:
            self.skip("ref:unsupported")
            return
        except ZeroDivisionError:
            self.skip("ref:not_analytic")
            return
        except (OverflowError, ValueError, ArithmeticError):
            self.skip("ref:error")
            return
        try:
            lo = ref_numeric(rec, n, env, 50)
            hi = ref_numeric(rec, n, env, 90)
        except (sr.NotAnalytic, ZeroDivisionError):
            self.skip("ref:not_analytic")
            return
        except sr.Unsupported:
            self.skip("ref:unsupported")
            return
        except (OverflowError, ValueError, ArithmeticError, mpmath.libmp.NoConvergence):
            self.skip("ref:error")
            return
        if len(hi) < n or len(lo) < n or (exact is not None and len(exact) < n):
            self.skip("ref:model_short")
            return
        hi_all = hi
        lo, hi = lo[:n], hi[:n]
        with mp.workdps(90):
            scale = max([mpf(1)] + [abs(c) for c in hi])
            if any(abs(a - b) > mpf(10) ** -35 * scale for a, b in zip(lo, hi)):
                self.skip("ref:ill_conditioned")
                return
            if scale > mpf(10) ** 60:
                self.skip("ref:overflow")
                return
            if exact is not None:
                exact = exact[:n]
                for k in range(n):
                    if abs(on.frac_to_mp(exact[k]) - hi[k]) > mpf(10) ** -40 * scale:
                        raise RuntimeError("seriesref: exact and numeric models disagree on %s at degree %d: %s vs %s"
                                           % (desc, k, exact[k], hi[k]))
        # secondary oracles, both independent of pbt/seriesref.py: (a) numerical differentiation of the
        # recipe's evaluation closure (low orders, no removable singularity: mpmath.taylor cannot step over
        # 0/0); (b) the value of the recipe at x0 = 1/256 against the model polynomial with all n+SLACK terms.
        # A disagreement means *my* reference is not trustworthy for this case: it is counted and not judged.
        quot = has_quotient(rec)
        if n <= 6 and not quot:
            try:
                t1 = taylor_numeric(rec, n, env, 40)
                t2 = taylor_numeric(rec, n, env, 70)
                with mp.workdps(70):
                    if all(abs(a - b) <= mpf(10) ** -20 * scale for a, b in zip(t1, t2)):
                        for k in range(n):
                            if abs(t2[k] - hi[k]) > mpf(10) ** -18 * scale:
                                if self.strict_crosscheck:
                                    raise RuntimeError("seriesref model and mpmath.taylor disagree on %s at degree %d: %s vs %s"
                                                       % (desc, k, hi[k], t2[k]))
                                self.skip("oracle_disagree:taylor")
                                self.samples.insert(0, {"oracle_disagree": "taylor", "series": desc})
                                return
                        self.cls("crosscheck:taylor")
                    else:
                        self.skip("taylor:unstable")
            except (Unjudgeable, ZeroDivisionError, ValueError, OverflowError, mpmath.libmp.NoConvergence):
                self.skip("taylor:unjudgeable")
        fv = None
        try:
            with mp.workdps(90):
                x0 = mpf(1) / 256
                e2 = dict(on.env_mp(envs))
                e2["x"] = x0
                fv = on.Evaluator(e2).value(rec)
                acc, big = mpf(0), mpf(0)
                for k, c in enumerate(hi_all):
                    t = c * x0 ** k
                    acc += t
                    big = max(big, abs(t))
                # tail bound from the growth rate of the last coefficients (1/radius estimate, doubled)
                N = len(hi_all)
                rho = max([mpf(1)] + [abs(hi_all[k]) ** (mpf(1) / k) for k in range(max(1, N - 4), N) if hi_all[k] != 0])
                r = (2 * rho + 1) * x0
                tail = r ** N / (1 - r) if r < 0.5 else mp.inf
                if tail <= mpf(10) ** -15 * big:
                    if abs(fv - acc) > mpf(10) ** -28 * big + tail:
                        if self.strict_crosscheck:
                            raise RuntimeError("seriesref model disagrees with the value of %s at x=1/256: %s vs %s"
                                               % (desc, mp.nstr(acc, 40), mp.nstr(fv, 40)))
                        self.skip("oracle_disagree:point")
                        self.samples.insert(0, {"oracle_disagree": "point", "series": desc})
                        return
                    self.cls("crosscheck:point")
        except (Unjudgeable, ZeroDivisionError, ValueError, OverflowError, mpmath.libmp.NoConvergence):
            self.skip("point:unjudgeable")

        # ---- known findings excluded by construction
        upto = n
        if self.tag_active("series_function_constant_recursion") and generic_function_with_irrational_constant(rec, env):
            self.skip("known:series_function_constant_recursion")
            return
        if self.tag_active("series_acos_constant_term") and acos_with_constant(rec, env):
            self.skip("known:series_acos_constant_term")
            return

        # ---- library
        prog = [["let", ["symbol", "x"]], rec, ["series", R(1), R(0), n]]
        try:
            res = self.run(prog)
        except engine.DriverTimeout:
            # Slowness is never a violation -- except that the unbounded recursion of KF-C31-03 needs more
            # than the normal time-out to exhaust the stack of a sanitizer build: inputs of exactly that
            # class (cheap by any cost model: a function of a constant) are re-run once with a 15x budget,
            # so that the crash, not the watchdog, decides.
            if not generic_function_with_irrational_constant(rec, env):
                raise
            res = self.run(prog, timeout=90)
        canon, res = B(res[1]), res[2]
        if is_exc(res):
            self.skip("assert_seen" if res["exc"] == "VerifAssertFailure" else "declined:" + res["exc"])
            return
        # The property is about series() of the expression the library holds.  If *constructing* the
        # expression already changed its value (C07/C08's property, e.g. a function constructor that
        # mis-simplifies its argument), series() is not to blame: such cases are counted and not judged.
        if fv is not None:
            try:
                with mp.workdps(90):
                    e2 = dict(on.env_mp(envs))
                    e2["x"] = mpf(1) / 256
                    cv = on.Evaluator(e2).value(canon)
                    if abs(cv - fv) > mpf(10) ** -25 * max(1, abs(fv)):
                        self.skip("construction_changed_value")
                        return
            except Unjudgeable:
                pass
        if self.tag_active("series_quotient_precision") and quot:
            upto = lib_valid_terms(canon, n, env)
            if upto < n:
                self.skip("known:series_quotient_precision")
        as_basic, as_dict, coeffs = B(res[0]), res[1], [B(c) for c in res[2]]
        self.count()
        if len(coeffs) != n:
            raise Violation("%s: %d get_coeff results" % (desc, len(coeffs)), {"case": case})

        def numeric(d):
            return on.stable_value(d, envs, lo=45, hi=90, agree=30)

        # coefficients
        mode = "exact" if exact is not None else "numeric"
        for k in range(upto):
            q = lit(coeffs[k])
            if exact is not None and q is not None:
                if q != exact[k]:
                    raise Violation("%s: coefficient of x**%d is %s, Taylor coefficient is %s" % (desc, k, q, exact[k]),
                                    {"case": case, "degree": k, "got": str(q), "expected": str(exact[k])})
                continue
            try:
                v = numeric(coeffs[k])
            except Unjudgeable as u:
                self.skip("coeff:" + u.reason.split(":")[0])
                mode = "partial"
                continue
            with mp.workdps(90):
                if abs(v - hi[k]) > mpf(10) ** -25 * scale:
                    raise Violation("%s: coefficient of x**%d evaluates to %s, Taylor coefficient is %s; dump %s"
                                    % (desc, k, mp.nstr(v, 30), mp.nstr(hi[k], 30), coeffs[k]),
                                    {"case": case, "degree": k, "got": mp.nstr(v, 40), "expected": mp.nstr(hi[k], 40)})
        # as_dict vs get_coeff, negative powers
        seen = {}
        for deg, c in as_dict:
            seen[deg] = B(c)
        for k in range(n):
            if k in seen:
                if seen[k] != coeffs[k]:
                    raise Violation("%s: as_dict[%d] = %s but get_coeff(%d) = %s" % (desc, k, seen[k], k, coeffs[k]),
                                    {"case": case})
            elif coeffs[k] != ["Integer", "0"]:
                raise Violation("%s: get_coeff(%d) = %s but as_dict has no entry" % (desc, k, coeffs[k]), {"case": case})
        for deg, d in seen.items():
            if deg < 0 and upto == n:
                try:
                    v = numeric(d)
                except Unjudgeable:
                    continue
                if abs(v) > mpf(10) ** -25 * scale:
                    raise Violation("%s: analytic input but as_dict has the term %s * x**%d" % (desc, d, deg), {"case": case})
        # as_basic evaluates like as_dict (a representation check, at x = 1/7)
        try:
            xv = Fraction(1, 7)
            e2 = dict(envs)
            e2["x"] = [str(xv), "0"]
            vb = on.stable_value(as_basic, e2, lo=45, hi=90, agree=30)
            with mp.workdps(90):
                acc = mpf(0)
                big = mpf(1)
                for deg, d in seen.items():
                    t = numeric(d) * on.frac_to_mp(xv) ** deg
                    acc += t
                    big = max(big, abs(t))
                if abs(vb - acc) > mpf(10) ** -25 * big:
                    raise Violation("%s: as_basic evaluates to %s at x=1/7 but its as_dict sums to %s"
                                    % (desc, mp.nstr(vb, 30), mp.nstr(acc, 30)), {"case": case})
        except Unjudgeable:
            self.skip("as_basic:unjudgeable")

        # ---- bookkeeping
        self.cls(mode)
        hs = heads(rec, set())
        for hname in hs & (NONPOLY | {"div", "pow", "sqrt"}):
            self.cls("f:" + hname)
        if env:
            self.cls("parametric")
        if quot:
            self.cls("quotient")
        if n_nonpoly(rec) >= 2 or quot:
            self.nontriv((rec, n))
            self.cls("nontrivial")
        self.sample({"series": desc, "coeffs": [str(lit(c)) if lit(c) is not None else c for c in coeffs[:4]]})


def on_symbols(r, acc=None):
    acc = set() if acc is None else acc
    if isinstance(r, list) and r:
        if r[0] == "symbol":
            acc.add(r[1])
        else:
            for x in r[1:]:
                on_symbols(x, acc)
    return acc


if __name__ == "__main__":
    sys.exit(engine.main(C31))
