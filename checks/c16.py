"""C16 Printing is a function of the value, and parse(str(e)) == e."""
import os
import sys

sys.path.insert(0, os.path.join(os.path.dirname(os.path.abspath(__file__)), ".."))
from hypothesis import strategies as st
from pbt import engine, pools, textref as tr
from pbt.engine import Check, Violation, R, B, is_exc

I = lambda n: ["integer", n]
Q = lambda a, b: ["rational", a, b]
S = lambda n: ["symbol", n]
L = lambda *xs: ["list"] + list(xs)

# known library defects found by this check (fixes/text2_findings.json); excluded by construction while their tag is active
T_NEGINF = "neginf_pow_base"        # str(pow(-oo, x)) == "-oo**x": Precedence treats -oo as an atom
T_RECIP = "pow_of_reciprocal"       # (24/a)**(2/3) holds (a**-1)**(2/3), which pow() itself rewrites to a**(-2/3)
T_NESTED = "nested_add_unit_coef"    # sin(-y - (1 + x)) == -sin(y + (1 + x)): an Add term that is an Add with coefficient 1
KNOWN = [(T_NEGINF, tr.has_neginf_base), (T_RECIP, tr.has_pow_of_reciprocal), (T_NESTED, tr.has_nested_add_unit)]


def fixed_recipes():
    """deterministic table: every parenthesisation situation of StrPrinter, every function of the fragment,
    every symbol name, number kinds"""
    x, y, z = S("x"), S("y"), S("z")
    Ic = ["constant", "I"]
    out = []
    nums = [I(0), I(1), I(-1), I(2), I(-2), I(10 ** 30), I(-(2 ** 64)), Q(1, 2), Q(-1, 2), Q(-7, 3), Q(10 ** 20, 3),
            Ic, ["neg", Ic], ["complex", I(0), I(2)], ["complex", I(0), I(-2)], ["complex", I(1), I(1)],
            ["complex", I(-1), I(-1)], ["complex", I(1), I(-2)], ["complex", Q(1, 2), Q(-3, 4)], ["complex", I(0), Q(1, 2)],
            ["complex", I(0), Q(-1, 2)], ["real_double", 0.5], ["real_double", -0.5], ["real_double", 2.0],
            ["real_double", 1e-10], ["real_double", 1e20], ["real_double", 123456789012345.0], ["real_double", 0.1],
            ["real_double", -0.0], ["real_double", 0.0], ["complex_double", 1.0, 2.0], ["complex_double", -1.0, -2.0],
            ["complex_double", 0.0, 1.5], ["complex_double", 1e-10, -1e10],
            ["constant", "pi"], ["constant", "E"], ["constant", "EulerGamma"], ["constant", "Catalan"],
            ["constant", "GoldenRatio"], ["oo"], ["noo"], ["zoo"], ["nan"]]
    out += nums
    for n in nums:
        out += [["mul", n, x], ["add", n, x], ["pow", n, x], ["pow", x, n], ["add", ["mul", n, x], y], ["pow", ["add", x, y], n],
                ["mul", n, ["add", x, y]], ["pow", ["mul", x, y], n], ["div", x, n], ["mul", n, ["pow", x, y]],
                ["pow", ["pow", x, n], y], ["pow", x, ["pow", y, n]], ["mul", ["pow", x, n], ["pow", y, n]],
                ["sub", y, ["mul", n, x]], ["Lt", x, n], ["Eq", ["mul", n, x], y]]
    for n in tr.SYMBOL_NAMES:
        out += [S(n), ["add", S(n), I(1)], ["mul", I(2), S(n)], ["pow", S(n), I(-2)], ["sin", S(n)]]
    args = [x, ["mul", I(2), x], ["add", x, I(1)], ["neg", x], Q(1, 3), ["div", x, y], ["pow", x, I(2)], ["real_double", 0.5]]
    for f in tr.P_FUN1:
        out += [[f, a] for a in args]
        out += [["pow", [f, x], I(2)], ["mul", I(-1), [f, x]], ["pow", I(2), [f, x]]]
    for f in tr.P_FUN2:
        out += [[f, a, b] for a in args[:4] for b in args[:4]]
    for f in tr.P_NARY:
        out += [[f, L(x, y)], [f, L(x, y, z)], [f, L(x, I(2), Q(1, 2))], [f, L(["add", x, y], ["mul", I(2), z])]]
    for f in tr.P_FSYM:
        out += [["function_symbol", f, L(x)], ["function_symbol", f, L(x, y)], ["function_symbol", f, L(["add", x, I(1)], I(2), y)]]
    rels = [[o, a, b] for o in ("Eq", "Ne", "Lt", "Le", "Gt", "Ge") for a, b in ((x, y), (x, I(0)), (["add", x, y], ["mul", I(2), z]),
                                                                                 (I(1), x), (["pow", x, I(2)], Q(1, 2)))]
    out += rels
    b1, b2, b3 = ["Lt", x, y], ["Ge", y, z], ["Ne", x, I(0)]
    for o in ("and", "or", "xor", "nand", "nor", "xnor"):
        out += [[o, L(b1, b2)], [o, L(b1, b2, b3)], [o, L(b1, ["not", b2])], [o, L(b1, ["and", L(b2, b3)])], [o, L(b1, ["or", L(b2, b3)])],
                [o, L(b1, ["xor", L(b2, b3)])]]
    out += [["not", b1], ["not", ["and", L(b1, b2)]], ["not", ["xor", L(b1, b2)]], ["true"], ["false"], ["not", ["Eq", x, y]]]
    out += [["piecewise", L(L(x, b1), L(y, ["true"]))], ["piecewise", L(L(x, b1), L(y, b2), L(z, ["true"]))],
            ["piecewise", L(L(["add", x, I(1)], ["and", L(b1, b2)]), L(["pow", y, I(2)], ["true"]))],
            ["piecewise", L(L(x, b1), L(y, b2))], ["mul", I(2), ["piecewise", L(L(x, b1), L(y, ["true"]))]],
            ["add", ["piecewise", L(L(x, b1), L(y, ["true"]))], I(1)], ["sin", ["piecewise", L(L(x, b1), L(y, ["true"]))]]]
    ar = [x, y, I(2), I(-1), I(-2), Q(1, 2), Q(-1, 2), Q(2, 3), ["sqrt", I(2)], Ic, ["constant", "pi"], ["real_double", 0.5],
          ["real_double", -1.5], ["add", x, y], ["mul", x, y], ["pow", x, I(2)], ["pow", x, y], ["neg", x], ["div", x, y],
          ["complex", I(1), I(2)], ["exp", x], ["sqrt", x], ["sin", x]]
    for a in ar:
        for b in ar:
            out += [["add", a, b], ["mul", a, b], ["pow", a, b], ["div", a, b], ["sub", a, b]]
    for a in ar[:8]:
        for b in ar[8:16]:
            for c in (x, I(-2), Q(1, 2)):
                out += [["pow", ["pow", a, b], c], ["pow", a, ["pow", b, c]], ["div", ["mul", a, b], c], ["div", a, ["mul", b, c]],
                        ["pow", ["mul", a, b], c], ["pow", ["add", a, b], c], ["mul", ["add", a, b], c]]
    return out


class C16(Check):
    pid = "C16"
    timeout = 60.0
    rule = ("expressions of the parseable fragment built through the API ops from a generated plan (pbt/textref.py): numbers "
            "(small/multi-limb integers, rationals, Gaussian rationals, finite doubles incl. subnormal/1e300/-0.0, complex "
            "doubles), symbols with tokenizer-legal names (underscores, digits, names starting with e/E/I/pi/oo, 40 chars, "
            "non-ASCII bytes; never a reserved identifier or table function name), constants, oo/-oo/zoo/nan, add/sub/mul/div/"
            "pow/neg/sqrt/cbrt/exp incl. nested powers and negative/rational/complex coefficients, bases and exponents, the "
            "functions whose printed name is in Parser::functionify's tables, function symbols, relationals, And/Or/Xor/"
            "Nand/Nor/Xnor/Not, Piecewise; plus a deterministic table over all pairs of a pool of operands. Oracle (1): the "
            "same recipe re-built along other paths (operands commuted, chains regrouped, sub/div/neg/sqrt/exp/n-ary/Gt/Ge "
            "rewritten through add/mul/pow/Lt/Le, and parse(str(e)) itself): eq(e, v) => str(e) == str(v). Oracle (2): "
            "float-free e: parse(str(e)) succeeds and eq(parse(str(e)), e); e with doubles: str(parse(str(e))) == str(e). "
            "Non-trivial: e whose dump shows >= 2 different situations that need parentheses (compound/negative/rational/"
            "complex pow base or exponent, quotient of products, Add factor or denominator, rational/complex/negative "
            "coefficient); distinct by str(e).")
    assumptions = ["functions printed under a name the parser does not know (kroneckerdelta, levicivita, truncate, conjugate, "
                   "digamma -> polygamma is fine) are outside the statement and not generated",
                   "results containing a non-finite double (inf/nan produced by double overflow) are skipped: they have no "
                   "15-digit decimal form; |double leaves| <= 1e300; results containing a zero double (0.0 / -0.0 as a "
                   "coefficient or leaf) are skipped: re-parsing may drop the zero or its sign, no non-zero digit changes",
                   "a non-ParseError exception while re-evaluating the parsed string is a skip",
                   "exact sub-results stay below ~10**400 by construction"]
    tiers = {"quick": {"examples": 2000}, "thorough": {"examples": 60000}}
    batch = 6

    def enumerate(self, tier):
        rs = fixed_recipes()
        for k in range(0, len(rs), 12):
            yield {"items": rs[k:k + 12]}

    def strategy(self, tier):
        return st.fixed_dictionaries({"items": st.lists(tr.c16_item(8), min_size=self.batch, max_size=self.batch)})

    def judge(self, case):
        stmts = []
        plan = []
        for r in case["items"]:
            k = len(stmts)
            stmts.append(["let", r])                      # k   e
            stmts.append(["obs", R(k)])                   # k+1 {d, s, h}
            stmts.append(["let", ["parse", ["str", R(k)]]])  # k+2 p
            stmts.append(["eq", R(k + 2), R(k)])          # k+3
            stmts.append(["str", R(k + 2)])               # k+4
            vs = []
            seen = [r]
            for name, fn in (("commute", pools.commute), ("regroup", pools.regroup), ("alt", tr.alt_paths),
                             ("alt_commute", lambda q: pools.commute(tr.alt_paths(q)))):
                v = fn(r)
                if v in seen:
                    continue
                seen.append(v)
                j = len(stmts)
                stmts.append(["let", v])
                stmts.append(["eq", R(j), R(k)])
                stmts.append(["str", R(j)])
                vs.append((name, v, j))
            plan.append((r, k, vs))
        res = self.run(stmts)
        for r, k, vs in plan:
            self.judge_item(r, res, k, vs)

    def judge_item(self, r, res, k, vs):
        e, obs = res[k], res[k + 1]
        if is_exc(e):
            self.skip("assert_seen" if e["exc"] == "VerifAssertFailure" else "build:" + e["exc"])
            return
        if is_exc(obs):
            self.skip("assert_seen" if obs["exc"] == "VerifAssertFailure" else "str:" + obs["exc"])
            return
        d, s = B(obs["d"]), obs["s"]
        heads = tr.dump_heads(d)
        out = heads - tr.FRAGMENT_HEADS
        if out:
            self.skip("outside_fragment:" + sorted(out)[0])
            return
        dbl = tr.dump_doubles(d)
        if any(h in ("inf", "-inf", "nan", "-nan") for h in dbl):
            self.skip("nonfinite_double")
            return
        if any(engine.hexf(h) == 0 for h in dbl):
            # a double zero (coefficient 0.0 of a sum, -0.0) is equal in value to "nothing"/0.0: re-parsing may drop it or
            # its sign without changing any printed digit of a non-zero float (float-zero handling belongs to C06)
            self.skip("zero_double")
            return
        for tag, pred in KNOWN:
            if self.tag_active(tag) and pred(d):
                self.skip("known:" + tag)
                return
        has_float = bool(dbl)
        self.count()
        for h in heads:
            self.cls(h)
        feats = tr.paren_features(d)
        for f in feats:
            self.cls("paren:" + f)
        if len({f.split(":")[0] + ":" + f.split(":")[-1] for f in feats}) >= 2:
            self.nontriv(s)
        self.sample({"recipe": engine.sx(r)[:300], "str": s})
        detail = {"recipe": r, "str": s, "dump": d}
        # (1) equal values built along different paths print identically
        for name, v, j in vs:
            ev, eqv, sv = res[j], res[j + 1], res[j + 2]
            if is_exc(ev) or is_exc(eqv) or is_exc(sv):
                self.skip("variant_throw")
                continue
            if eqv is True:
                self.cls("eq_variant:" + name)
                if sv != s:
                    raise Violation("equal expressions print differently: str(e) = %r, str(%s variant) = %r" % (s, name, sv),
                                    dict(detail, variant=v, variant_str=sv))
            else:
                self.cls("noneq_variant:" + name)
        # (2) parse(str(e)) == e
        p, eqp, sp = res[k + 2], res[k + 3], res[k + 4]
        if is_exc(p):
            if p["exc"] == "VerifAssertFailure":
                self.skip("assert_seen")
                return
            if p["exc"] == "ParseError":
                raise Violation("parse(str(e)) fails: str(e) = %r: %s" % (s, p.get("what")), detail)
            self.skip("reparse_throw:" + p["exc"])
            return
        if is_exc(sp) or is_exc(eqp):
            self.skip("reparse_obs_throw")
            return
        if has_float:
            self.cls("float_rule")
            if sp != s:
                raise Violation("str(parse(str(e))) = %r differs from str(e) = %r" % (sp, s), dict(detail, reparsed_str=sp))
        else:
            self.cls("exact_rule")
            if eqp is not True:
                raise Violation("parse(str(e)) != e: str(e) = %r, str(parse(str(e))) = %r" % (s, sp), dict(detail, reparsed_str=sp))
            if sp != s:
                raise Violation("equal expressions print differently: str(e) = %r, str(parse(str(e))) = %r" % (s, sp),
                                dict(detail, reparsed_str=sp))


if __name__ == "__main__":
    sys.exit(engine.main(C16))
