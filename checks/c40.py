"""C40 API workloads are memory-safe and leak-free (hy engine: generated programs, each in its own sanitized process)."""
import json
import os
import subprocess
import sys

sys.path.insert(0, os.path.join(os.path.dirname(os.path.abspath(__file__)), ".."))
from hypothesis import strategies as st
from pbt import engine, gen, pools
from pbt.engine import Check, Violation, R, is_exc
import c03

ENV_ASAN = "detect_leaks=1:abort_on_error=0:allocator_may_return_null=1:symbolize=1:malloc_context_size=8:exitcode=23"
ENV_UBSAN = "print_stacktrace=1:halt_on_error=1:symbolize=1"


class C40(Check):
    pid = "C40"
    timeout = 60.0
    rule = ("programs over the shared op table: 1-3 generated expressions of the broad grammar (construction of every number "
            "kind, arithmetic, all function constructors, relationals, logic, Piecewise, sets, undefined functions, "
            "Derivative/Subs) followed by 27 transformations each (expand, diff, subs, xreplace, printing, parse(str), "
            "dumps/loads, series, simplify, rewrites, conjugate, as_numer_denom, as_real_imag, free_symbols ...) and pairwise "
            "combinations of the results. Every program runs in its own process of the ASan + UBSan + LeakSanitizer driver: the "
            "process must exit normally with no AddressSanitizer / UndefinedBehaviorSanitizer report and LeakSanitizer must "
            "find no leak once all registers are dropped (every expression freed after its last reference). Library "
            "exceptions are normal outcomes. Non-trivial: a program with >= 20 successful instructions from >= 3 API areas; "
            "distinct by program.")
    assumptions = ["uninitialised reads are not observable with the installed runtimes (no MSan-instrumented libstdc++)",
                   "this is the assertion build (asserts throw); release-semantics fuzzing of the same op table is not part of this check"]
    tiers = {"quick": {"examples": 640}, "thorough": {"examples": 120000}}

    def strategy(self, tier):
        e = pools.expr(max_leaves=8, special=True).filter(lambda r: not pools.blocked(r))
        return st.fixed_dictionaries({"es": st.lists(e, min_size=1, max_size=3)})

    def judge(self, case):
        stmts = []
        roots = []
        for rec in case["es"]:
            k = len(stmts)
            stmts.append(rec)
            roots.append(k)
            for _, f in c03.C03.OPS:
                stmts.append(f(R(k)))
            stmts.append(["latex", R(k)])
            stmts.append(["mathml", R(k)])
            stmts.append(["ccode", R(k)])
            stmts.append(["hash", R(k)])
        for i in roots:
            for j in roots:
                stmts.append(["add", R(i), R(j)])
                stmts.append(["mul", R(i), R(j)])
                stmts.append(["eq", R(i), R(j)])
                stmts.append(["cmp", R(i), R(j)])
        text = engine.prog(stmts)
        exe = os.path.join(engine.BUILD, "main" + os.environ.get("VERIF_BUILD_TAG", ""), "drv", "driver")
        env = dict(os.environ, ASAN_OPTIONS=ENV_ASAN, UBSAN_OPTIONS=ENV_UBSAN, ASAN_SYMBOLIZER_PATH="/usr/bin/llvm-symbolizer-14")
        try:
            p = subprocess.run([exe], input=(text + "\n").encode("latin-1"), stdout=subprocess.PIPE, stderr=subprocess.PIPE, env=env, timeout=60)
        except subprocess.TimeoutExpired:
            self.skip("timeout")
            return
        self.count()
        err = p.stderr.decode("utf-8", "replace")
        ok = 0
        try:
            res = json.loads(p.stdout.decode("latin-1").splitlines()[0]) if p.stdout.strip() else []
            ok = sum(1 for r in res if not is_exc(r))
            for r in res:
                if is_exc(r):
                    self.skip("exc:" + r["exc"])
        except Exception:
            res = []
        if p.returncode != 0 or "Sanitizer" in err or "runtime error:" in err:
            sig = engine.crash_signature(err)
            kind = "memory leak" if "LeakSanitizer" in err else "sanitizer report / abnormal exit (rc=%s)" % p.returncode
            raise Violation("%s in a program of %d instructions starting with %s: %s"
                            % (kind, len(stmts), engine.sx(case["es"][0])[:200], sig), {"stderr": err[:1500] + "\n...\n" + err[-2500:], "program": text[:6000]})
        self.cls("programs")
        if ok >= 20:
            self.nontriv(case["es"])
        self.sample({"first": engine.sx(case["es"][0])[:160], "instructions": len(stmts), "succeeded": ok})


if __name__ == "__main__":
    sys.exit(engine.main(C40))
