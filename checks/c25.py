"""C25 Sparse CSR matrices stay canonical and agree with dense ones (histories of set/get + operations)."""
import os
import sys
from fractions import Fraction

sys.path.insert(0, os.path.join(os.path.dirname(os.path.abspath(__file__)), ".."))
from hypothesis import strategies as st
from pbt import engine
from pbt.engine import Check, Violation, R, is_exc
from pbt import linref as L
from pbt.linref import G, ZERO, ONE

FIELDS = ["z", "z", "q", "gi", "gq", "big"]
BIG = [2 ** 31, -2 ** 31 - 1, 2 ** 63, -2 ** 64 + 1, 2 ** 70 + 3]


def _txt(v):
    if isinstance(v, tuple):
        a, b = Fraction(v[0]), Fraction(v[1])
        return str(a) if b == 0 else "%s,%s" % (a, b)
    return str(Fraction(v))


zi = st.integers(-4, 4)
nzi = st.sampled_from([-4, -3, -2, -1, 1, 2, 3, 4])
qq = st.builds(Fraction, st.integers(-6, 6), st.integers(1, 4))
nzq = st.builds(Fraction, nzi, st.integers(1, 3))


def entry(field, nonzero=False):
    if nonzero:
        base = {"z": nzi, "q": nzq, "gi": st.one_of(nzi, st.tuples(zi, nzi)), "gq": st.one_of(nzq, st.tuples(qq, nzq)),
                "big": st.one_of(nzi, st.sampled_from(BIG))}[field]
    else:
        base = {"z": zi, "q": st.one_of(zi, qq), "gi": st.one_of(zi, st.tuples(zi, zi)),
                "gq": st.one_of(zi, qq, st.tuples(qq, qq)), "big": st.one_of(zi, zi, st.sampled_from(BIG))}[field]
    return base.map(_txt)


def coo(field, r, c, max_n, allow_zero=True):
    """coordinate triples, unsorted, duplicates likely"""
    item = st.tuples(st.integers(0, r - 1), st.integers(0, c - 1), entry(field, not allow_zero)).map(list)
    base = st.lists(item, min_size=0, max_size=max_n)
    # duplicate some coordinates on purpose
    return st.builds(lambda xs, dups, vals: xs + [[xs[d % len(xs)][0], xs[d % len(xs)][1], v] for d, v in zip(dups, vals)] if xs else xs,
                     base, st.lists(st.integers(0, 50), max_size=3), st.lists(entry(field, not allow_zero), min_size=3, max_size=3))


STEP_KINDS = ["ins", "ins", "ovw", "del", "del", "delmiss", "get", "getmiss", "raw", "reins", "reins"]


@st.composite
def fam_hist(draw):
    field = draw(st.sampled_from(FIELDS))
    r = draw(st.integers(1, 8))
    c = draw(st.integers(1, 8))
    k = draw(st.integers(1, 5))
    steps = draw(st.lists(st.tuples(st.sampled_from(STEP_KINDS), st.integers(0, 63), st.integers(0, 63), entry(field, True)).map(list),
                          min_size=1, max_size=14))
    return {"fam": "hist", "field": field, "r": r, "c": c, "k": k,
            "init": draw(st.sampled_from(["empty", "coo", "coo", "arrays", "arrays_move"])),
            "A": draw(coo(field, r, c, 14)), "steps": steps,
            "B": draw(coo(field, r, c, 12)), "C": draw(coo(field, c, k, 12)),
            "scale": draw(st.lists(entry(field, True), min_size=8, max_size=8)),
            "zero_at": draw(st.one_of(st.none(), st.integers(0, 7))),
            "probe": draw(st.lists(st.tuples(st.integers(0, 7), st.integers(0, 7)).map(list), min_size=1, max_size=4))}


@st.composite
def fam_arrays(draw):
    """raw CSR arrays (possibly unsorted / with duplicates) for the static helpers"""
    field = draw(st.sampled_from(FIELDS))
    r = draw(st.integers(1, 6))
    c = draw(st.integers(1, 6))
    rows = []
    for _ in range(r):
        rows.append(draw(st.lists(st.tuples(st.integers(0, c - 1), entry(field)).map(list), min_size=0, max_size=5)))
    return {"fam": "arrays", "field": field, "r": r, "c": c, "rows": rows, "sort": draw(st.booleans())}


VARS = ["x", "y", "z", "w"]


@st.composite
def fam_jac(draw):
    nv = draw(st.integers(1, 4))
    ne = draw(st.integers(1, 5))
    coef = st.one_of(st.just(0), st.just(0), zi, qq).map(_txt)
    lin = draw(st.lists(st.lists(coef, min_size=nv, max_size=nv), min_size=ne, max_size=ne))
    const = draw(st.lists(coef, min_size=ne, max_size=ne))
    # optional non-linear terms  c * v_a * v_b  and  c * v_a ** e  (checked against the dense jacobian only)
    nl = draw(st.lists(st.tuples(st.integers(0, ne - 1), st.integers(0, nv - 1), st.integers(0, nv - 1), st.integers(2, 3), nzi).map(list),
                       min_size=0, max_size=3))
    return {"fam": "jac", "nv": nv, "ne": ne, "lin": lin, "const": const, "nl": nl, "cache": draw(st.booleans())}


def vec(xs):
    return ["list"] + list(xs)


def coo_model(r, c, triples):
    """dense sum model + set of touched coordinates"""
    M = L.zeros(r, c)
    touched = set()
    for (i, j, v) in triples:
        M[i][j] = M[i][j] + L.parse(v)
        touched.add((i, j))
    return M, touched


def coo_recipe(r, c, triples):
    return ["csr_from_coo", r, c, vec(t[0] for t in triples), vec(t[1] for t in triples), vec(L.recipe(L.parse(t[2])) for t in triples)]


class Bad(Exception):
    pass


def decode(o, strict_sizes=True):
    """CSR observation -> (r, c, p, j, x as G list); Bad on malformed content"""
    if not isinstance(o, dict) or "p" not in o:
        raise Bad("not a CSR observation: %r" % (o,))
    xs = []
    for e in o["x"]:
        if e is None:
            raise Bad("null entry in x")
        g = L.from_dump(e["B"])
        if g is None:
            raise Bad("entry is not an exact number: %s" % str(e["B"])[:100])
        if e["B"] != L.dump(g):
            raise Bad("entry is not a normalised number: %s" % e["B"])
        xs.append(g)
    return o["r"], o["c"], list(o["p"]), list(o["j"]), xs


def fmt(M):
    return "[" + "; ".join(" ".join(repr(x) for x in r) for r in M) + "]"


class C25(Check):
    pid = "C25"
    exe = "driver_matrix"
    builds = [("main", ("driver_matrix",))]
    rule = ("CSR matrices of shape <= 8x8 built empty, from canonical arrays or from unsorted coordinate lists with "
            "duplicates; histories of up to 14 set/get steps resolved against a Python model (insert at an unused "
            "position, overwrite, set-to-zero of a stored entry, set-to-zero of an absent entry, delete followed by "
            "insert in the same row, get of stored/absent entries); after EVERY step as_vectors() must be canonical by an "
            "independent check (len(p)=rows+1, p monotone from 0, len(j)=len(x)=p[rows], column indices in range and "
            "strictly increasing per row) and equal the dense model; then transpose / transpose(conj) / conjugate / "
            "conjugate_transpose / elementwise_mul_matrix / csr_binop_csr_canonical(add,sub,mul) / csr_matmat_pass1+2 / "
            "csr_diagonal / csr_scale_rows / csr_scale_columns / eq / get / copies are compared with dense arithmetic; "
            "static helpers (has_canonical_format, has_sorted_indices, has_duplicates, sort_indices, sum_duplicates) on raw "
            "arrays; CSR jacobian against the coefficient matrix and the dense jacobian. Non-trivial: a history with a "
            "delete followed by an insert in the same row, or a from_coo input with >= 1 duplicate coordinate; distinct by case.")
    assumptions = ["the dense model is exact Gaussian-rational arithmetic in Python (pbt/linref.py)",
                   "a library exception declines a sub-case; a crash/sanitizer report is a violation; every judged call is made inside the routine's precondition, so a SYMENGINE_ASSERT (e.g. the constructors' is_canonical()) is a violation",
                   "known findings are excluded by construction only while their tag is active (Check.tag_active)",
                   "CSRMatrix members that throw NotImplementedError (add_matrix, mul_matrix, add_scalar, mul_scalar, submatrix, "
                   "det, inv, rank, factorisations) are only required not to crash",
                   "stored explicit zeros are tolerated except at the position just set to zero"]
    tiers = {"quick": {"examples": 4000}, "thorough": {"examples": 120000}}

    def strategy(self, tier):
        return st.one_of(fam_hist(), fam_hist(), fam_hist(), fam_hist(), fam_arrays(), fam_jac())

    def judge(self, case):
        getattr(self, "fam_" + case["fam"])(case)

    # ---------------------------------------------------------------- shared judging
    def canon(self, what, o, model, ctx, must_store=None, must_not_store=None):
        """o: observation; model: dense rows.  Raises Violation."""
        try:
            r, c, p, j, x = decode(o)
        except Bad as e:
            raise Violation("%s: %s; %s" % (what, e, ctx), {"obs": o})
        why = L.csr_canonical(r, c, p, j, len(x))
        if why is None and (r, c) != L.shape(model) and not (L.shape(model)[0] == 0):
            why = "shape %dx%d, expected %dx%d" % (r, c, L.shape(model)[0], L.shape(model)[1])
        if why is not None:
            raise Violation("%s: result is not canonical CSR (%s): p=%s j=%s; %s" % (what, why, p, j, ctx), {"obs": o})
        D = L.csr_to_dense(r, c, p, j, x)
        if not L.mat_eq(D, model):
            raise Violation("%s: CSR content %s differs from the dense model %s (p=%s j=%s); %s" % (what, fmt(D), fmt(model), p, j, ctx),
                            {"obs": o})
        stored = {(i, j[k]) for i in range(r) for k in range(p[i], p[i + 1])}
        if must_store is not None and must_store not in stored:
            raise Violation("%s: position %s is not stored after a non-zero set; %s" % (what, must_store, ctx), {"obs": o})
        if must_not_store is not None and must_not_store in stored:
            raise Violation("%s: position %s is still stored after being set to zero; %s" % (what, must_not_store, ctx), {"obs": o})
        return stored

    def handle_exc(self, name, r):
        if is_exc(r):
            if r["exc"] == "VerifAssertFailure":
                # every call this check judges is made inside the routine's precondition, so a library assertion
                # (e.g. the CSRMatrix constructors' is_canonical() on arrays an operation has just produced) is a violation
                raise Violation("%s: a library assertion failed on an input inside the routine's precondition (%s)"
                                % (name, r.get("what", "")), {"result": r})
            if r["exc"] == "Dep":
                self.skip("dep")
            else:
                self.skip("declined:" + r["exc"])
            return True
        return False

    # ---------------------------------------------------------------- histories
    def fam_hist(self, case):
        r_, c_, k_ = case["r"], case["c"], case["k"]
        A0 = [t for t in case["A"] if t[0] < r_ and t[1] < c_]
        Bt = [t for t in case["B"] if t[0] < r_ and t[1] < c_]
        Ct = [t for t in case["C"] if t[0] < c_ and t[1] < k_]
        init = case["init"]
        ctx = "shape %dx%d init=%s A=%s" % (r_, c_, init, A0)
        M, stored = coo_model(r_, c_, A0)
        stmts = []
        plan = []   # (kind, index, payload)
        if init == "empty":
            M, stored = L.zeros(r_, c_), set()
            stmts.append(["let", ["csr_empty", r_, c_]])
        elif init == "coo":
            stmts.append(["let", coo_recipe(r_, c_, A0)])
        else:
            # canonical arrays built from the model; explicit zeros of the coordinate list are kept as stored zeros
            p, j, x = [0], [], []
            for i in range(r_):
                for jj in range(c_):
                    if (i, jj) in stored:
                        j.append(jj)
                        x.append(M[i][jj])
                p.append(len(j))
            stmts.append(["let", ["csr_new", r_, c_, vec(p), vec(j), vec(L.recipe(v) for v in x), init == "arrays_move"]])
        plan.append(("init", len(stmts), (L.copy(M), None, None)))
        stmts.append(["mat_obs", R(0)])
        icopy = len(stmts)
        stmts.append(["let", ["csr_copy", R(0)]])
        M_init = L.copy(M)

        # resolve the history against the model
        dup = len(A0) != len({(t[0], t[1]) for t in A0})
        deleted_rows = set()
        del_then_ins = False
        nsteps = 0
        for (kind, a, b, v) in case["steps"]:
            val = L.parse(v)
            st_sorted = sorted(stored)
            free = [(i, j) for i in range(r_) for j in range(c_) if (i, j) not in stored]
            if kind == "ins" and free:
                (i, j) = free[(a * 64 + b) % len(free)]
            elif kind == "reins" and free and deleted_rows:
                rows = [f for f in free if f[0] in deleted_rows]
                if not rows:
                    continue
                (i, j) = rows[(a * 64 + b) % len(rows)]
            elif kind == "ovw" and st_sorted:
                (i, j) = st_sorted[(a * 64 + b) % len(st_sorted)]
            elif kind == "del" and st_sorted:
                (i, j) = st_sorted[(a * 64 + b) % len(st_sorted)]
                val = ZERO
            elif kind == "delmiss" and free:
                (i, j) = free[(a * 64 + b) % len(free)]
                val = ZERO
            elif kind == "get" and st_sorted:
                (i, j) = st_sorted[(a * 64 + b) % len(st_sorted)]
            elif kind == "getmiss" and free:
                (i, j) = free[(a * 64 + b) % len(free)]
            elif kind == "raw":
                (i, j) = (a % r_, b % c_)
                if (a + b) % 3 == 0:
                    val = ZERO
            else:
                continue
            nsteps += 1
            if kind in ("get", "getmiss"):
                plan.append(("get", len(stmts), (i, j, M[i][j])))
                stmts.append(["csr_get", R(0), i, j])
                continue
            M[i][j] = val
            if val:
                if i in deleted_rows:
                    del_then_ins = del_then_ins or (i, j) not in stored
                stored.add((i, j))
                plan.append(("set", len(stmts), (L.copy(M), (i, j), None, "set(%d,%d,%r)" % (i, j, val))))
            else:
                if (i, j) in stored:
                    deleted_rows.add(i)
                stored.discard((i, j))
                plan.append(("set", len(stmts), (L.copy(M), None, (i, j), "set(%d,%d,0)" % (i, j))))
            stmts.append(["mat_obs", ["csr_set", R(0), i, j, L.recipe(val)]])
        # the copy taken before the history must not have changed
        plan.append(("copy_unchanged", len(stmts), (M_init, None, None)))
        stmts.append(["mat_obs", R(icopy)])
        plan.append(("is_canonical", len(stmts), True))
        stmts.append(["csr_is_canonical", R(0)])
        plan.append(("is_real", len(stmts), L.is_real_mat(M)))
        stmts.append(["csr_is_real", R(0)])
        for (pi, pj) in case["probe"]:
            i, j = pi % r_, pj % c_
            plan.append(("get", len(stmts), (i, j, M[i][j])))
            stmts.append(["csr_get", R(0), i, j])

        # ---- operations on the final matrix
        A = M
        Bm, _ = coo_model(r_, c_, Bt)
        Cm, _ = coo_model(c_, k_, Ct)
        rB = len(stmts)
        stmts.append(["let", coo_recipe(r_, c_, Bt)])
        rC = len(stmts)
        stmts.append(["let", coo_recipe(c_, k_, Ct)])
        rD = len(stmts)
        stmts.append(["let", ["dm_new", r_, c_, vec(L.recipe(x) for row in A for x in row)]])

        def op(name, stmt, model, kind="csr"):
            plan.append((kind, len(stmts), (model, None, None, name)))
            stmts.append(["mat_obs", stmt])
        op("from_coo(B)", R(rB), Bm)
        op("from_coo(C)", R(rC), Cm)
        At = L.transpose(A)
        op("transpose(MatrixBase&)", ["csr_transpose", R(0)], At)
        op("transpose(false)", ["csr_transpose", R(0), False], At)
        op("transpose(true)", ["csr_transpose", R(0), True], L.conj(At))
        op("conjugate_transpose", ["csr_conjugate_transpose", R(0)], L.conj(At))
        op("transpose(transpose)", ["csr_transpose", ["csr_transpose", R(0), False], False], A)
        if r_ != c_ and self.tag_active("csr_conjugate_swaps_dimensions"):
            # known finding: CSRMatrix::conjugate builds its result with swapped dimensions (col_, row_)
            self.skip("known:csr_conjugate_swaps_dimensions")
        else:
            op("conjugate", ["csr_conjugate", R(0)], L.conj(A))
        op("elementwise_mul_matrix", ["csr_emul", R(0), R(rB)], L.emul(A, Bm))
        op("csr_binop_csr_canonical(add)", ["csr_binop", "add", R(0), R(rB)], L.add(A, Bm))
        op("csr_binop_csr_canonical(sub)", ["csr_binop", "sub", R(0), R(rB)], L.sub(A, Bm))
        op("csr_binop_csr_canonical(mul)", ["csr_binop", "mul", R(0), R(rB)], L.emul(A, Bm))
        op("csr_binop_csr_canonical(add self)", ["csr_binop", "add", R(0), R(0)], L.add(A, A))
        op("csr_binop_csr_canonical(sub self)", ["csr_binop", "sub", R(0), R(0)], L.zeros(r_, c_))
        # product: csr_matmat_pass1/2 size their scratch arrays by A.ncols(); wider B overflows them (known finding)
        if k_ > c_ and self.tag_active("csr_matmat_scratch_sized_by_A_cols"):
            self.skip("known:csr_matmat_scratch_sized_by_A_cols")
        else:
            plan.append(("matmat", len(stmts), L.matmul(A, Cm)))
            stmts.append(["mat_obs", ["csr_matmat", R(0), R(rC)]])
        # diagonal: pre-excluded when the library's search would probe outside the row (known finding)
        if not self.diag_probe_safe(r_, c_, stored) and self.tag_active("csr_diagonal_search_bounds"):
            self.skip("known:csr_diagonal_search_bounds")
        else:
            n = min(r_, c_)
            plan.append(("dense", len(stmts), ([[A[i][i]] for i in range(n)], "csr_diagonal")))
            stmts.append(["mat_obs", ["csr_diagonal", R(0)]])
        # scaling
        sc = [L.parse(x) for x in case["scale"]]
        rows_s = sc[:r_] + [ONE] * max(0, r_ - len(sc))
        cols_s = sc[:c_] + [ONE] * max(0, c_ - len(sc))
        za = case["zero_at"]
        if za is not None:
            rows_s[za % r_] = ZERO
            cols_s[za % c_] = ZERO
        rX = len(stmts)
        stmts.append(["let", ["dm_new", r_, 1, vec(L.recipe(x) for x in rows_s)]])
        rY = len(stmts)
        stmts.append(["let", ["dm_new", c_, 1, vec(L.recipe(x) for x in cols_s)]])
        if za is None:
            op("csr_scale_rows", ["csr_scale_rows", R(0), R(rX)], [[A[i][j] * rows_s[i] for j in range(c_)] for i in range(r_)])
            op("csr_scale_columns", ["csr_scale_columns", R(0), R(rY)], [[A[i][j] * cols_s[j] for j in range(c_)] for i in range(r_)])
        else:
            plan.append(("must_throw", len(stmts), "csr_scale_rows with a zero factor"))
            stmts.append(["mat_obs", ["csr_scale_rows", R(0), R(rX)]])
            plan.append(("must_throw", len(stmts), "csr_scale_columns with a zero factor"))
            stmts.append(["mat_obs", ["csr_scale_columns", R(0), R(rY)]])
        # equality
        same = L.mat_eq(A, Bm)
        plan.append(("eq_copy", len(stmts), [True, False]))
        stmts.append(["mat_eq", R(0), ["csr_copy", R(0)]])
        plan.append(("eq_dense", len(stmts), [True, False]))
        stmts.append(["mat_eq", R(0), R(rD)])
        plan.append(("eq_dense_rev", len(stmts), [True, False]))
        stmts.append(["mat_eq", R(rD), R(0)])
        if not same:
            plan.append(("eq_other", len(stmts), [False, True]))
            stmts.append(["mat_eq", R(0), R(rB)])
        for w in ("add_matrix", "mul_matrix", "add_scalar", "mul_scalar", "submatrix", "det", "inv", "rank", "LU", "cholesky"):
            plan.append(("unimpl", len(stmts), w))
            stmts.append(["mat_obs", ["csr_unimplemented", w, R(0)]])

        res = self.run(stmts)
        # the constructing statements themselves (let ...): an exception there would otherwise only show up as "Dep"
        for (nm, idx) in (("construct/" + init, 0), ("from_coo(B)", rB), ("from_coo(C)", rC), ("copy constructor", icopy)):
            self.handle_exc(nm, res[idx])
        for (kind, idx, pay) in plan:
            r = res[idx]
            if kind == "must_throw":
                self.cls("scale_zero_factor")
                if is_exc(r):
                    self.count()
                else:
                    self.skip("unjudged:scale_zero_factor_returned")
                continue
            if kind == "unimpl":
                self.cls("unimplemented")
                if is_exc(r):
                    self.count()
                else:
                    self.skip("unjudged:unimplemented_returned")
                continue
            name = {"init": "construct", "set": "set", "get": "get", "copy_unchanged": "copy"}.get(kind, kind)
            if kind in ("csr", "dense"):
                name = pay[-1]
            self.cls(name.split("(")[0])
            if self.handle_exc(name, r):
                continue
            if kind in ("init", "copy_unchanged"):
                self.canon(name, r, pay[0], ctx)
            elif kind == "set":
                self.canon(pay[3], r, pay[0], ctx + " history=%s" % case["steps"], pay[1], pay[2])
            elif kind == "csr":
                self.canon(name, r, pay[0], ctx + " final=%s B=%s" % (fmt(A), fmt(Bm)))
            elif kind == "get":
                g = L.from_dump(r["B"])
                if g is None or g != pay[2]:
                    raise Violation("get(%d,%d) returned %s, the model has %r; %s history=%s" % (pay[0], pay[1], r["B"], pay[2], ctx, case["steps"]))
            elif kind == "dense":
                try:
                    got = self.dense(r)
                except Bad as e:
                    raise Violation("%s: %s; %s" % (name, e, ctx))
                if not L.mat_eq(got, pay[0]):
                    raise Violation("%s returned %s, expected %s; final=%s" % (name, fmt(got), fmt(pay[0]), fmt(A)))
            elif kind == "matmat":
                self.judge_matmat(r, pay, A, Cm, ctx)
            elif kind in ("is_canonical", "is_real"):
                truth = pay
                got = r if kind == "is_canonical" else {"T": True, "F": False}.get(r)
                if got is not None and got != truth:
                    raise Violation("%s answered %s, expected %s; final=%s" % (kind, r, truth, fmt(A)))
            elif kind.startswith("eq"):
                if r != pay:
                    raise Violation("%s: (==, !=) returned %s, expected %s; final=%s B=%s" % (kind, r, pay, fmt(A), fmt(Bm)))
            self.count()
        if del_then_ins or (dup and init == "coo"):
            self.nontriv(("hist", r_, c_, init, str(A0), str(case["steps"])))
        self.sample({"family": "history", "shape": [r_, c_], "init": init, "coo": A0[:8], "steps": [s[:3] for s in case["steps"][:8]],
                     "delete_then_insert_same_row": del_then_ins, "duplicates": dup})

    @staticmethod
    def dense(o):
        r, c = o["r"], o["c"]
        out = []
        for i in range(r):
            row = []
            for j in range(c):
                e = o["v"][i * c + j]
                g = L.from_dump(e["B"]) if e is not None else None
                if g is None:
                    raise Bad("entry (%d,%d) is not an exact number: %r" % (i, j, e))
                row.append(g)
            out.append(row)
        return out

    @staticmethod
    def diag_probe_safe(r_, c_, stored):
        """replay csr_diagonal's binary search (inclusive upper bound) on the model pattern: safe iff no probe
        leaves the row's own index range and no bound underflows"""
        p = [0]
        j = []
        for i in range(r_):
            for jj in range(c_):
                if (i, jj) in stored:
                    j.append(jj)
            p.append(len(j))
        for i in range(min(r_, c_)):
            lo, hi = p[i], p[i + 1]
            while lo <= hi:
                m = (lo + hi) // 2
                if m >= p[i + 1]:
                    return False
                if j[m] == i:
                    break
                if j[m] < i:
                    lo = m + 1
                else:
                    if m == 0:
                        return False
                    hi = m - 1
        return True

    def judge_matmat(self, r, exp, A, Cm, ctx):
        what = "csr_matmat_pass1/2"
        p1 = r["pass1_p"]
        if "C" not in r:
            raise Violation("%s: pass 1 produced an inconsistent row pointer %s; %s" % (what, p1, ctx))
        try:
            rr, cc, p, j, x = decode(r["C"])
        except Bad as e:
            raise Violation("%s: %s; %s" % (what, e, ctx))
        info = "A=%s C=%s p=%s j=%s" % (fmt(A), fmt(Cm), p, j)
        if len(p) != rr + 1 or p[0] != 0 or any(p[i] > p[i + 1] for i in range(rr)) or p[rr] > len(j) or p[rr] > len(x):
            raise Violation("%s: malformed row pointer; %s" % (what, info))
        if any(p[i + 1] > p1[i + 1] for i in range(rr)):
            raise Violation("%s: pass 2 wrote more entries than pass 1 counted (%s vs %s); %s" % (what, p, p1, info))
        dupl = False
        unsorted_ = False
        D = L.zeros(rr, cc)
        for i in range(rr):
            seen = set()
            for k in range(p[i], p[i + 1]):
                if not (0 <= j[k] < cc):
                    raise Violation("%s: column index out of range; %s" % (what, info))
                if j[k] in seen:
                    dupl = True
                seen.add(j[k])
                if k > p[i] and j[k - 1] > j[k]:
                    unsorted_ = True
                D[i][j[k]] = D[i][j[k]] + x[k]
        if not L.mat_eq(D, exp):
            raise Violation("%s: product %s differs from the dense product %s; %s" % (what, fmt(D), fmt(exp), info))
        if dupl:
            raise Violation("%s: duplicate column index inside a row; %s" % (what, info))
        if unsorted_:
            # known finding: pass 2 emits each row in reverse first-touch order and nothing sorts it afterwards
            if self.tag_active("csr_matmat_unsorted_indices"):
                self.skip("known:csr_matmat_unsorted_indices")
            else:
                raise Violation("%s: column indices of the product are not sorted (not canonical, get() is wrong); %s" % (what, info))

    # ---------------------------------------------------------------- static helpers on raw arrays
    def fam_arrays(self, case):
        r_, c_ = case["r"], case["c"]
        rows = [[(jj, L.parse(v)) for (jj, v) in row if jj < c_] for row in case["rows"]]
        if case["sort"]:
            rows = [sorted(row, key=lambda t: t[0]) for row in rows]
        p, j, x = [0], [], []
        for row in rows:
            for (jj, v) in row:
                j.append(jj)
                x.append(v)
            p.append(len(j))
        ctx = "p=%s j=%s x=%s" % (p, j, x)
        srt = all(row[k][0] <= row[k + 1][0] for row in rows for k in range(len(row) - 1))
        adj_dup = any(row[k][0] == row[k + 1][0] for row in rows for k in range(len(row) - 1))
        canonical = all(row[k][0] < row[k + 1][0] for row in rows for k in range(len(row) - 1))
        arr = [vec(p), vec(j), vec(L.recipe(v) for v in x), r_]
        stmts = [["csr_arrays", "has_sorted_indices"] + arr,
                 ["csr_arrays", "has_canonical_format"] + arr,
                 ["csr_arrays", "sort_indices"] + arr,
                 ["csr_arrays", "has_duplicates"] + arr,
                 ["csr_arrays", "sum_duplicates"] + arr]
        res = self.run(stmts)
        self.cls("has_sorted_indices")
        if not self.handle_exc("has_sorted_indices", res[0]):
            if res[0] is not srt:
                raise Violation("csr_has_sorted_indices answered %s, expected %s; %s" % (res[0], srt, ctx))
            self.count()
        self.cls("has_canonical_format")
        if not self.handle_exc("has_canonical_format", res[1]):
            if res[1] is not canonical:
                raise Violation("csr_has_canonical_format answered %s, expected %s; %s" % (res[1], canonical, ctx))
            self.count()
        self.cls("sort_indices")
        if not self.handle_exc("sort_indices", res[2]):
            o = res[2]
            xs = [L.from_dump(e["B"]) for e in o["x"]]
            ok = list(o["p"]) == p and len(o["j"]) == len(j)
            if ok:
                for i, row in enumerate(rows):
                    got = list(zip(o["j"][p[i]:p[i + 1]], xs[p[i]:p[i + 1]]))
                    if [t[0] for t in got] != sorted(t[0] for t in row):
                        ok = False
                    # same multiset of (column, value) pairs (equal columns may come in any order)
                    if sorted(got, key=lambda t: (t[0], t[1].re, t[1].im)) != sorted(row, key=lambda t: (t[0], t[1].re, t[1].im)):
                        ok = False
            if not ok:
                raise Violation("csr_sort_indices returned p=%s j=%s x=%s; %s" % (o["p"], o["j"], xs, ctx))
            self.count()
        if srt:
            # csr_has_duplicates and csr_sum_duplicates assume sorted indices
            self.cls("has_duplicates")
            if not self.handle_exc("has_duplicates", res[3]):
                if res[3] is not adj_dup:
                    raise Violation("csr_has_duplicates answered %s, expected %s; %s" % (res[3], adj_dup, ctx))
                self.count()
            self.cls("sum_duplicates")
            if not self.handle_exc("sum_duplicates", res[4]):
                o = res[4]
                xs = [L.from_dump(e["B"]) for e in o["x"]]
                M = L.zeros(r_, c_)
                for i, row in enumerate(rows):
                    for (jj, v) in row:
                        M[i][jj] = M[i][jj] + v
                why = None
                if any(v is None for v in xs):
                    why = "non-numeric entry"
                else:
                    why = L.csr_canonical(r_, c_, list(o["p"]), list(o["j"]), len(xs))
                    if why is None and not L.mat_eq(L.csr_to_dense(r_, c_, o["p"], o["j"], xs), M):
                        why = "values differ from the summed model %s" % fmt(M)
                if why is not None:
                    raise Violation("csr_sum_duplicates returned p=%s j=%s x=%s: %s; %s" % (o["p"], o["j"], xs, why, ctx))
                self.count()
                if adj_dup:
                    self.nontriv(("arrays", ctx))
        self.sample({"family": "arrays", "p": p, "j": j, "sorted": srt, "duplicates": adj_dup})

    # ---------------------------------------------------------------- jacobian
    def fam_jac(self, case):
        nv, ne = case["nv"], case["ne"]
        names = VARS[:nv]
        syms = [["symbol", n] for n in names]
        lin = [[L.parse(x) for x in row] for row in case["lin"]]
        const = [L.parse(x) for x in case["const"]]
        nl = [t for t in case["nl"] if t[0] < ne and t[1] < nv and t[2] < nv]
        exprs = []
        for i in range(ne):
            terms = [L.recipe(const[i])]
            for k in range(nv):
                if lin[i][k]:
                    terms.append(["mul", L.recipe(lin[i][k]), syms[k]])
            for (e, a, b, pw, cf) in nl:
                if e == i:
                    if a == b:
                        terms.append(["mul", ["integer", cf], ["pow", syms[a], ["integer", pw]]])
                    else:
                        terms.append(["mul_vec", vec([["integer", cf], syms[a], syms[b]])])
            exprs.append(["add_vec", vec(terms)])
        linear = not nl
        stmts = [["let", vec(exprs)], ["let", vec(syms)],
                 ["mat_obs", ["csr_jacobian", R(0), R(1), case["cache"]]],
                 ["let", ["dm_col", R(0)]], ["let", ["dm_col", R(1)]],
                 ["mat_obs", ["dm_jacobian", R(3), R(4)]],
                 ["mat_obs", ["csr_jacobian", R(3), R(4)]]]
        res = self.run(stmts)
        ctx = "exprs=%s" % exprs
        for idx in (2, 6):
            self.cls("jacobian")
            o = res[idx]
            if self.handle_exc("jacobian", o) or self.handle_exc("jacobian", res[5]):
                continue
            p, j, x = list(o["p"]), list(o["j"]), o["x"]
            why = L.csr_canonical(ne, nv, p, j, len(x)) if (o["r"], o["c"]) == (ne, nv) else "shape %sx%s" % (o["r"], o["c"])
            if why is not None:
                raise Violation("CSR jacobian is not canonical (%s): p=%s j=%s; %s" % (why, p, j, ctx))
            # against the dense jacobian: same entries where stored, dense entry zero where not stored
            dv = res[5]["v"]
            for i in range(ne):
                st_cols = {}
                for k in range(p[i], p[i + 1]):
                    st_cols[j[k]] = x[k]
                for cidx in range(nv):
                    d = dv[i * nv + cidx]
                    if cidx in st_cols:
                        if st_cols[cidx] != d:
                            raise Violation("CSR jacobian entry (%d,%d) = %s, dense jacobian has %s; %s" % (i, cidx, st_cols[cidx], d, ctx))
                    elif d is None or d["B"] != ["Integer", "0"]:
                        raise Violation("CSR jacobian omits (%d,%d) where the dense jacobian has %s; %s" % (i, cidx, d, ctx))
            if linear:
                D = L.zeros(ne, nv)
                for i in range(ne):
                    for k in range(p[i], p[i + 1]):
                        g = L.from_dump(x[k]["B"])
                        if g is None:
                            raise Violation("jacobian of a linear map has a non-numeric entry %s; %s" % (x[k], ctx))
                        D[i][j[k]] = g
                if not L.mat_eq(D, lin):
                    raise Violation("jacobian of the linear map with matrix %s is %s" % (fmt(lin), fmt(D)))
            self.count()
        self.sample({"family": "jacobian", "linear": linear, "matrix": case["lin"]})


if __name__ == "__main__":
    sys.exit(engine.main(C25))
