"""C27 Set operations have pointwise membership semantics."""
import os
import sys
from fractions import Fraction

sys.path.insert(0, os.path.join(os.path.dirname(os.path.abspath(__file__)), ".."))
from hypothesis import strategies as st
from pbt import engine, setref
from pbt.engine import Check, Violation, R, B, is_exc, DriverTimeout
from pbt.setref import member, term_from_dump, point_recipe, point_str

LIST_OPS = ("set_union", "set_intersection")
PAIR_OPS = ("set_complement", "m_union", "m_intersection", "m_complement")
ALL_OPS = LIST_OPS + PAIR_OPS
TOPO = ("sup", "inf", "boundary", "interior", "closure")
INTLIKE = ("Integers", "Naturals", "Naturals0")


# ------------------------------------------------------------------ recipes
def num(f):
    f = Fraction(f)
    return ["integer", f.numerator] if f.denominator == 1 else ["rational", f.numerator, f.denominator]


def ival(a, b, lo=False, ro=False):
    def e(v):
        if v == "oo":
            return ["oo"]
        if v == "-oo":
            return ["noo"]
        if isinstance(v, float):
            return ["real_double", v]
        return num(v)
    return ["interval", e(a), e(b), bool(lo), bool(ro)]


def fset(*xs):
    out = []
    for v in xs:
        if isinstance(v, list):
            out.append(v)
        elif isinstance(v, float):
            out.append(["real_double", v])
        elif isinstance(v, complex):
            out.append(["complex", num(Fraction(v.real)), num(Fraction(v.imag))])
        else:
            out.append(num(v))
    return ["finiteset", ["list"] + out]


def mk(op, a, b):
    if op in LIST_OPS:
        return [op, ["list", a, b]]
    return [op, a, b]


X = ["symbol", "x"]


def leaf_pool():
    """structured leaves for the exhaustive ordered-pair table"""
    F = Fraction
    out = []
    for lo in (False, True):
        for ro in (False, True):
            out.append(ival(0, 1, lo, ro))          # base
            out.append(ival(1, 2, lo, ro))          # adjacent to base
    out += [ival(0, 3), ival(0, 3, True, True), ival(F(1, 2), F(5, 2)), ival(F(1, 2), F(5, 2), True, False),
            ival(5, 6), ival(5, 6, True, True), ival(-2, 0, False, True),
            ival("-oo", 1), ival("-oo", 1, True, True), ival(1, "oo"), ival(1, "oo", True, True),
            ival("-oo", "oo", True, True), ival(F(-7, 3), F(1, 2), True, False)]
    out += [fset(0), fset(1), fset(0, 1), fset(F(1, 2)), fset(-1, 2, F(1, 2), 7), fset(0, 1, 2, 3, 5, 6),
            fset(1j), fset(1, 0.3), fset(-3, -2, F(-1, 3), 4, 11), fset(F(5, 2), 3, 1 + 2j, 2 ** 64 + 1)]
    out += [["reals"], ["rationals"], ["integers"], ["naturals"], ["naturals0"], ["complexes"], ["emptyset"],
            ["universalset"]]
    return out


def extra_leaves():
    return [["conditionset", X, ["Gt", X, num(2)]],
            ["conditionset", X, ["and", ["list", ["Ge", X, num(0)], ["Lt", X, num(3)]]]],
            ["imageset", X, ["mul", num(2), X], ["integers"]],
            ["imageset", X, ["add", ["mul", num(3), X], num(1)], ["naturals0"]]]


# ------------------------------------------------------------------ strategies
def strategies():
    F = Fraction
    grid = st.one_of(st.integers(-4, 8).map(F), st.integers(-4, 8).map(F),
                     st.builds(F, st.integers(-9, 17), st.sampled_from([2, 3, 4])))

    def mk_interval(a, b, lo, ro, mode, dbl):
        if a > b:
            a, b = b, a
        x, y = a, b
        if mode in (1, 3):
            x = "-oo"
        if mode in (2, 3):
            y = "oo"
        if dbl == 1 and x != "-oo":
            x = float(a) + 0.3
            if y != "oo" and x >= y:
                x = float(a) - 0.7
        return ival(x, y, lo, ro)
    interval = st.builds(mk_interval, grid, grid, st.booleans(), st.booleans(),
                         st.sampled_from([0, 0, 0, 0, 0, 1, 2, 3]), st.sampled_from([0] * 15 + [1]))
    elem = st.one_of(grid.map(num), grid.map(num), st.integers(-12, 12).map(num),
                     st.sampled_from([1000, -1000, 2 ** 64 + 1, -2 ** 70, 2 ** 31]).map(num),
                     st.builds(lambda n, d: num(F(n, d)), st.integers(-30, -1), st.integers(2, 9)),
                     st.sampled_from([0.3, 2.7, -1.7, 1e10, 2.0, 0.5]).map(lambda f: ["real_double", f]),
                     st.sampled_from([["complex", num(0), num(1)], ["complex", num(1), num(2)],
                                      ["complex", num(0), num(F(-1, 2))]]))
    finite = st.lists(elem, min_size=1, max_size=6).map(lambda xs: ["finiteset", ["list"] + xs])
    numset = st.sampled_from([["reals"], ["rationals"], ["integers"], ["naturals"], ["naturals0"], ["complexes"]])
    rel = st.builds(lambda op, c: [op, X, num(c)], st.sampled_from(["Lt", "Le", "Gt", "Ge", "Ne"]), grid)
    cond = st.one_of(rel,
                     st.builds(lambda a, b: ["and", ["list", ["Gt", X, num(min(a, b))], ["Le", X, num(max(a, b))]]], grid, grid),
                     st.builds(lambda a, b: ["or", ["list", ["Lt", X, num(min(a, b))], ["Ge", X, num(max(a, b))]]], grid, grid),
                     st.builds(lambda f, r: ["and", ["list", ["contains", X, f], r]], finite, rel))
    condset = cond.map(lambda c: ["conditionset", X, c])
    imbase = st.one_of(st.sampled_from([["integers"], ["naturals"], ["naturals0"], ["reals"]]), interval, finite)
    imageset = st.builds(lambda a, b, base: ["imageset", X, ["add", ["mul", num(a), X], num(b)], base],
                         st.sampled_from([F(2), F(3), F(-1), F(1, 2), F(-2)]), st.sampled_from([0, 0, 1, -1]), imbase)
    leaf = st.one_of([interval] * 8 + [finite] * 6 + [numset] * 5
                     + [st.just(["emptyset"]), st.just(["universalset"]), condset, imageset])

    def op_of(first, other):
        """an operation with at least one operand from `first` (so that the depth really grows)"""
        pair = st.tuples(first, other, st.booleans()).map(lambda t: [t[1], t[0]] if t[2] else [t[0], t[1]])

        def rot(t):
            xs = [t[0], t[1], t[2]]
            return xs[t[3]:] + xs[:t[3]]
        triple = st.tuples(first, other, other, st.integers(0, 2)).map(rot)
        return st.one_of(
            st.builds(lambda o, xs: [o, ["list"] + xs], st.sampled_from(LIST_OPS), st.one_of(pair, pair, triple)),
            st.builds(lambda o, xs: [o, xs[0], xs[1]], st.sampled_from(PAIR_OPS), pair))
    l1 = op_of(leaf, leaf)
    l2 = op_of(l1, st.one_of(leaf, leaf, l1))
    l3 = op_of(l2, st.one_of(leaf, leaf, l1))
    return st.one_of(l1, l2, l2, l2, l3, l3)


# ------------------------------------------------------------------ flattening
def flatten(recipe):
    """post-order list of nodes {"recipe", "op", "kids", "stmt"}; the last node is the root"""
    nodes = []

    def go(r):
        h = r[0]
        if h in LIST_OPS:
            kids = [go(x) for x in r[1][1:]]
            stmt = [h, ["list"] + [R(k) for k in kids]]
        elif h in PAIR_OPS:
            kids = [go(r[1]), go(r[2])]
            stmt = [h, R(kids[0]), R(kids[1])]
        elif h == "imageset":
            kids = [go(r[3])]
            stmt = ["imageset", r[1], r[2], R(kids[0])]
        else:
            if not setref.is_set_head(h):
                raise engine.GeneratorDefect("not a set recipe: %r" % (r,))
            kids = []
            stmt = r
        nodes.append({"recipe": r, "op": h, "kids": kids, "stmt": stmt})
        return len(nodes) - 1
    go(recipe)
    return nodes


def combine(node, km):
    """model term of a node from the model terms of its operands"""
    h = node["op"]
    if h in ("set_union", "m_union"):
        return ("union", km)
    if h in ("set_intersection", "m_intersection"):
        return ("inter", km)
    if h == "set_complement":
        return ("compl", km[0], km[1])
    if h == "m_complement":
        return ("compl", km[1], km[0])
    if h == "imageset":
        r = node["recipe"]
        return ("imageset", r[1][1], r[2], km[0])
    return setref.term_from_recipe(node["recipe"])


def dump_walk(d):
    yield d
    if d[0] in ("Union", "Intersection"):
        for x in d[1]:
            for y in dump_walk(x):
                yield y
    elif d[0] == "Complement":
        for x in (d[1], d[2]):
            for y in dump_walk(x):
                yield y
    elif d[0] == "ImageSet":
        for y in dump_walk(d[3]):
            yield y


def has_unbounded_interval(d):
    return any(x[0] == "Interval" and (x[1][0] == "Infty" or x[2][0] == "Infty") for x in dump_walk(d))


def has_infinite_member(d):
    for x in dump_walk(d):
        if x[0] == "FiniteSet" and any(e[0] == "Infty" for e in x[1]):
            return True
        if x[0] == "Interval" and ((x[1][0] == "Infty" and not x[3]) or (x[2][0] == "Infty" and not x[4])):
            return True
    return False


def has_intlike(d):
    return any(x[0] in INTLIKE for x in dump_walk(d))


def classes_of(dumps):
    out = set()
    for d in dumps:
        if d is not None:
            for x in dump_walk(d):
                out.add(x[0])
    return out


CRASH_TAGS = ("numberset_recursion", "imageset_complement_swapped", "intersection_union_distribution",
              "complement_of_complement")
NUMCLS = {"Reals", "Complexes", "Rationals", "Integers", "Naturals", "Naturals0"}
UNION_OPS = ("set_union", "m_union")
INTER_OPS = ("set_intersection", "m_intersection")
COMPL_OPS = ("set_complement", "m_complement")


def hang_risk(kd):
    """operands from which Interval::set_intersection(Integers/Naturals/Naturals0) with an infinite endpoint is
    reachable (directly, or member-wise through Union / Intersection / Complement operands)"""
    kd = [k for k in kd if k is not None]
    return any(has_unbounded_interval(k) for k in kd) and any(has_intlike(k) for k in kd)


def recursion_risk(op, kd):
    """operand classes for which the fallbacks of the number sets' / ImageSet's set_union, set_intersection
    (and ImageSet::set_complement) call the free function, which calls back into the same method"""
    cl = classes_of(kd)
    n_image = sum(1 for k in kd if k is not None for x in dump_walk(k) if x[0] == "ImageSet")
    if op in UNION_OPS:
        if cl & {"Reals", "Complexes"} and cl & {"Union", "Intersection", "Complement", "ConditionSet", "ImageSet"}:
            return True
        if "Rationals" in cl and cl & {"Intersection", "Complement", "ConditionSet", "ImageSet"}:
            return True
        # Complement::set_union / Intersection::set_union intersect and complement their parts
        if cl & NUMCLS and cl & {"Complement", "Intersection"} and cl & {"ConditionSet", "ImageSet"}:
            return True
        return False
    if cl & NUMCLS and cl & {"Intersection", "ConditionSet", "ImageSet"}:
        return True
    if "ImageSet" in cl and (n_image >= 2 or cl & {"Intersection", "ConditionSet"}):
        return True
    if op in COMPL_OPS and cl & {"Reals", "Complexes", "Rationals"} and cl & {"Complement", "Union"} \
            and cl & {"Intersection", "ConditionSet", "ImageSet", "Complement"}:
        return True
    return False


def crash_tags(op, kd):
    """names of the recorded findings whose process-killing recursion this operation may reach"""
    out = []
    cl = classes_of(kd)
    if op in COMPL_OPS and len(kd) == 2 and all(k is not None for k in kd):
        if all(any(x[0] == "ImageSet" for x in dump_walk(k)) for k in kd):
            out.append("imageset_complement_swapped")     # ImageSet::set_complement(ImageSet) calls itself back
    if "Intersection" in cl and (op in UNION_OPS or "Union" in cl or "Complement" in cl):
        out.append("intersection_union_distribution")     # Intersection::set_union <-> set_intersection(Union)
    # Complement::set_union complements the other operand in its universe and Complement::set_complement unites
    # the universes: two Complements (given, or made by complementing in a Union of sets that keep their
    # complements unevaluated) send them back and forth
    ncompl = sum(1 for k in kd if k is not None for x in dump_walk(k) if x[0] == "Complement")
    lazy = {"ConditionSet", "ImageSet", "Intersection", "Complement", "UniversalSet"} | NUMCLS
    if ncompl >= 2 or (ncompl >= 1 and "Union" in cl):
        out.append("complement_of_complement")
    elif op in COMPL_OPS and len(kd) == 2 and kd[0] is not None and kd[1] is not None:
        u, c = (kd[0], kd[1]) if op == "set_complement" else (kd[1], kd[0])
        if u[0] == "Union" and sum(1 for m in u[1] if m[0] in lazy) >= 2:
            out.append("complement_of_complement")
        elif c[0] == "Union" and any(m[0] in lazy for m in c[1]):
            out.append("complement_of_complement")
    if recursion_risk(op, kd):
        out.append("numberset_recursion")
    return out


def leaves_of(r, acc=None):
    acc = [] if acc is None else acc
    h = r[0]
    if h in LIST_OPS:
        for x in r[1][1:]:
            leaves_of(x, acc)
    elif h in PAIR_OPS:
        leaves_of(r[1], acc)
        leaves_of(r[2], acc)
    elif h == "imageset":
        acc.append(r)
        leaves_of(r[3], acc)
    else:
        acc.append(r)
    return acc


def activate_extra_findings(chk):
    """development aid: VERIF_EXTRA_FINDINGS=<json file of finding entries> activates the 'known' entries of this
    property whose reproducer still fails, exactly like engine.main does for known_findings.json (used before the
    entries are merged into known_findings.json; does nothing when the variable is unset)"""
    path = os.environ.get("VERIF_EXTRA_FINDINGS")
    if not path or getattr(chk, "_extra_done", False):
        return
    chk._extra_done = True
    with open(path) as f:
        entries = engine.json.load(f)
    saved = list(chk.active_matchers)
    add = []
    for kf in entries:
        if kf.get("property") != chk.pid or kf.get("status") != "known":
            continue
        if any(n == kf["matcher"] for _, n in saved):
            continue
        with open(os.path.join(engine.VERIF, kf["reproducer"])) as f:
            rp = engine.json.load(f)
        chk.active_matchers = []
        try:
            chk.guarded(rp["case"])
        except Violation:
            add.append((kf["id"], kf["matcher"]))
        sk = chk.skipped
    chk.active_matchers = saved + add
    # the replays are not part of the run's bookkeeping
    chk.evals = 0
    chk.classes, chk.skipped, chk.samples = {}, {}, []
    chk.nontrivial = set()


class C27(Check):
    pid = "C27"
    exe = "driver_setlogic"
    builds = [("main", ("driver_setlogic",))]
    timeout = 12.0
    case_timeout = 240
    rule = ("set expressions of depth <= 4 over intervals (rational / +-oo / a few double endpoints, all open/closed "
            "combinations, degenerate, adjacent, nested, disjoint), finite sets (1-6 rationals / integers incl. negative "
            "and multi-limb values whose hash order differs from numeric order, a few doubles and complex numbers), "
            "Reals/Rationals/Integers/Naturals/Naturals0/Complexes, EmptySet, UniversalSet and a few ConditionSets / "
            "linear ImageSets, combined with set_union / set_intersection (free functions, 2-3 operands) / set_complement "
            "and the member functions set_union / set_intersection / set_complement; an exhaustive table of all ordered "
            "pairs of 43 structured leaves x 6 operations, plus Hypothesis expressions. For every node of the expression "
            "and every probe point (all endpoints and elements, midpoints, one step beyond, neighbouring integers, fixed "
            "integers / non-integer rationals / complex numbers / doubles) the exact reference membership (boolean "
            "combination of the operands' memberships, Fractions) must equal (a) the membership in the returned object "
            "read structurally from its raw dump and (b) every definite answer of contains(); for expressions over "
            "intervals / finite real sets sup, inf, boundary, interior, closure are compared with the exact model. "
            "Non-trivial: >= 2 operators and an operator whose operands overlap partially, are disjoint intervals, or are "
            "a finite set straddling an interval; distinct by recipe. (The quick tier enumerates each ordered pair under one of the "
            "two entry points of each operation, the thorough tier under both.)")
    assumptions = ["membership of +-oo is not judged (Reals.contains(oo) etc. are conventions)",
                   "a double and an exact number of equal value are not identified nor distinguished (three-valued model); "
                   "whether a double belongs to Rationals / an integer-valued double to Integers is not judged",
                   "an exception declines the operation (and everything built from its result)",
                   "boundary / interior / closure are taken in R and judged at finite points only"]
    tiers = {"quick": {"examples": 2000}, "thorough": {"examples": 150000}}

    # ---------------------------------------------------------------- generation
    def enumerate(self, tier):
        pool = leaf_pool()
        for k, op in enumerate(ALL_OPS):
            for i, a in enumerate(pool):
                for j, b in enumerate(pool):
                    # quick: every ordered pair under one of the two entry points of each operation (free function
                    # for i+j+k even, member function otherwise); thorough: the full table
                    if tier == "quick" and (i + j + k) % 2:
                        continue
                    yield {"recipe": mk(op, a, b)}
        ex = extra_leaves()
        core = [["reals"], ["rationals"], ["integers"], ["naturals0"], ["complexes"], ["universalset"], ["emptyset"],
                ival(0, 3), ival("-oo", 1), fset(0, 1, 2, 7), fset(1j)]
        for op in ALL_OPS:
            for a in ex:
                for b in core + ex:
                    yield {"recipe": mk(op, a, b)}
                    yield {"recipe": mk(op, b, a)}
        # Union / Intersection / Complement objects as operands of the number sets (mutual delegation)
        comp = [mk("m_union", ["rationals"], ival(0, 1)), mk("m_intersection", ["rationals"], ival(0, 1)),
                mk("set_complement", ival(0, 3), ["rationals"]), mk("set_union", ival(0, 1), ival(2, 3)),
                mk("m_union", ["integers"], ival(0, 1)), mk("set_complement", ["reals"], ["integers"])]
        for k, op in enumerate(ALL_OPS):
            for i, a in enumerate(comp):
                for j, b in enumerate(pool[::3] + comp):
                    if tier == "quick" and (i + j + k) % 2:
                        continue
                    yield {"recipe": mk(op, a, b)}
                    yield {"recipe": mk(op, b, a)}

    def strategy(self, tier):
        return strategies().map(lambda r: {"recipe": r})

    def setup_worker(self, tier):
        activate_extra_findings(self)

    # ---------------------------------------------------------------- driver
    def run(self, stmts, timeout=None):
        if self.drv is None:
            self.drv = engine.Driver(self.variant, self.exe, self.timeout,
                                     env={"ASAN_OPTIONS": engine.ASAN_OPTIONS + ":hard_rss_limit_mb=4000"})
        return self.drv.run(stmts, timeout)

    # ---------------------------------------------------------------- judge
    def judge(self, case):
        """case: {"recipe": set recipe[, "only_root": true]} (only_root: the operands are built but only the
        outermost operation is judged - used by reproducers that isolate one root cause)"""
        if "recipes" in case:
            for r in case["recipes"]:
                self.judge_recipe(r, bool(case.get("only_root")))
        else:
            self.judge_recipe(case["recipe"], bool(case.get("only_root")))

    # -- operations that do not return (hang) or kill the process (unbounded recursion) are looked for node by node
    def may_hang(self, recipe):
        """may reach Interval(+-oo endpoint) n Integers/Naturals/Naturals0, which enumerates the integers of
        the interval: cannot terminate"""
        lv = leaves_of(recipe)
        unb = any(l[0] == "interval" and (l[1][0] in ("oo", "noo") or l[2][0] in ("oo", "noo")) for l in lv)
        ints = any(l[0] in ("integers", "naturals", "naturals0") for l in lv)
        return unb and ints

    def may_recurse(self, recipe, nops):
        lv = leaves_of(recipe)
        heads = set(l[0] for l in lv)
        if "imageset" in heads:
            return True
        if "conditionset" in heads:
            return nops >= 2 or bool(heads & set(setref.NUMSETS))
        return bool(heads & set(setref.NUMSETS)) and nops >= 2

    def build_carefully(self, nodes):
        """build the nodes one by one; before each operation the known process-killing / non-terminating
        operand patterns are excluded (when their finding is active) -> (hung, dead)"""
        hung, dead = {}, set()
        dumps = [None] * len(nodes)
        for i, nd in enumerate(nodes):
            if any(k in dead for k in nd["kids"]):
                dead.add(i)
                continue
            kd = [dumps[k] for k in nd["kids"]]
            if nd["op"] in ALL_OPS:
                ct = [t for t in crash_tags(nd["op"], kd) if self.tag_active(t)]
                if ct:
                    self.skip("known:" + ct[0])
                    dead.add(i)
                    continue
                if self.tag_active("interval_integers_unbounded") and hang_risk(kd):
                    self.skip("known:interval_integers_unbounded")
                    dead.add(i)
                    continue
            stmts = []
            for j in range(i):
                stmts.append(["let", ["emptyset"] if j in dead else nodes[j]["stmt"]])
            stmts.append(nd["stmt"])
            try:
                r = self.run(stmts, timeout=6.0)[-1]
            except DriverTimeout:
                hung[i] = kd
                dead.add(i)
                continue
            if is_exc(r) or B(r) is None:
                dead.add(i)      # reported / counted by the main pass
                dumps[i] = None
                if is_exc(r):
                    self.skip("assert_seen" if r["exc"] == "VerifAssertFailure" else "declined:" + r["exc"])
                continue
            dumps[i] = B(r)
        return hung, dead

    def judge_recipe(self, recipe, only_root=False):
        nodes = flatten(recipe)
        n = len(nodes)
        root = n - 1
        ops = sum(1 for nd in nodes if nd["op"] in ALL_OPS)
        hung, dead = {}, set()
        if self.may_hang(recipe) or (any(self.tag_active(t) for t in CRASH_TAGS) and self.may_recurse(recipe, ops)):
            self.cls("built_node_by_node")
            hung, dead = self.build_carefully(nodes)
            for i, kd in hung.items():
                nd = nodes[i]
                if hang_risk(kd):
                    raise Violation("%s does not return: intersecting an interval that has an infinite endpoint with "
                                    "Integers/Naturals/Naturals0 enumerates the integers of the interval without bound"
                                    % engine.sx(nd["recipe"]),
                                    {"node": nd["recipe"], "operands": kd, "kind": "hang", "op": nd["op"],
                                     "oracle": "termination"})
                self.skip("timeout")
        # models and probes from the recipe
        models = [None] * n
        for i, nd in enumerate(nodes):
            models[i] = combine(nd, [models[k] for k in nd["kids"]])
        probes = setref.probes([models[root]])
        stmts = [["emptyset"] if i in dead else nd["stmt"] for i, nd in enumerate(nodes)]
        pv = len(stmts)
        stmts.append(["let", ["list"] + [point_recipe(p) for p in probes]])
        cbase = len(stmts)
        for i in range(n):
            stmts.append(["contains_vec", R(i), R(pv)])
        tbase = len(stmts)
        do_topo = setref.real_algebra(models[root]) and root not in dead
        if do_topo:
            for t in TOPO:
                stmts.append([t, R(root)])
        res = self.run(stmts)

        self.cls("root:" + nodes[root]["op"])
        self.cls("operators:%d" % min(ops, 6))
        for l in leaves_of(recipe):
            self.cls("leaf:" + l[0])
        failed = set(dead)
        dumps = [None] * n
        for i, nd in enumerate(nodes):
            if i in failed or any(k in failed for k in nd["kids"]):
                failed.add(i)
                continue
            r = res[i]
            if is_exc(r):
                failed.add(i)
                self.skip("assert_seen" if r["exc"] == "VerifAssertFailure" else "declined:" + r["exc"])
                continue
            d = B(r)
            if d is None:
                raise Violation("set operation returned a non-Basic value", {"node": nd["recipe"], "result": r})
            dumps[i] = d
            if only_root and i != root:
                continue
            kd = [dumps[k] for k in nd["kids"]]
            self.judge_node(nd, kd, d, term_from_dump(d), models[i], probes, res[cbase + i], i == root)
        if root in failed:
            return
        self.cls("result:" + dumps[root][0])
        self.nontrivial_rule(recipe, nodes, models, probes, ops)
        if do_topo:
            self.judge_topology(recipe, models[root], dumps[root], res[tbase:tbase + len(TOPO)])
        self.sample({"recipe": engine.sx(recipe), "result": dumps[root]})

    # ---------------------------------------------------------------- per node
    def judge_node(self, nd, kd, d, dt, model, probes, cv, is_root):
        """membership of every probe in the returned object (structure) and by contains() against the model"""
        extra = []
        if nd["kids"]:
            # the returned object may have new critical values: probe them too (structure oracle only)
            seen = set(probes)
            extra = [p for p in setref.probes([dt], limit=64) if p not in seen]
        cvr = cv.get("r") if isinstance(cv, dict) and not is_exc(cv) else None
        excs = {e[0]: e[1] for e in cv.get("errs", [])} if cvr is not None else {}
        kts = [term_from_dump(k) for k in kd]
        for idx, p in enumerate(list(probes) + extra):
            exp = member(model, p)
            if exp is None:
                self.skip("undecided_by_model")
                continue
            self.count()
            sem = member(dt, p)
            if sem is None:
                self.skip("structure_undecided")
            elif sem != exp:
                raise Violation(self.describe(nd, kd, d, p, exp, "the returned set %s it (read from its structure)"
                                              % ("contains" if sem else "does not contain")),
                                self.detail(nd, kd, kts, d, p, exp, "structure"))
            if idx >= len(probes) or cvr is None:
                continue
            c = cvr[idx]
            if c == "x":
                cls = excs.get(idx, next(iter(excs.values()), "exception"))
                self.skip("contains:assert_seen" if cls == "VerifAssertFailure" else "contains:declined:" + cls)
            elif c == "?":
                self.cls("contains:unevaluated")
            else:
                self.cls("contains:definite")
                if (c == "1") != exp:
                    raise Violation(self.describe(nd, kd, d, p, exp, "contains() answered %s" % (c == "1")),
                                    self.detail(nd, kd, kts, d, p, exp, "contains"))

    def describe(self, nd, kd, d, p, exp, got):
        if nd["kids"]:
            what = "%s applied to %s returned %s" % (nd["op"], " , ".join(engine.json.dumps(k) for k in kd),
                                                     engine.json.dumps(d))
        else:
            what = "%s is %s" % (engine.sx(nd["recipe"]), engine.json.dumps(d))
        return "%s: the point %s %s by the operands' memberships, but %s" % (
            what, point_str(p), "belongs to the result" if exp else "does not belong to the result", got)

    def detail(self, nd, kd, kts, d, p, exp, oracle):
        return {"node": nd["recipe"], "op": nd["op"], "operands": kd, "result": d, "probe": point_str(p),
                "probe_kind": p[0], "expected": exp, "oracle": oracle,
                "operand_membership": [member(t, p) for t in kts]}

    # ---------------------------------------------------------------- topology
    def judge_topology(self, recipe, model, d, res):
        try:
            pc = setref.Pieces(model)
        except ValueError:
            self.skip("topology_undecided")
            return
        for name, r in zip(TOPO, res):
            if is_exc(r):
                self.skip("assert_seen" if r["exc"] == "VerifAssertFailure" else "%s:declined:%s" % (name, r["exc"]))
                continue
            rd = B(r)
            if rd is None:
                self.skip(name + ":no_value")
                continue
            self.cls("topology:" + name)
            if name in ("sup", "inf"):
                exp = pc.sup() if name == "sup" else pc.inf()
                if exp is None:
                    self.skip(name + ":empty_set")
                    continue
                got = setref.point_from_dump(rd)
                if got[0] not in ("q", "oo"):
                    self.skip(name + ":unevaluated")
                    continue
                if got[0] == "oo" and has_infinite_member(d):
                    # +-oo is an element / a closed endpoint of the returned set: membership of +-oo is not judged
                    self.skip(name + ":infinite_member")
                    continue
                self.count()
                e = exp if isinstance(exp, tuple) else ("q", exp)
                if got != e:
                    raise Violation("%s(%s) = %s, but the %s of the set %s (= %s) is %s"
                                    % (name, engine.json.dumps(d), point_str(got),
                                       "supremum" if name == "sup" else "infimum", engine.sx(recipe),
                                       engine.json.dumps(d), point_str(e)),
                                    {"node": recipe, "op": name, "operands": [d], "result": rd, "oracle": "topology"})
                continue
            rt = term_from_dump(rd)
            for v in pc.probe_values():
                exp = pc.expected(name, v)
                got = member(rt, ("q", v))
                if got is None:
                    self.skip("structure_undecided")
                    continue
                self.count()
                if got != exp:
                    raise Violation("%s(%s) = %s: the point %s %s the %s of the set, but the returned set %s it"
                                    % (name, engine.json.dumps(d), engine.json.dumps(rd), v,
                                       "belongs to" if exp else "does not belong to", name,
                                       "contains" if got else "does not contain"),
                                    {"node": recipe, "op": name, "operands": [d], "result": rd, "probe": str(v),
                                     "expected": exp, "oracle": "topology",
                                     "boundaries": [b for b in [B(res[TOPO.index("boundary")])] if b]
                                     + self.boundaries_of(d)})

    def boundaries_of(self, d):
        """boundary() of the set and of each of its Interval members, as returned (their element order is the
        container order the complement code walks) - evidence for the matchers only"""
        out = []
        try:
            stmts = []
            for x in dump_walk(d):
                if x[0] == "Interval":
                    e = []
                    for t in (x[1], x[2]):
                        p = setref.point_from_dump(t)
                        e.append(point_recipe(p))
                    stmts.append(["boundary", ["interval", e[0], e[1], bool(x[3]), bool(x[4])]])
            for r in self.run(stmts) if stmts else []:
                if B(r) is not None:
                    out.append(B(r))
        except Exception:
            pass
        return out

    # ---------------------------------------------------------------- non-trivial rule
    def nontrivial_rule(self, recipe, nodes, models, probes, ops):
        if ops < 2:
            return
        for nd in nodes:
            if nd["op"] not in ALL_OPS or len(nd["kids"]) < 2:
                continue
            km = [models[k] for k in nd["kids"]]
            for a in range(len(km)):
                for b in range(a + 1, len(km)):
                    A, Bm = km[a], km[b]
                    ia = [member(A, p) for p in probes]
                    ib = [member(Bm, p) for p in probes]
                    both = any(x is True and y is True for x, y in zip(ia, ib))
                    onlya = any(x is True and y is False for x, y in zip(ia, ib))
                    onlyb = any(x is False and y is True for x, y in zip(ia, ib))
                    kind = None
                    if both and onlya and onlyb:
                        kind = "partial_overlap"
                    elif A[0] == "interval" and Bm[0] == "interval" and not both:
                        kind = "disjoint_intervals"
                    else:
                        for F_, I_ in ((A, Bm), (Bm, A)):
                            if F_[0] == "finite" and I_[0] == "interval":
                                ins = [member(I_, e) for e in F_[1] if e[0] in ("q", "d", "c")]
                                if any(x is True for x in ins) and any(x is False for x in ins):
                                    kind = "finite_straddles_interval"
                    if kind:
                        self.cls("nontrivial:" + kind)
                        self.nontriv(engine.sx(recipe))
                        return


# ------------------------------------------------------------------ known findings: narrow matchers
# Each matcher recognises one recorded root cause from the failing node (operation, the dumps of the operands the
# library was given, the probe).  They are consulted only while the finding's own reproducer still fails.
def _det(v):
    return v.detail if isinstance(v.detail, dict) else {}


def _pt(d):
    p = setref.point_from_dump(d)
    return setref.rval(p) if p[0] in ("q", "d") else (float("inf") * p[1] if p[0] == "oo" else None)


def _intervals(dumps):
    out = []
    for d in dumps:
        if d is None:
            continue
        for x in dump_walk(d):
            if x[0] == "Interval":
                a, b = _pt(x[1]), _pt(x[2])
                if a is not None and b is not None:
                    out.append((a, b, x))
    return out


def _reaches_complement(det):
    """the operation complements sets: set_complement itself, interior / boundary (S \\ boundary S), or any operation
    on an operand that already is a Complement (Complement::set_union / set_intersection complement their parts)"""
    op = det.get("op")
    return op in COMPL_OPS or op in ("interior", "boundary", "closure") or "Complement" in classes_of(det.get("operands") or [])


def _container_universe(det):
    ops = det.get("operands") or []
    if det.get("op") == "set_complement" and len(ops) == 2:
        return ops[1], ops[0]
    if det.get("op") == "m_complement" and len(ops) == 2:
        return ops[0], ops[1]
    return None, None


def m_interval_complement_disjoint(case, v):
    """Interval::set_complement(Interval) when the two intervals are disjoint or only touch in an end point"""
    det = _det(v)
    if not _reaches_complement(det):
        return False
    iv = _intervals(det.get("operands") or [])
    for i in range(len(iv)):
        for j in range(len(iv)):
            if i != j and iv[i][1] <= iv[j][0]:
                return True
    return False


def m_intersection_contains_any(case, v):
    """Intersection::contains answers true when any member contains the point"""
    det = _det(v)
    if det.get("oracle") == "contains" and "Intersection" in classes_of([det.get("result")]):
        return True
    # the wrong answer is also consumed inside the library: set_intersection() and set_complement_helper() test the
    # elements of a FiniteSet with contains(), ConditionSet::set_intersection(o) puts o->contains(sym) into its
    # condition (an Intersection answers False for a symbol)
    ops = det.get("operands") or []
    cl = classes_of(ops)
    lazy = sum(1 for k in ops if k is not None for x in dump_walk(k) if x[0] in ("ConditionSet", "ImageSet", "Rationals"))
    inter = "Intersection" in cl or (det.get("op") in INTER_OPS and lazy >= 2)
    return inter and bool(cl & {"FiniteSet", "ConditionSet"})


def _unordered_finite(dumps):
    """a FiniteSet whose real elements are not stored in increasing order (the dump shows the container's order)"""
    for d in dumps:
        if d is None:
            continue
        for x in dump_walk(d):
            if x[0] == "FiniteSet":
                vals = [_pt(e) for e in x[1]]
                vals = [t for t in vals if t is not None]
                if any(a > b for a, b in zip(vals, vals[1:])):
                    return True
    return False


def m_finiteset_complement_hash_order(case, v):
    """FiniteSet::set_complement(Interval) walks the elements in container (hash) order"""
    det = _det(v)
    if not _reaches_complement(det):
        return False
    ops = list(det.get("operands") or [])
    if det.get("op") in ("interior", "boundary", "closure"):
        # interior(S) = S \\ boundary(S): the finite sets involved are the boundaries
        return _unordered_finite(det.get("boundaries") or [])
    return _unordered_finite(ops) and bool(_intervals(ops))


def m_naturals0_complement(case, v):
    """Naturals0::set_complement(universe) builds universe \\ Naturals: only the point 0 is wrong"""
    det = _det(v)
    return det.get("probe") == "0" and "Naturals0" in classes_of(det.get("operands") or [])


def m_finiteset_union_rationals_double(case, v):
    """FiniteSet::set_union(Rationals) drops floating point elements although Rationals does not contain them"""
    det = _det(v)
    if det.get("probe_kind") != "d" or det.get("expected") is not True:
        return False
    ops = det.get("operands") or []
    if "Rationals" not in classes_of(ops):
        return False
    return any(x[0] == "FiniteSet" and any(e[0] == "RealDouble" for e in x[1]) for d in ops if d for x in dump_walk(d))


def m_intersection_complement_demorgan(case, v):
    """Intersection::set_complement intersects the members' complements"""
    det = _det(v)
    c, u = _container_universe(det)
    if c is not None and "Intersection" in classes_of([c]):
        return True
    ops = det.get("operands") or []
    return det.get("op") in UNION_OPS + COMPL_OPS and "Complement" in classes_of(ops) and len(ops) >= 2


LAZY = NUMCLS | {"Complement", "ConditionSet", "ImageSet", "Intersection", "UniversalSet"}


def _union_of_lazy(u):
    """a Union with a member whose complement of a set stays an unevaluated Complement object"""
    return any(x[0] == "Union" and any(m[0] in LAZY for m in x[1]) for x in dump_walk(u))


def m_complement_union_outside_universe(case, v):
    """Complement::set_union(o) = universe \\ (container \\ o) loses the part of o outside the universe"""
    det = _det(v)
    ops = det.get("operands") or []
    if det.get("op") in UNION_OPS and "Complement" in classes_of(ops):
        return True
    # universe \\ container with a Union universe is the union of the members' parts, some of which are Complements
    c, u = _container_universe(det)
    if u is not None:
        return _union_of_lazy(u) or _union_of_lazy(c)
    return False


def m_complement_of_complement(case, v):
    """Complement::set_complement(o) = (o u universe) \\ container"""
    det = _det(v)
    if v.msg.startswith("driver crashed"):
        # Complement::set_union -> Complement::set_complement -> ... -> set_union: unbounded recursion
        return "Complement::set_complement" in ((det.get("stderr") or "") + v.msg)
    ops = det.get("operands") or []
    c, u = _container_universe(det)
    if "Complement" not in classes_of(ops):
        # universe \\ container over a Union universe unites the members' parts; parts that stay Complements
        # are united by Complement::set_union, which complements one Complement in the other's universe
        return u is not None and (_union_of_lazy(u) or _union_of_lazy(c))
    if c is not None:
        return "Complement" in classes_of([c])
    return det.get("op") in UNION_OPS + INTER_OPS


def m_interval_union_touching(case, v):
    """[a,b) u [b,c] is left as a Union of touching intervals, for which boundary() (and interior, closure built on it)
    reports the common point"""
    det = _det(v)
    if det.get("op") not in ("boundary", "interior", "closure"):
        return False
    iv = _intervals(det.get("operands") or [])
    return any(a[1] == b[0] and (not a[2][4] or not b[2][3]) for a in iv for b in iv if a is not b)


def m_imageset_complement_swapped(case, v):
    """ImageSet::set_complement(o) returns imageset \\ o"""
    det = _det(v)
    if v.msg.startswith("driver crashed"):
        rs = case.get("recipes") or [case.get("recipe")]
        return any(sum(1 for l in leaves_of(r) if l[0] == "imageset") >= 2 for r in rs)
    c, u = _container_universe(det)
    return c is not None and "ImageSet" in classes_of([c])


def m_intersection_union_distribution(case, v):
    """Intersection::set_union distributes the union over its members and set_intersection() distributes the
    intersection over the resulting Unions, back and forth until the stack overflows"""
    if not v.msg.startswith("driver crashed"):
        return False
    err = (_det(v).get("stderr") or "") + v.msg
    return "Intersection::set_union" in err


def m_numberset_recursion(case, v):
    """unbounded recursion between the number sets' / ImageSet's fallbacks and the free set_union/set_intersection"""
    if not v.msg.startswith("driver crashed"):
        return False
    err = (_det(v).get("stderr") or "") + v.msg
    if "stack-overflow" not in err and "ABORTING" not in err:
        return False
    rs = case.get("recipes") or [case.get("recipe")]
    heads = set(l[0] for r in rs for l in leaves_of(r))
    return bool(heads & (set(setref.NUMSETS) | {"imageset"}))


C27.matchers = {
    "interval_complement_disjoint": m_interval_complement_disjoint,
    "intersection_contains_any": m_intersection_contains_any,
    "finiteset_complement_hash_order": m_finiteset_complement_hash_order,
    "naturals0_complement": m_naturals0_complement,
    "finiteset_union_rationals_double": m_finiteset_union_rationals_double,
    "intersection_complement_demorgan": m_intersection_complement_demorgan,
    "complement_union_outside_universe": m_complement_union_outside_universe,
    "complement_of_complement": m_complement_of_complement,
    "interval_union_touching": m_interval_union_touching,
    "imageset_complement_swapped": m_imageset_complement_swapped,
    "numberset_recursion": m_numberset_recursion,
    "intersection_union_distribution": m_intersection_union_distribution,
}

if __name__ == "__main__":
    sys.exit(engine.main(C27))
