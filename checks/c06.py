"""C06 Mixed-kind number arithmetic is commutative and obeys oo/nan rules."""
import os
import sys
from fractions import Fraction

sys.path.insert(0, os.path.join(os.path.dirname(os.path.abspath(__file__)), ".."))
from hypothesis import strategies as st
from pbt import engine, gen
from pbt.engine import Check, Violation, R, B, is_exc, hexf

INF = float("inf")
NANF = float("nan")

# representative values per kind (recipe form)
REPS = {
    "Integer": [["integer", n] for n in (0, 1, -1, 2, -2, 3, 2 ** 70, -(2 ** 70))],
    "Rational": [["rational", 1, 2], ["rational", -1, 2], ["rational", 3, 2], ["rational", -3, 2], ["rational", 1, 3]],
    "Complex": [["complex", ["integer", 0], ["integer", 1]], ["complex", ["integer", 0], ["integer", -2]],
                ["complex", ["integer", 1], ["integer", 1]], ["complex", ["rational", 1, 2], ["rational", -3, 2]],
                ["complex", ["integer", -1], ["integer", -1]]],
    "RealDouble": [["real_double", f] for f in (0.0, -0.0, 1.0, -1.0, 1.5, -1.5, 0.5, 2.0, INF, -INF, NANF, 1e308, 5e-324)],
    "ComplexDouble": [["complex_double", 1.5, 0.5], ["complex_double", 0.0, 1.0], ["complex_double", -2.0, -0.25],
                      ["complex_double", 0.0, 0.0]],
    "Infty": [["oo"], ["noo"], ["zoo"]],
    "NaN": [["nan"]],
}
FREE = ["add", "sub", "mul", "div", "pow"]
METH = ["addnum", "subnum", "mulnum", "divnum", "pownum"]
BASE = {"addnum": "add", "subnum": "sub", "mulnum": "mul", "divnum": "div", "pownum": "pow"}


def kind(r):
    h = r[0]
    return {"integer": "Integer", "rational": "Rational", "complex": "Complex", "real_double": "RealDouble",
            "complex_double": "ComplexDouble", "oo": "Infty", "noo": "Infty", "zoo": "Infty", "nan": "NaN"}[h]


def fl(x):
    return x if isinstance(x, float) else hexf(x[1]) if isinstance(x, list) else float(x)


def info(r):
    """(kind, finite?, exact?, zero?, sign for reals or None)"""
    k = kind(r)
    if k == "Integer":
        return k, True, True, r[1] == 0, (r[1] > 0) - (r[1] < 0)
    if k == "Rational":
        return k, True, True, False, 1 if r[1] > 0 else -1
    if k == "Complex":
        return k, True, True, False, None
    if k == "RealDouble":
        f = fl(r[1])
        fin = f == f and abs(f) != INF
        return k, fin, False, f == 0, ((f > 0) - (f < 0)) if f == f else None
    if k == "ComplexDouble":
        a, b = fl(r[1]), fl(r[2])
        fin = a == a and b == b and abs(a) != INF and abs(b) != INF
        return k, fin, False, a == 0 and b == 0, None
    if k == "Infty":
        return k, False, True, False, {"oo": 1, "noo": -1, "zoo": 0}[r[0]]
    return k, False, True, False, None


def big_exact(r):
    """exact number whose use as an exponent (of an exact base) would build an astronomically large result"""
    if r[0] == "integer":
        return abs(r[1]) > 64
    if r[0] == "rational":
        return abs(r[1]) > 64 or abs(r[2]) > 64
    if r[0] == "complex":
        return big_exact(r[1]) or big_exact(r[2])
    return False


def norm(d):
    """dump with the sign of double NaNs removed (NaN payload/sign is not part of the value)"""
    if isinstance(d, list):
        return [norm(x) for x in d]
    if d == "-nan":
        return "nan"
    return d


ZOO = ["Infty", ["Integer", "0"]]
NAN = ["NaN"]


def infty_dump(s):
    return ["Infty", ["Integer", str(s)]]


class C06(Check):
    pid = "C06"
    timeout = 15.0
    exhaustive = True
    rule = ("ordered pairs (a, b) of numbers over the representative table of every kind (Integer incl. multi-limb, "
            "Rational, Complex, RealDouble incl. +-0.0/+-inf/nan/extremes, ComplexDouble, oo, -oo, zoo, nan; 39 values, "
            "all 1521 ordered pairs, exhaustively) x {add sub mul div pow} as free functions and as Number methods, "
            "plus Hypothesis-generated values per kind. Judged: a+b == b+a, a*b == b*a (dump equality); symbolic nan "
            "absorbs; oo + -oo, oo - oo, 0*oo -> nan; nonzero finite real factor/divisor keeps or flips the direction; "
            "nonzero exact / exact 0 -> zoo; finite float (+,-,*,/) finite number is inexact (documented exception: "
            "exact 0 times/over a float is exact 0). Non-trivial: ordered pair of two different kinds; distinct by (op, a, b).")
    assumptions = ["an exception in either order declines the pair (asymmetric throwing is recorded, not reported)",
                   "sign and payload of double NaNs are ignored", "x**0 == 1 and 1**x are conventions outside the judged rules"]
    tiers = {"quick": {"examples": 1200}, "thorough": {"examples": 200000}}

    def enumerate(self, tier):
        allv = [v for k in REPS for v in REPS[k]]
        for a in allv:
            yield {"pairs": [[a, b] for b in allv]}

    def strategy(self, tier):
        fl_ = st.one_of(gen.real_double(special=True).map(lambda r: r), gen.real_double())
        val = st.one_of(gen.integer(), gen.rational(), gen.gaussian(), fl_, gen.complex_double(),
                        st.sampled_from(REPS["Infty"] + REPS["NaN"]),
                        st.sampled_from([v for k in REPS for v in REPS[k]]))
        return st.fixed_dictionaries({"pairs": st.lists(st.tuples(val, val).map(list), min_size=1, max_size=8)})

    def judge(self, case):
        stmts = []
        plan = []
        for a, b in case["pairs"]:
            powok = not (big_exact(a) and info(b)[2]) and not (big_exact(b) and info(a)[2])
            ia = len(stmts)
            stmts.append(["let", a])
            stmts.append(["let", b])
            ops = {}
            for op in FREE + METH:
                if BASE.get(op, op) == "pow" and not powok:
                    self.skip("resource:huge_exact_power")
                    continue
                ops[op] = (len(stmts), len(stmts) + 1)
                stmts.append([op, R(ia), R(ia + 1)])
                stmts.append([op, R(ia + 1), R(ia)])
            plan.append((a, b, ops))
        if not stmts:
            return
        res = self.run(stmts)
        for a, b, ops in plan:
            for op, (i, j) in ops.items():
                self.check_one(op, a, b, res[i], res[j])

    def check_one(self, op, a, b, r_ab, r_ba):
        self.count()
        base = BASE.get(op, op)
        ka, fa, ea, za, sa = info(a)
        kb, fb, eb, zb, sb = info(b)
        self.cls(op)
        desc = "%s(%s, %s)" % (op, engine.sx(a), engine.sx(b))
        if is_exc(r_ab):
            self.skip("assert_seen" if r_ab["exc"] == "VerifAssertFailure" else "declined:" + r_ab["exc"])
            if not is_exc(r_ba) and base in ("add", "mul"):
                self.cls("asymmetric_exception")
            return
        got = norm(B(r_ab))
        if ka != kb:
            self.nontriv((op, a, b))
        self.sample({"op": op, "a": engine.sx(a), "b": engine.sx(b), "result": got})

        def bad(why, expected=None):
            raise Violation("%s returned %s: %s" % (desc, got, why), {"op": op, "a": a, "b": b, "got": got, "expected": expected})

        # J1 commutativity
        if base in ("add", "mul") and not is_exc(r_ba):
            other = norm(B(r_ba))
            if other != got:
                bad("operands swapped give %s (not commutative)" % (other,), other)
        # J2 nan absorbs
        if ka == "NaN" or kb == "NaN":
            if base in ("add", "sub", "mul", "div"):
                if got != NAN:
                    bad("nan must absorb the operation", NAN)
            elif kb == "NaN":
                if got != NAN:
                    bad("x**nan must be nan", NAN)
            elif ka == "NaN" and not zb:
                if got != NAN:
                    bad("nan**y (y != 0) must be nan", NAN)
            return
        # J3 / J4 infinities
        if ka == "Infty" and kb == "Infty":
            if base == "add" and {sa, sb} == {1, -1} and got != NAN:
                bad("oo + -oo must be nan", NAN)
            if base == "sub" and sa == sb and sa != 0 and got != NAN:
                bad("oo - oo must be nan", NAN)
            return
        if ka == "Infty" or kb == "Infty":
            s_inf, other, o_is_b = (sa, b, True) if ka == "Infty" else (sb, a, False)
            ko, fo, eo, zo, so = info(other)
            if base == "mul":
                if zo and eo:
                    if got != NAN:
                        bad("exact 0 * infinity must be nan", NAN)
                elif fo and so is not None and so != 0 and ko in ("Integer", "Rational", "RealDouble"):
                    exp = infty_dump(s_inf * so)
                    if got != exp:
                        bad("a nonzero finite real factor keeps/flips the direction by its sign", exp)
            if base == "div" and o_is_b and fo and so is not None and so != 0 and ko in ("Integer", "Rational", "RealDouble"):
                exp = infty_dump(s_inf * so)
                if got != exp:
                    bad("infinity divided by a nonzero finite real keeps/flips the direction by its sign", exp)
            return
        # J5 exact / exact zero
        if base == "div" and ea and eb and zb:
            exp = NAN if za else ZOO
            if got != exp:
                bad("exact x / exact 0 must be %s" % ("nan" if za else "zoo"), exp)
            return
        # J6 finite float with finite number is never exact
        if base in ("add", "sub", "mul", "div") and fa and fb and (not ea or not eb):
            if got[0] in ("RealDouble", "ComplexDouble"):
                return
            if base == "div" and zb:
                return  # x / 0.0, x / 0: zoo or nan
            if base in ("mul", "div") and za and ea and got == ["Integer", "0"]:
                self.cls("exact_zero_times_float")
                return  # documented: exact 0 * float == 0 (real_double.h mulreal(Integer))
            if base == "mul" and zb and eb and got == ["Integer", "0"]:
                self.cls("exact_zero_times_float")
                return
            bad("an operation between a finite float and a finite number must not return an exact number")

    matchers = {}


if __name__ == "__main__":
    sys.exit(engine.main(C06))
