"""C14 LLVM-compiled functions compute the expression's value (LLVMDoubleVisitor / LLVMFloatVisitor /
LLVMLongDoubleVisitor: init(inputs, outputs, symbolic_cse, opt_level), call, dumps / loads).  Build variant `opt`."""
import json
import math
import os
import re
import sys
from fractions import Fraction

sys.path.insert(0, os.path.join(os.path.dirname(os.path.abspath(__file__)), ".."))
from hypothesis import strategies as st
from mpmath import mp, mpf, mpc
from pbt import engine, gen
from pbt.engine import Check, Violation, B, F, R, is_exc
from pbt import oracle_num as on
from pbt import evalnum as en
from pbt import optnum as opn
from pbt.oracle_num import Unjudgeable

# ---- node list read from symengine/llvm_double.cpp / llvm_double.h
# LLVMVisitor::bvisit overloads (llvm_double.cpp:356-1027)
BASE_NODES = ["Symbol", "Integer", "Rational", "RealDouble", "RealMPFR", "Add", "Mul", "Pow", "Log", "Abs", "Constant",
              "Sin", "Cos", "Piecewise", "BooleanAtom", "And", "Or", "Xor", "Not", "Equality", "Unequality", "LessThan",
              "StrictLessThan", "Max", "Min", "Contains", "Infty", "Floor", "Ceiling", "Truncate", "Sign",
              "UnevaluatedExpr"]
# external libm calls, SYMENGINE_MACRO_EXTERNAL_FUNCTION (llvm_double.cpp:799-813), suffix "" / "f" / "l"
EXT_NODES = ["Tan", "ASin", "ACos", "ATan", "ATan2", "Sinh", "Cosh", "Tanh", "ASinh", "ACosh", "ATanh", "Gamma", "LogGamma",
             "Erf", "Erfc"]
# RewriteTrigVisitor (visitor.h:364-418): rewritten through 1/f and f(1/x) before code generation
REWRITE_NODES = ["Cot", "Csc", "Sec", "ACot", "ACsc", "ASec", "Coth", "Csch", "Sech", "ACoth", "ACsch", "ASech"]
# NaN has a bvisit too; its value is a NaN by definition and is not generated.

TYPES = ["double", "float", "long double"]
UNARY = ["neg", "sqrt", "cbrt", "exp", "sin", "cos", "tan", "cot", "csc", "sec", "asin", "acos", "asec", "acsc",
         "atan", "acot", "sinh", "csch", "cosh", "sech", "tanh", "coth", "asinh", "acsch", "acosh", "atanh",
         "acoth", "asech", "log", "abs", "unevaluated_expr",
         "gamma", "loggamma", "erf", "erfc", "sign", "floor", "ceiling", "truncate"]
TRANSCENDENTAL = {"Sin", "Cos", "Tan", "Cot", "Csc", "Sec", "ASin", "ACos", "ATan", "ACot", "ACsc", "ASec", "Sinh", "Cosh",
                  "Tanh", "Coth", "Csch", "Sech", "ASinh", "ACosh", "ATanh", "ACoth", "ACsch", "ASech", "Log", "Gamma",
                  "LogGamma", "Erf", "Erfc", "ATan2"}
BRANCHING = {"Piecewise", "Equality", "Unequality", "LessThan", "StrictLessThan", "Contains", "And", "Or", "Xor", "Not",
             "Sign", "Max", "Min"}
BINARY = ["add", "sub", "mul", "div", "pow"]
RELS = ["Eq", "Ne", "Lt", "Le", "Gt", "Ge"]
NAMES = ["x", "y", "x0", "x1", "z", "x2", "t", "x0", "x1"]   # x0, x1, x2 are the names CSE gives its temporaries

I = lambda n: ["integer", n]
Q = lambda a, b: gen._rat(a, b)
L = lambda *a: ["list"] + list(a)
CSE_TEMP = re.compile(r"^x[0-9]+$")
# known-finding tags (GUIDE "Known findings protocol"): an exclusion is applied iff self.tag_active(tag)
TAG_TEMP = "llvm_cse_temp_named_like_unused_input"       # KF-C14-01
TAG_STALE = "llvm_stale_symbols_after_throwing_init"      # KF-C14-02 (crasher: excluded by construction)


def numbers():
    small = st.integers(-6, 6).map(I)
    rat = st.builds(Q, st.integers(-12, 12), st.integers(1, 6))
    dbl = st.sampled_from(gen.FLOAT_POOL[:6] + [-0.75, 2.0, 1.0]).map(lambda f: ["real_double", f])
    con = st.sampled_from(["pi", "E", "EulerGamma", "Catalan", "GoldenRatio"]).map(lambda n: ["constant", n])
    big = st.sampled_from([2 ** 24 + 1, 2 ** 53 + 1, -(2 ** 64 + 3), 10 ** 22 + 7]).map(I)
    return en.weighted([(4, small), (3, rat), (2, dbl), (2, con), (1, big)])


def tree(max_leaves, refs=True):
    """trees over placeholders ["sym", k] (input symbol k) and ["ref", k] (shared sub-expression k)"""
    sym = st.integers(0, 7).map(lambda k: ["sym", k])
    leaves = [(6, sym), (2, numbers())]
    if refs:
        leaves.append((6, st.integers(0, 3).map(lambda k: ["ref", k])))
    leaf = en.weighted(leaves)

    def ext(ch):
        rel = st.builds(lambda o, a, b: [o, a, b], st.sampled_from(RELS), ch, ch)
        lo = st.one_of(st.just(["noo"]), st.integers(-8, 0).map(lambda n: Q(n, 2)))
        hi = st.one_of(st.just(["oo"]), st.integers(1, 8).map(lambda n: Q(n, 2)))
        cont = st.builds(lambda e, a, b, lo_, ro_: ["contains", e, ["interval", a, b, lo_, ro_]], ch, lo, hi,
                         st.booleans(), st.booleans())
        atom = en.weighted([(4, rel), (2, cont), (1, st.sampled_from([["true"], ["false"]]))])
        logic = en.weighted([
            (2, atom),
            (3, st.builds(lambda o, xs: [o, L(*xs)], st.sampled_from(["and", "or", "xor"]),
                          st.lists(atom, min_size=2, max_size=3))),
            (1, st.builds(lambda a: ["not", a], atom))])
        pw = st.builds(lambda ps, last: ["piecewise", L(*([L(e, c) for e, c in ps] + [L(last, ["true"])]))],
                       st.lists(st.tuples(ch, logic), min_size=1, max_size=3), ch)
        return en.weighted([
            (8, st.builds(lambda o, a: [o, a], st.sampled_from(UNARY), ch)),
            (4, st.builds(lambda o, a, b: [o, a, b], st.sampled_from(BINARY), ch, ch)),
            (2, st.builds(lambda a, n: ["pow", a, I(n)], ch, st.integers(-4, 5))),
            (1, st.builds(lambda a, q: ["pow", a, q], ch, st.builds(Q, st.integers(-5, 7), st.integers(2, 4)))),
            (1, st.builds(lambda b, a: ["pow", b, a], st.sampled_from([I(2), ["constant", "E"], I(3), Q(1, 2)]), ch)),
            (1, st.builds(lambda o, xs: [o, L(*xs)], st.sampled_from(["add_vec", "mul_vec"]),
                          st.lists(ch, min_size=2, max_size=3))),
            (1, st.builds(lambda a, b: ["atan2", a, b], ch, ch)),
            (1, st.builds(lambda o, xs: [o, L(*xs)], st.sampled_from(["max", "min"]),
                          st.lists(ch, min_size=2, max_size=3))),
            (2, pw), (2, logic)])
    return st.recursive(leaf, ext, max_leaves=max_leaves)


def resolve(t, used, shared):
    """placeholders -> symbols / shared sub-expressions (the same python object: structurally identical)"""
    if not isinstance(t, list):
        return t
    if t[0] == "sym":
        return ["symbol", used[t[1] % len(used)]]
    if t[0] == "ref":
        if not shared:
            return ["symbol", used[t[1] % len(used)]]
        return shared[t[1] % len(shared)]
    return [t[0]] + [resolve(x, used, shared) for x in t[1:]]


def with_mpfr_leaf(r, prec):
    """replace the first real_double leaf of a (repaired) recipe by a RealMPFR leaf with the same value"""
    done = [False]

    def walk(d):
        if not isinstance(d, list) or not d:
            return d
        if d[0] == "real_double" and not done[0] and isinstance(d[1], float) and math.isfinite(d[1]):
            done[0] = True
            return ["real_mpfr", d[1].hex(), prec]
        return [d[0]] + [walk(x) for x in d[1:]]
    return walk(r)


BAD_KINDS = ["fsym", "lambertw", "zeta", "free_symbol", "free_x0", "free_x1", "pw_no_default", "contains_reals",
             "complex_leaf", "zoo"]


def bad_node(kind, s):
    """an expression the visitor must reject (s: a valid sub-expression over the inputs)"""
    if kind == "fsym":
        return ["function_symbol", "f", L(s)]
    if kind == "lambertw":
        return ["lambertw", s]
    if kind == "zeta":
        return ["zeta", s]
    if kind == "free_symbol":
        return ["add", s, ["symbol", "q_not_an_input"]]
    if kind in ("free_x0", "free_x1"):
        return ["mul", ["add", s, I(2)], ["symbol", kind[5:]]]
    if kind == "pw_no_default":
        return ["piecewise", L(L(s, ["Lt", s, I(0)]), L(["sin", s], ["Ge", s, I(0)]))]
    if kind == "contains_reals":
        return ["contains", s, ["reals"]]
    if kind == "complex_leaf":
        return ["mul", s, ["complex", I(1), I(2)]]
    return ["add", s, ["zoo"]]


def make_case(ftype, inits):
    steps = []
    for (names, m, shared_t, outs_t, cse, opt, vecs, bad, mp_leaf) in inits:
        syms = []
        for n in names:
            if n not in syms:
                syms.append(n)
        if m % 4 != 0:
            # usually the names that look like CSE temporaries are among the symbols the outputs use
            # (an *unused* input named like a temporary triggers the known finding KF-C14-01 every time)
            syms.sort(key=lambda n: 0 if CSE_TEMP.match(n) else 1)
        used = syms[:max(1, min(m, len(syms)))]
        xs = [[v[i] for i in range(len(syms))] for v in vecs]
        env = dict(zip(syms, xs[0]))
        shared = []
        for t in shared_t:
            r = en.repair(resolve(t, used, []), False, env, True)[0]
            if r[0] in ("symbol", "integer", "rational", "real_double", "constant"):
                r = en.repair(["sin", ["add", r, ["symbol", used[0]]]], False, env, True)[0]
            shared.append(r)
        outs = [en.repair(resolve(t, used, shared), False, env, True)[0] for t in outs_t]
        if mp_leaf:
            outs = [with_mpfr_leaf(outs[0], mp_leaf)] + outs[1:]
        step = {"syms": syms, "outs": outs, "cse": cse, "opt": opt, "x": xs}
        if bad is not None:
            bk, pos, wrap = bad
            if bk in ("free_x0", "free_x1") and bk[5:] in syms:
                bk = "fsym"
            o = outs[pos % len(outs)]
            node = bad_node(bk, o if o[0] not in en.BOOL_HEADS else ["symbol", used[0]])
            if wrap and bk != "contains_reals":
                node = ["add", ["sin", ["symbol", used[0]]], node]
            step["outs"] = outs[:pos % (len(outs) + 1)] + [node] + outs[pos % (len(outs) + 1):]
            step["bad"] = bk
        steps.append(step)
    return {"type": ftype, "steps": steps}


def nonatomic_subdumps(d, acc):
    if isinstance(d, list) and d:
        if isinstance(d[0], str):
            if d[0] not in ("Integer", "Rational", "RealDouble", "RealMPFR", "Symbol", "Constant", "BooleanAtom", "Infty",
                            "Interval"):
                acc.add(json.dumps(d))
            for x in d[1:]:
                nonatomic_subdumps(x, acc)
        else:
            for x in d:
                nonatomic_subdumps(x, acc)
    return acc


def free_symbols(d, acc):
    if isinstance(d, list) and d:
        if d[0] == "Symbol" and len(d) == 2 and isinstance(d[1], str):
            acc.add(d[1])
        else:
            for x in d[1:] if isinstance(d[0], str) else d:
                free_symbols(x, acc)
    return acc


def leaf_pred(ftype):
    if ftype == "long double":
        return opn.exact_leaf_p(64)
    return opn.exact_leaf_p(opn.PREC[ftype], int_exact_bits=53)


def out_values(ftype, r):
    """raw call result -> (list of exact payload texts for bit comparison, list of Fraction|'nan'|'inf'|'-inf')"""
    if ftype == "long double":
        texts = list(r)
    else:
        texts = [x["f"] for x in r]
    return texts, [opn.parse_hex(t) if t not in ("nan", "-nan", "inf", "-inf") else ("nan" if "nan" in t else t)
                   for t in texts]


class C14(Check):
    pid = "C14"
    variant = "opt"
    exe = "driver_opt"
    builds = [("opt", ("driver_opt",))]
    timeout = 60.0
    rule = ("histories of 1-3 init steps on ONE visitor object of a float type (double 3 : float 2 : long double 2; plus a "
            "deterministic table: every unary function / power form / logic form for every type).  Each step has its own "
            "input symbol vector (1-5 names from x y z t x0 x1 x2; x0.. collide with CSE temporaries; only a prefix of "
            "the inputs is used by the outputs), 1-6 outputs over LLVMVisitor's node list (llvm_double.cpp bvisit "
            "overloads + the libm externals + the RewriteTrigVisitor rewrites; integer / rational / E / 2 / symbolic "
            "powers, RealMPFR leaves, integers beyond 2^53 and 2^64) built from 0-3 shared non-atomic sub-expressions, "
            "a symbolic_cse flag, an opt_level 0-3 and 2 input vectors (odd multiples of 1/64 and 1/8: exact in every "
            "type); arguments are moved into each function's real domain at the first input vector by the evalnum repair "
            "pass.  ~1/5 of the steps are inits that must throw (FunctionSymbol, LambertW, Zeta, free symbol incl. "
            "x0/x1, Piecewise without default, Contains(Reals), Complex, zoo) at a random output position.  Per step: "
            "(a) every output at every input vector is compared with the mpmath value of the constructed output, "
            "tolerance 64 * eps(type) * E (eps 2^-53 / 2^-24 / 2^-64; E: first-order error mass over all rounding points "
            "of a p-bit node-wise evaluator, kappa > 1e4 skipped); (b) three other (symbolic_cse, opt_level) "
            "configurations compiled in fresh visitors (every step covers all four opt levels and both cse settings) "
            "agree with it to 8 ulp of the type or 2 tolerances; (c) dumps() loaded with loads() into a fresh visitor of "
            "the same type returns bit-identical outputs; (d) from the second step on, a fresh visitor given the same "
            "init behaves identically (throws iff throws, outputs bit-equal).  Known findings (tags "
            "llvm_cse_temp_named_like_unused_input, llvm_stale_symbols_after_throwing_init) are excluded narrowly only "
            "while their tag is active, counted under skipped['known:*'].  Non-trivial: a successful step whose outputs "
            "contain a transcendental call together with a Piecewise/relational/logic/sign/max/min node, or >= 2 "
            "outputs; distinct by case.")
    assumptions = ["mpmath principal branches are the reference (DESIGN 3.5)",
                   "glibc libm (double, float and x87 long double entry points) accurate to a few ulp (factor 64)",
                   "an init that throws declines; a call is only issued after a successful init/loads",
                   "LLVM 14 MCJIT resolves libm/compiler-rt symbols from the driver process"]
    tiers = {"quick": {"examples": 520, "shrink_calls": 60}, "thorough": {"examples": 30000, "shrink_calls": 150}}
    min_nontrivial = 2

    def setup_worker(self, tier):
        opn.activate_extra_findings(self)

    # ------------------------------------------------------------------ generation
    def enumerate(self, tier):
        x, y = ["sym", 0], ["sym", 1]
        sh = ["add", ["mul", x, y], Q(1, 3)]
        vecs = [[0.640625, -1.296875, 0.375, 0.25, 0.125], [1.828125, 0.421875, 0.5, 0.25, 0.75]]
        k = 0
        for ftype in TYPES:
            for f in UNARY:
                outs = [["add", [f, ["ref", 0]], I(1)], ["mul", ["cos", [f, ["ref", 0]]], y], ["ref", 0]]
                k += 1
                a = (["x", "y", "x0"][: 2 + k % 2], 2, [sh], outs, bool(k % 2), k % 4, vecs, None, 0)
                yield make_case(ftype, [a])
            # power forms: powi (incl. 2, -1, 0-free), exp, exp2, rational and symbolic exponents
            pows = [["pow", ["ref", 0], I(n)] for n in (2, 3, -1, -2, 5, 7, -3)]
            pows += [["pow", ["constant", "E"], ["ref", 0]], ["pow", I(2), ["ref", 0]], ["pow", I(3), ["ref", 0]],
                     ["pow", ["ref", 0], Q(1, 2)], ["pow", ["ref", 0], Q(-3, 2)], ["pow", ["ref", 0], y],
                     ["pow", Q(1, 2), x], ["pow", ["ref", 0], ["real_double", 2.5]]]
            for i in range(0, len(pows), 3):
                a = (["x", "y"], 2, [sh], pows[i:i + 3] + [["sin", ["ref", 0]]], bool(i % 2), (i // 3) % 4, vecs, None,
                     0)
                yield make_case(ftype, [a])
            logic = [[o, ["ref", 0], y] for o in RELS]
            c1, c2 = ["Lt", x, y], ["Ge", ["ref", 0], I(0)]
            c3 = ["contains", x, ["interval", Q(-1, 2), ["oo"], True, False]]
            c4 = ["contains", ["ref", 0], ["interval", ["noo"], Q(3, 2), False, True]]
            logic += [["and", L(c1, c2)], ["or", L(c1, c2)], ["xor", L(c1, c2, c3)], ["not", c2], ["and", L(c1, c3, c4)],
                      ["or", L(c4, ["not", c1])], ["xor", L(c1, c4)], c3, c4]
            for i, c in enumerate(logic):
                outs = [["piecewise", L(L(["sin", ["ref", 0]], c), L(["cos", ["ref", 0]], ["true"]))], c,
                        ["max", L(["ref", 0], x, y)], ["min", L(["ref", 0], ["sin", x], y)], ["atan2", ["ref", 0], y],
                        ["piecewise", L(L(x, c1), L(y, c), L(["exp", x], ["true"]))]]
                a = (["x", "y"], 2, [sh], outs, bool(i % 2), i % 4, vecs, None, 0)
                b = (["x0", "x1"], 2, [sh], outs[1:] + outs[:1], not bool(i % 2), (i + 1) % 4, [vecs[1], vecs[0]], None, 0)
                yield make_case(ftype, [a, b] if i % 3 == 0 else [a])
            # throwing init followed by a valid init on the same visitor
            for bk in ("fsym", "free_symbol", "complex_leaf"):
                outs = [["add", ["sin", ["ref", 0]], I(1)], ["cos", ["sin", ["ref", 0]]]]
                a = (["y", "x"], 2, [sh], outs, True, 2, vecs, (bk, 2, False), 0)
                c = (["x", "y"], 2, [sh], outs, False, 3, vecs, None, 0)
                yield make_case(ftype, [a, c])
            # leaves: RealMPFR, big integers, every constant
            outs = [["add", x, ["real_double", 0.1]], ["mul", y, I(2 ** 53 + 1)], ["add", x, I(-(2 ** 64 + 3))],
                    ["mul", x, ["constant", "pi"]], ["add", y, ["constant", "EulerGamma"]],
                    ["mul", ["add", x, ["constant", "Catalan"]], ["constant", "GoldenRatio"]]]
            a = (["x", "y"], 2, [], outs, False, 1, vecs, None, 90)
            yield make_case(ftype, [a])

    def strategy(self, tier):
        n = 5 if tier == "quick" else 7
        vec = st.lists(st.one_of(st.integers(-128, 128).map(lambda k: (2 * k + 1) / 64.0),
                                 st.integers(-40, 40).map(lambda k: (2 * k + 1) / 8.0)), min_size=5, max_size=5)
        bad = en.weighted([(4, st.none()),
                           (1, st.tuples(st.sampled_from(BAD_KINDS), st.integers(0, 6), st.booleans()))])
        init = st.tuples(st.lists(st.sampled_from(NAMES), min_size=1, max_size=5), st.integers(1, 5),
                         st.lists(tree(3, refs=False), min_size=0, max_size=3).filter(lambda l: len(l) != 0)
                         | st.lists(tree(3, refs=False), min_size=0, max_size=1),
                         st.lists(tree(n), min_size=1, max_size=6), st.booleans(), st.integers(0, 3),
                         st.lists(vec, min_size=2, max_size=2), bad,
                         en.weighted([(5, st.just(0)), (1, st.sampled_from([24, 53, 64, 100]))]))
        ftype = st.sampled_from(["double"] * 3 + ["float"] * 2 + ["long double"] * 2)
        return st.builds(make_case, ftype, st.lists(init, min_size=1, max_size=3))

    # ------------------------------------------------------------------ judging
    def _probe(self, case):
        """which steps' inits throw (each on its own fresh visitor)?  Only used while KF-C14-02 is open: an init that
        follows a throwing init on the same visitor kills the process, so the history must know beforehand."""
        stmts, idx = [], []
        for step in case["steps"]:
            v = len(stmts)
            stmts.append(["llvm_new", case["type"]])
            o0 = len(stmts)
            stmts += step["outs"]
            idx.append(len(stmts))
            stmts.append(["llvm_init", R(v), L(*[["symbol", n] for n in step["syms"]]),
                          L(*[R(i) for i in range(o0, o0 + len(step["outs"]))]), step["cse"], step["opt"]])
        res = self.run(stmts)
        return [is_exc(res[i]) for i in idx]

    def judge(self, case):
        ftype = case["type"]
        p = opn.PREC[ftype]
        pred = leaf_pred(ftype)
        stmts = [["llvm_new", ftype]]
        plan = []
        cur = 0            # statement index of the re-used visitor
        throws = None
        if len(case["steps"]) > 1 and self.tag_active(TAG_STALE):
            throws = self._probe(case)
        for si, step in enumerate(case["steps"]):
            pl = {}
            if throws is not None and si > 0 and throws[si - 1]:
                # KF-C14-02 (crasher): an init on a visitor whose previous init threw is not issued while the
                # finding is open; the history continues on a fresh visitor
                self.skip("known:" + TAG_STALE)
                cur = len(stmts)
                stmts.append(["llvm_new", ftype])
            pl["outs"] = list(range(len(stmts), len(stmts) + len(step["outs"])))
            stmts += step["outs"]
            syms = L(*[["symbol", n] for n in step["syms"]])
            outs = L(*[R(i) for i in pl["outs"]])
            xs = [L(*v) for v in step["x"]]

            def block(obj, cse, opt, calls=True):
                b = {"init": len(stmts), "cse": cse, "opt": opt}
                stmts.append(["llvm_init", obj, syms, outs, cse, opt])
                b["calls"] = []
                for x in xs:
                    b["calls"].append(len(stmts))
                    stmts.append(["llvm_call", obj, x])
                return b
            pl["V"] = block(R(cur), step["cse"], step["opt"])
            pl["F"] = None
            if si > 0:
                f = len(stmts)
                stmts.append(["llvm_new", ftype])
                pl["F"] = block(R(f), step["cse"], step["opt"])
            pl["G"] = []
            for k in (1, 2, 3):
                g = len(stmts)
                stmts.append(["llvm_new", ftype])
                pl["G"].append(block(R(g), step["cse"] if k == 2 else not step["cse"], (step["opt"] + k) % 4))
            # dumps -> loads into a fresh visitor
            pl["dump"] = len(stmts)
            stmts.append(["llvm_dumps", R(cur)])
            stmts.append(["llvm_blob_size", R(pl["dump"])])
            h = len(stmts)
            stmts.append(["llvm_new", ftype])
            pl["load"] = len(stmts)
            stmts.append(["llvm_loads", R(h), R(pl["dump"])])
            pl["lcalls"] = []
            for x in xs:
                pl["lcalls"].append(len(stmts))
                stmts.append(["llvm_call", R(h), x])
            pl["csei"] = len(stmts)
            stmts.append(["cse", outs])
            plan.append(pl)
        try:
            res = self.run(stmts)
        except ValueError as e:
            # the response line was not JSON: LLVMVisitor::init prints llvm::verifyFunction diagnostics to stdout
            # (llvm_double.cpp:209) when it generated invalid IR; the pipe is out of sync now
            if self.drv is not None:
                self.drv.stop()
            raise Violation("the driver's response was not a protocol line (LLVM verifier diagnostics on stdout: "
                            "init generated invalid IR?): %s" % str(e)[:200], {"stmts": engine.prog(stmts)[:6000]})
        good_steps = 0
        nontrivial = False
        for si, (step, pl) in enumerate(zip(case["steps"], plan)):
            self.count()
            rv = res[pl["V"]["init"]]
            if any(is_exc(res[i]) for i in pl["outs"]):
                self.skip("construct:" + next(res[i]["exc"] for i in pl["outs"] if is_exc(res[i])))
                continue
            dumps = [B(res[i]) for i in pl["outs"]]
            tag = "%s:cse%d:O%d" % (ftype, int(step["cse"]), step["opt"])
            where = {"stmts": engine.prog(stmts)[:6000]}
            # ---- (d) re-used visitor == fresh visitor
            if pl["F"] is not None:
                rf = res[pl["F"]["init"]]
                if is_exc(rv) != is_exc(rf) and not is_exc(rv, "Dep") and not is_exc(rf, "Dep"):
                    raise Violation("init #%d (%s) on the re-used visitor %s but on a fresh visitor %s; outputs %s"
                                    % (si, tag, "throws %s" % rv if is_exc(rv) else "succeeds",
                                       "throws %s" % rf if is_exc(rf) else "succeeds", dumps), where)
            if is_exc(rv):
                if rv["exc"] == "Dep":
                    self.skip("dep")
                elif "bad" in step:
                    self.cls("throwing_init:" + step["bad"] + ":" + rv["exc"])
                elif rv["exc"] == "VerifAssertFailure":
                    self.skip("assert_seen")
                else:
                    self.skip("declined:init:" + rv["exc"])
                continue
            if "bad" in step:
                self.skip("bad_init_accepted:" + step["bad"])
            good_steps += 1
            self.cls("init:" + tag)
            heads = {}
            for d in dumps:
                en.dump_heads(d, heads)
            # ---- known finding KF-C14-01: a CSE temporary named like an input symbol the outputs do not use
            fs = set()
            for d in dumps:
                free_symbols(d, fs)
            rc = res[pl["csei"]]
            temps = set()
            if not is_exc(rc):
                for pr in rc[0]:
                    temps |= free_symbols(B(pr[0]), set())
                if rc[0]:
                    self.cls("cse_found_replacements")
            collide = bool(temps & (set(step["syms"]) - fs))
            subs = [nonatomic_subdumps(d, set()) for d in dumps]
            if any(subs[i] & subs[j] for i in range(len(subs)) for j in range(i)):
                self.cls("outputs_share_subexpr")
            if len(dumps) >= 2 or (set(heads) & TRANSCENDENTAL and set(heads) & BRANCHING):
                nontrivial = True
            rl = res[pl["load"]]
            if is_exc(rl):
                if is_exc(res[pl["dump"]]):
                    self.skip("declined:dumps:" + res[pl["dump"]]["exc"])
                else:
                    raise Violation("loads() of the object returned by dumps() (%s bytes) threw %s after init(%s); outputs %s"
                                    % (res[pl["dump"] + 1], rl, tag, dumps), where)
            for vi, x in enumerate(step["x"]):
                ov = res[pl["V"]["calls"][vi]]
                if is_exc(ov):
                    self.skip("declined:call:" + ov["exc"])
                    continue
                tv, gv = out_values(ftype, ov)
                if len(gv) != len(dumps):
                    raise Violation("call returned %d outputs for %d output expressions" % (len(gv), len(dumps)), where)
                # (d) history == fresh, bit for bit
                if pl["F"] is not None:
                    of = res[pl["F"]["calls"][vi]]
                    if is_exc(of):
                        raise Violation("call after init #%d: re-used visitor gives %s, fresh visitor gives %s"
                                        % (si, ov, of), where)
                    tf, _ = out_values(ftype, of)
                    self.count()
                    if tf != tv:
                        raise Violation("after the history, outputs at %s are %s; a fresh visitor with the same init(%s) "
                                        "gives %s; outputs %s" % (x, tv, tag, tf, dumps), where)
                # (c) dumps/loads round trip, bit for bit
                if not is_exc(rl):
                    ol = res[pl["lcalls"][vi]]
                    self.count()
                    if is_exc(ol):
                        raise Violation("call on the reloaded function threw %s (original returned %s); init(%s), outputs %s"
                                        % (ol, tv, tag, dumps), where)
                    tl, _ = out_values(ftype, ol)
                    if tl != tv:
                        raise Violation("the function reloaded with loads(dumps()) returns %s at %s, the original returns "
                                        "%s; init(%s), outputs %s" % (tl, x, tv, tag, dumps), where)
                    self.cls("reload_ok:" + ftype)
                # (a) value oracle, (b) other configurations
                env = dict(zip(step["syms"], x))
                others = []
                for g in pl["G"]:
                    rg = res[g["init"]]
                    if is_exc(rg):
                        self.skip("declined:init_other_config:" + rg["exc"])
                        continue
                    og = res[g["calls"][vi]]
                    if is_exc(og):
                        self.skip("declined:call_other_config:" + og["exc"])
                        continue
                    others.append((g, out_values(ftype, og)))
                for j, d in enumerate(dumps):
                    try:
                        ref = opn.reference_p(d, env, pred, False, margin=1e-9)
                    except Unjudgeable as u:
                        self.skip("ref:" + ":".join(u.reason.split(":")[:2]))
                        ref = None
                    got = gv[j]
                    tol = None
                    if ref is not None:
                        self.count()
                        tol = opn.tol_abs(ref, p, 64)
                        with mp.workdps(70):
                            bad = isinstance(got, str) or abs(opn.to_mpf(got) - ref.value) > tol
                        if bad:
                            if collide and step["cse"] and self.tag_active(TAG_TEMP):
                                self.skip("known:" + TAG_TEMP)
                            else:
                                raise Violation("%s visitor: output %d of init(%s) at %s = %s (%s) but the expression %s has "
                                                "the value %s (tol %.3g, kappa %.3g); inputs %s"
                                                % (ftype, j, tag, x, tv[j], got if isinstance(got, str) else float(got), d,
                                                   mp.nstr(ref.value, 25), float(tol), float(ref.kappa), step["syms"]), where)
                        else:
                            self.cls("value_ok:" + ftype)
                            self.cls("value_ok:O%d" % step["opt"])
                    for g, (tg, gg) in others:
                        a, b = got, gg[j]
                        if tg[j] == tv[j]:
                            self.count()
                            continue
                        okp = False
                        if not isinstance(a, str) and not isinstance(b, str):
                            if opn.ulps_apart(a, b, p) <= 8:
                                okp = True
                            elif tol is not None:
                                with mp.workdps(70):
                                    okp = abs(opn.to_mpf(a) - opn.to_mpf(b)) <= 2 * tol
                            else:
                                self.skip("config_pair_unjudged")
                                continue
                        elif ref is None:
                            self.skip("config_pair_unjudged")
                            continue
                        self.count()
                        if not okp:
                            if collide and (step["cse"] or g["cse"]) and self.tag_active(TAG_TEMP):
                                self.skip("known:" + TAG_TEMP)
                            else:
                                raise Violation("%s visitor: output %d at %s: init(cse=%s, opt=%d) gives %s, init(cse=%s, opt=%d) "
                                                "gives %s (value %s); output %s; inputs %s"
                                                % (ftype, j, x, step["cse"], step["opt"], tv[j], g["cse"], g["opt"], tg[j],
                                                   mp.nstr(ref.value, 25) if ref is not None else "?", d, step["syms"]), where)
            for h in heads:
                self.cls("node:" + ftype + ":" + h)
        if nontrivial:
            self.nontriv(case)
        if good_steps >= 2:
            self.cls("history_with_>=2_inits")
        if good_steps:
            st0 = case["steps"][0]
            self.sample({"type": ftype, "n_steps": len(case["steps"]), "syms": st0["syms"], "cse": st0["cse"],
                         "opt": st0["opt"], "outs": [engine.sx(o)[:200] for o in st0["outs"][:3]]})


def main():
    rc = engine.main(C14)
    if rc == 0 and "--replay" not in sys.argv:
        name = os.path.join(engine.VERIF, "evidence", "C14.json")
        if os.environ.get("VERIF_BUILD_TAG") or os.environ.get("VERIF_SCAN") or os.environ.get("VERIF_REPO"):
            name = os.path.join(engine.VERIF, "evidence", "_scratch", "C14.json")
        with open(name) as f:
            ev = json.load(f)
        cl = ev["coverage"]["classes"]
        miss = [t + ":" + n for t in TYPES for n in BASE_NODES + EXT_NODES if not cl.get("node:" + t + ":" + n)]
        print("coverage: missing node types: %s" % (miss or "none"))
        if miss:
            print("INTERNAL ERROR in check C14: node types never reached: %s (generator defect)" % miss)
            return 2
    return rc


if __name__ == "__main__":
    sys.exit(main())
