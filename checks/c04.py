"""C04 Canonical form is unique: results ignore operand order and grouping."""
import itertools
import json
import os
import sys

sys.path.insert(0, os.path.join(os.path.dirname(os.path.abspath(__file__)), ".."))
from hypothesis import strategies as st
from pbt import engine, gen
from pbt.engine import Check, Violation, R, B, is_exc

NARY = {"add": "add_vec", "mul": "mul_vec", "max": "max", "min": "min", "and": "and", "or": "or"}
BIN = {"add": "add", "mul": "mul"}  # binary constructors exist for add/mul only; the rest are n-ary by nature


def bracketings(items):
    """all full binary bracketings of the sequence (Catalan many) as nested pairs"""
    if len(items) == 1:
        return [items[0]]
    out = []
    for k in range(1, len(items)):
        for l in bracketings(items[:k]):
            for r in bracketings(items[k:]):
                out.append((l, r))
    return out


def canon(d):
    """raw dump with the iteration order of dictionaries / sets removed"""
    if not isinstance(d, list):
        return d
    t = d[0] if d else None
    if t in ("Add", "Mul"):
        return [t, canon(d[1]), sorted((canon(p) for p in d[2]), key=lambda x: json.dumps(x, sort_keys=True))]
    if t in ("FiniteSet", "Union", "Intersection", "And", "Or", "Xor") and len(d) == 2 and isinstance(d[1], list):
        return [t, sorted((canon(x) for x in d[1]), key=lambda x: json.dumps(x, sort_keys=True))]
    return [canon(x) for x in d]


def exact_number():
    return gen.weighted([(5, st.integers(-6, 6).map(lambda n: ["integer", n])),
                         (3, st.builds(gen._rat, st.integers(-9, 9), st.integers(2, 6))),
                         (2, gen.gaussian(big=False)),
                         (1, gen.integer())])


def core():
    s = gen.sym(["x", "y", "z"])
    radical = st.builds(lambda b, p, q: ["pow", ["integer", b], gen._rat(p, q)], st.sampled_from([2, 3, 5, 6, 8, 12, -2, -3]),
                        st.integers(-5, 5).filter(bool), st.sampled_from([2, 3, 4, 6]))
    sympow = st.builds(lambda b, e: ["pow", b, e], s,
                       st.one_of(st.integers(-3, 3).filter(lambda n: n not in (0, 1)).map(lambda n: ["integer", n]),
                                 st.builds(gen._rat, st.integers(-5, 5).filter(bool), st.sampled_from([2, 3]))))
    fn = st.builds(lambda f, a: [f, a], st.sampled_from(["sin", "cos", "exp", "log", "abs", "gamma"]), s)
    fs = st.builds(lambda a: ["function_symbol", "f", ["list", a]], s)
    const = gen.constant(("pi", "E", "I", "EulerGamma"))
    return gen.weighted([(5, s), (3, radical), (3, sympow), (2, fn), (1, fs), (2, const)])


def operand(op):
    if op in ("and", "or"):
        s = gen.sym(["x", "y"])
        n = st.integers(-2, 2).map(lambda k: ["integer", k])
        rel = st.builds(lambda o, a, b: [o, a, b], st.sampled_from(["Lt", "Le", "Eq", "Ne", "Gt", "Ge"]), s, st.one_of(s, n))
        con = st.builds(lambda a, lo, hi: ["contains", a, ["interval", ["integer", lo], ["integer", lo + hi], False, True]],
                        s, st.integers(-2, 2), st.integers(1, 3))
        atom = st.one_of(rel, rel, con, st.sampled_from([["true"], ["false"]]))
        return st.one_of(atom, atom, st.builds(lambda a: ["not", a], atom),
                         st.builds(lambda o, a, b: [o, ["list", a, b]], st.sampled_from(["and", "or"]), atom, atom))
    c = core()
    term = st.builds(lambda k, x: ["mul", k, x], exact_number(), c)           # coefficient * core
    prod = st.builds(lambda x, y: ["mul", x, y], c, c)
    summ = st.builds(lambda x, y: ["add", x, y], c, st.one_of(c, exact_number()))
    powsum = st.builds(lambda x, y, n: ["pow", ["add", x, y], ["integer", n]], c, c, st.integers(-2, 3).filter(lambda n: n not in (0, 1)))
    if op in ("max", "min"):
        real = gen.weighted([(4, st.integers(-6, 6).map(lambda n: ["integer", n])),
                             (2, st.builds(gen._rat, st.integers(-9, 9), st.integers(2, 6)))])
        return gen.weighted([(4, real), (4, gen.sym(["x", "y", "z"])), (2, term), (1, summ), (1, gen.constant(("pi", "E")))])
    return gen.weighted([(4, exact_number()), (5, c), (4, term), (2, prod), (2, summ), (1, powsum)])


class C04(Check):
    pid = "C04"
    timeout = 60.0
    rule = ("multisets of 2-6 exact operands (integers incl. multi-limb, rationals, Gaussian rationals, symbols, constants, "
            "integer/rational powers of numbers and symbols incl. radicals that combine, function applications, "
            "coefficient*core terms, products and sums as operands; operands drawn with repetition from a small core pool so "
            "that like terms/bases meet) for add, mul, max, min, logical and/or. Every permutation (all for n<=4, 30 "
            "generated ones beyond) is built with the n-ary constructor, and for add/mul additionally through every full "
            "binary bracketing (Catalan) of binary add/mul calls (all for n<=4, left/right/balanced beyond). All results "
            "must be pairwise eq (driver-side all-pairs matrix), have equal hashes, equal str and equal raw dumps up to "
            "dictionary order. Non-trivial: n>=3 with at least two operands that interact (equal operands or operands "
            "sharing a core so that the result has fewer terms than operands, or the result is not an n-term Add/Mul); "
            "distinct by (op, sorted operands).")
    assumptions = ["a library exception raised for every order alike declines the multiset; exceptions in only some orders are "
                   "counted (order_dependent_exception) and not reported; VerifAssertFailure is C03's"]
    tiers = {"quick": {"examples": 900}, "thorough": {"examples": 100000}}

    def strategy(self, tier):
        def case(op):
            return st.fixed_dictionaries({"op": st.just(op),
                                          "operands": st.lists(operand(op), min_size=2, max_size=6 if tier == "thorough" else 5),
                                          "perm_seed": st.integers(0, 2 ** 30)})
        return st.sampled_from(["add", "add", "mul", "mul", "mul", "max", "min", "and", "or"]).flatmap(case)

    def judge(self, case):
        op, ops = case["op"], case["operands"]
        n = len(ops)
        stmts = [["let", o] for o in ops]
        if n <= 4:
            perms = list(itertools.permutations(range(n)))
        else:
            import random
            rnd = random.Random(case["perm_seed"])
            perms = [tuple(range(n)), tuple(reversed(range(n)))]
            while len(perms) < 30:
                p = list(range(n))
                rnd.shuffle(p)
                perms.append(tuple(p))
        builds = []  # (description, statement index)
        for p in perms:
            stmts.append(["let", [NARY[op], ["list"] + [R(i) for i in p]]])
            builds.append(("nary%s" % (p,), len(stmts) - 1))
            if op in BIN:
                if n <= 4:
                    brs = bracketings(list(p))
                else:
                    left = p[0]
                    for i in p[1:]:
                        left = (left, i)
                    right = p[-1]
                    for i in reversed(p[:-1]):
                        right = (i, right)
                    mid = bracketings(list(p[:2]))[0], bracketings(list(p[2:]))[0] if n > 3 else p[2]
                    brs = [left, right, (mid[0], mid[1])]
                for br in brs:
                    idx = self.emit(stmts, BIN[op], br)
                    builds.append(("bin%s" % (br,), idx))
        stmts.append(["let", ["collect"] + [R(i) for _, i in builds]])
        ci = len(stmts) - 1
        stmts.append(["field", R(ci), "kept"])
        stmts.append(["pool_relations", ["field", R(ci), "v"]])
        stmts.append(["pool_obs", ["field", R(ci), "v"]])
        res = self.run(stmts)
        self.count(len(builds))
        self.cls(op)
        kept, rel, obs = res[-3], res[-2], res[-1]
        excs = [(d, res[i]) for d, i in builds if is_exc(res[i])]
        if excs:
            kinds = {r["exc"] for _, r in excs}
            if "VerifAssertFailure" in kinds:
                self.skip("assert_seen")
            if len(excs) == len(builds):
                self.skip("declined:" + sorted(kinds)[0])
                return
            self.cls("order_dependent_exception")
            self.skip("order_dependent_exception:" + sorted(kinds)[0])
            return
        if is_exc(rel) or is_exc(obs):
            self.skip("relations:" + (rel if is_exc(rel) else obs)["exc"])
            return
        m = rel["n"]
        names = [builds[k][0] for k in kept]

        def fail(msg, i, j):
            raise Violation("%s of %s: %s: %s -> %s  versus  %s -> %s"
                            % (op, [engine.sx(o) for o in ops], msg, names[i], obs[i]["s"], names[j], obs[j]["s"]),
                            {"a": obs[i], "b": obs[j], "build_a": names[i], "build_b": names[j]})
        c0 = canon(obs[0]["d"]["B"])
        for i in range(m):
            row = rel["eq"][i]
            if "0" in row or "x" in row:
                j = row.index("0") if "0" in row else row.index("x")
                fail("results of two orders/groupings are not eq", i, j)
            if rel["hash"][i] != rel["hash"][0]:
                fail("equal results have different hashes", 0, i)
            if obs[i]["s"] != obs[0]["s"]:
                fail("results print differently", 0, i)
            if canon(obs[i]["d"]["B"]) != c0:
                fail("raw trees differ beyond dictionary order", 0, i)
        if n >= 3 and self.interacts(op, ops, obs[0]["d"]["B"]):
            self.nontriv((op, sorted(engine.sx(o) for o in ops)))
            self.cls("nontrivial:" + op)
        self.sample({"op": op, "operands": [engine.sx(o) for o in ops], "builds": len(builds), "result": obs[0]["s"]})

    def emit(self, stmts, binop, br):
        if isinstance(br, int):
            return br
        l = self.emit(stmts, binop, br[0])
        r = self.emit(stmts, binop, br[1])
        stmts.append(["let", [binop, R(l), R(r)]])
        return len(stmts) - 1

    @staticmethod
    def interacts(op, ops, result):
        keys = [engine.sx(o) for o in ops]
        if len(set(keys)) < len(keys):
            return True
        if op in ("add", "mul"):
            want = "Add" if op == "add" else "Mul"
            if result[0] != want:
                return True
            nnum = sum(1 for o in ops if o[0] in ("integer", "rational", "complex"))
            terms = len(result[2]) + (1 if nnum else 0)
            return terms < len(ops)
        return result[0] not in ("Max", "Min", "And", "Or") or len(result) - 1 < len(ops)


if __name__ == "__main__":
    sys.exit(engine.main(C04))
