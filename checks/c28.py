"""C28 Boolean simplification preserves truth value."""
import itertools
import json
import os
import random
import sys
from fractions import Fraction

sys.path.insert(0, os.path.join(os.path.dirname(os.path.abspath(__file__)), ".."))
from hypothesis import strategies as st
from pbt import engine, setref, boolref
from pbt.engine import Check, Violation, R, B, is_exc

X = ["symbol", "x"]
Y = ["symbol", "y"]
NARY = ("and", "or", "nand", "nor", "xor", "xnor")
RELS = ("Eq", "Ne", "Lt", "Le", "Gt", "Ge")
COMPLEMENT = {"Lt": "Ge", "Ge": "Lt", "Le": "Gt", "Gt": "Le", "Eq": "Ne", "Ne": "Eq"}


def num(f):
    f = Fraction(f)
    return ["integer", f.numerator] if f.denominator == 1 else ["rational", f.numerator, f.denominator]


def nary(op, xs):
    return [op, ["list"] + list(xs)]


# ------------------------------------------------------------------ strategies
def atom_strategy():
    F = Fraction
    c = st.one_of(st.integers(-3, 6).map(F), st.integers(-3, 6).map(F),
                  st.builds(F, st.integers(-5, 11), st.sampled_from([2, 3])))
    cn = c.map(num)
    side_x = st.one_of(st.just(X), st.just(X), st.just(X), st.just(["add", X, num(1)]), st.just(["mul", num(2), X]))
    rel_xc = st.builds(lambda op, s, k: [op, s, k], st.sampled_from(RELS), side_x, cn)
    rel_cx = st.builds(lambda op, s, k: [op, k, s], st.sampled_from(RELS), side_x, cn)
    rel_yc = st.builds(lambda op, k: [op, Y, k], st.sampled_from(RELS), cn)
    rel_xy = st.builds(lambda op, s, sw: [op, Y, s] if sw else [op, s, Y], st.sampled_from(RELS), side_x, st.booleans())

    def mk_interval(a, b, lo, ro, mode):
        if a > b:
            a, b = b, a
        if a == b:
            b = a + 1
        x, y = num(a), num(b)
        if mode == 1:
            x = ["noo"]
        if mode == 2:
            y = ["oo"]
        return ["interval", x, y, lo, ro]
    interval = st.builds(mk_interval, c, c, st.booleans(), st.booleans(), st.sampled_from([0, 0, 0, 0, 1, 2]))
    elem = st.one_of(cn, cn, cn, st.integers(-6, 9).map(num))
    finite_num = st.lists(elem, min_size=1, max_size=5).map(lambda xs: ["finiteset", ["list"] + xs])
    finite_sym = st.lists(elem, min_size=1, max_size=3).map(lambda xs: ["finiteset", ["list"] + xs + [Y]])
    numset = st.sampled_from([["reals"], ["rationals"], ["integers"], ["naturals"], ["naturals0"], ["complexes"],
                              ["emptyset"], ["universalset"]])
    union = st.one_of(st.builds(lambda a, b: ["set_union", ["list", a, b]], interval, finite_num),
                      st.builds(lambda a, b: ["m_union", a, b], interval, interval))
    sets = st.one_of([interval] * 4 + [finite_num] * 5 + [finite_sym, numset, numset, union])
    cont = st.builds(lambda s, e: ["contains", s, e], st.sampled_from([X, X, X, Y]), sets)
    cont_num = st.builds(lambda k, e: ["contains", k, e], cn, st.one_of(interval, finite_num, numset))
    const = st.sampled_from([["true"], ["false"]])
    return st.one_of([rel_xc] * 5 + [rel_cx] * 2 + [rel_yc] * 2 + [rel_xy] * 3 + [cont] * 5 + [cont_num, const])


def complement_of(a):
    """an atom with the opposite truth value, written differently"""
    if a[0] in COMPLEMENT:
        return [COMPLEMENT[a[0]], a[1], a[2]]
    return ["not", a]


def formula_strategy(max_depth=4):
    def from_pool(pool):
        leaf = st.one_of(st.sampled_from(pool), st.sampled_from(pool),
                         st.sampled_from(pool).map(lambda a: ["not", a]),
                         st.sampled_from(pool).map(complement_of))

        def ext(sub):
            return st.one_of(
                st.builds(nary, st.sampled_from(NARY), st.lists(sub, min_size=2, max_size=4)),
                st.builds(nary, st.sampled_from(NARY), st.lists(sub, min_size=2, max_size=3)),
                st.builds(nary, st.sampled_from(("and", "or", "xor")), st.lists(sub, min_size=2, max_size=3)),
                st.builds(nary, st.sampled_from(("and", "or", "xor")), st.lists(sub, min_size=3, max_size=4)),
                sub.map(lambda f: ["not", f]))
        f = leaf
        levels = [leaf]
        for _ in range(max_depth):
            f = ext(st.one_of(levels + [levels[-1]]))
            levels.append(f)
        return st.one_of(levels[1:] + levels[2:])
    return st.lists(atom_strategy(), min_size=1, max_size=4).flatmap(from_pool)


def piecewise_strategy():
    ex = st.one_of(st.integers(-5, 9).map(num), st.integers(-5, 9).map(num), st.just(X), st.just(["add", X, num(1)]),
                   st.just(Y), st.just(["mul", num(2), X]))

    def from_pool(pool):
        cond = st.one_of(st.sampled_from(pool), st.sampled_from(pool).map(complement_of),
                         st.builds(nary, st.sampled_from(NARY), st.lists(st.sampled_from(pool), min_size=2, max_size=3)),
                         st.sampled_from([["true"], ["false"]]))
        br = st.builds(lambda e, c: ["list", e, c], ex, cond)
        return st.lists(br, min_size=1, max_size=5).map(lambda bs: ["piecewise", ["list"] + bs])
    return st.lists(atom_strategy(), min_size=1, max_size=3).flatmap(from_pool)


# ------------------------------------------------------------------ assignments
def assignments(recipe, seed, limit=64):
    """exact rational values for the symbols: every critical number of the formula, the numbers derived from it
    by the linear sides (c-1, c/2), midpoints between consecutive ones, one step beyond the extremes -> every
    realisable sign pattern of the atoms occurs for single-symbol formulas; pairs are the full product when it is
    small, else the diagonal / near-diagonal pairs plus a seeded sample."""
    nums, syms = set(), set()
    boolref.numbers_in(recipe, nums)
    boolref.symbols_in(recipe, syms)
    syms = sorted(syms)
    base = set(nums)
    for c in list(nums):
        base.update([c - 1, c / 2, (c - 1) / 2])
    if not base:
        base = {Fraction(0)}
    cs = sorted(base)
    cand = list(cs)
    cand += [(a + b) / 2 for a, b in zip(cs, cs[1:])]
    cand += [cs[0] - 1, cs[-1] + 1, cs[0] - Fraction(1, 2), cs[-1] + Fraction(1, 3)]
    cand = sorted(set(cand))
    if not syms:
        return syms, [[]]
    rng = random.Random(seed)
    if len(syms) == 1:
        if len(cand) > limit:
            keep = set(nums)
            rest = [v for v in cand if v not in keep]
            rng.shuffle(rest)
            cand = sorted(keep | set(rest[:max(0, limit - len(keep))]))
        return syms, [[v] for v in cand]
    rows = set()
    if len(cand) ** 2 <= limit:
        rows = set(itertools.product(cand, cand))
    else:
        for v in cand:
            rows.add((v, v))
        for v in sorted(nums):
            rows.update([(v, v + 1), (v + 1, v), (v, v - 1), (v - 1, v), (v, 2 * v), (2 * v, v)])
        rows = set(list(sorted(rows))[:limit // 2]) if len(rows) > limit // 2 else rows
        allp = [(a, b) for a in cand for b in cand]
        rng.shuffle(allp)
        for p in allp:
            if len(rows) >= limit:
                break
            rows.add(p)
    return syms, [list(r) for r in sorted(rows)]


def has_negated_or_repeated(recipe):
    ats = boolref.atoms(recipe)
    keys = [json.dumps(a) for a in ats]
    if len(keys) < 3:
        return False
    if len(set(keys)) < len(keys):
        return True
    ks = set(keys)
    for a in ats:
        if a[0] in COMPLEMENT and json.dumps([COMPLEMENT[a[0]], a[1], a[2]]) in ks:
            return True

    def neg(f, under):
        h = f[0]
        if h in boolref.REL_RECIPE or h == "contains":
            return under
        if h == "not":
            return neg(f[1], True)
        if h in NARY:
            return any(neg(x, under or h in ("nand", "nor", "xnor")) for x in f[1][1:])
        if h == "piecewise":
            return any(neg(b[2], under) for b in f[1][1:])
        return False
    return neg(recipe, False)


class C28(Check):
    pid = "C28"
    exe = "driver_setlogic"
    builds = [("main", ("driver_setlogic",))]
    timeout = 20.0
    rule = ("boolean formulas of depth <= 5 over a per-case pool of 1-4 atoms (relationals Eq/Ne/Lt/Le/Gt/Ge between x, "
            "x+1, 2*x, y and small rationals in both orders, Contains(x|y, Interval / FiniteSet (also with a symbolic "
            "element) / number sets / EmptySet / UniversalSet / small unions), Contains(number, set), True, False), each "
            "leaf an atom, its Not, or its complementary relational, combined with logical_and / or / nand / nor / xor / "
            "xnor (2-4 operands) and logical_not; piecewise() with 1-5 branches whose conditions are such formulas. "
            "Oracle: exact truth table - the symbols take every critical number of the formula, the derived numbers "
            "c-1, c/2, midpoints and points beyond the extremes (full product for two symbols when small, else diagonal, "
            "near-diagonal and a seeded sample, <= 64 assignments); the recipe's truth value (Python, Fractions) must equal "
            "the truth value of the returned formula evaluated from its raw dump, and every definite answer of "
            "result.subs(assignment); piecewise: the first branch whose condition holds selects the value, which must "
            "equal the value selected in the returned Piecewise (assignments with no true condition are skipped). "
            "Non-trivial: >= 3 atom occurrences including a repeated, complementary or negated atom; distinct by recipe.")
    assumptions = ["symbols range over real (rational) values only; relationals on non-real values are outside the property",
                   "a constructor that throws declines the formula",
                   "a piecewise none of whose conditions holds has no documented value: not judged"]
    tiers = {"quick": {"examples": 5000}, "thorough": {"examples": 300000}}

    def enumerate(self, tier):
        """all formulas op(l1, l2[, l3]) over literals of two atoms a, b (a, ~a, complementary form) for every
        n-ary constructor, and xor/and/or nests of them: complementary-literal detection, flattening and xor parity"""
        a = ["Lt", X, num(2)]
        b = ["contains", X, ["interval", num(0), num(3), False, True]]
        c = ["contains", X, ["finiteset", ["list", num(1), num(2), num(5)]]]
        lits = []
        for t in (a, b, c):
            lits += [t, ["not", t]]
        lits += [complement_of(a), ["true"], ["false"]]
        for op in NARY:
            for p in itertools.product(lits, repeat=2):
                yield {"f": nary(op, p), "seed": 0}
        inner = [nary(o, p) for o in ("xor", "and", "or", "xnor") for p in itertools.product(lits[:6], repeat=2)]
        k = 0
        for op in ("xor", "xnor", "and", "or", "nand"):
            for i in inner:
                for l in lits[:7]:
                    k += 1
                    if tier == "quick" and k % 3:
                        continue
                    yield {"f": nary(op, [i, l]), "seed": 0}
                    yield {"f": nary(op, [l, i, ["not", l]]), "seed": 0}

    def strategy(self, tier):
        f = st.one_of(formula_strategy(), formula_strategy(), formula_strategy(), piecewise_strategy())
        return st.fixed_dictionaries({"f": f, "seed": st.integers(0, 2 ** 20)})

    def judge(self, case):
        f = case["f"]
        syms, rows = assignments(f, case.get("seed", 0))
        symr = ["list"] + [["symbol", s] for s in syms]
        rowr = ["list"] + [["list"] + [num(v) for v in r] for r in rows]
        is_pw = f[0] == "piecewise"
        stmts = [f, ["subs_values" if is_pw else "subs_truth", R(0), symr, rowr]]
        res = self.run(stmts)
        r0 = res[0]
        kind = "piecewise" if is_pw else f[0]
        if is_exc(r0):
            self.skip("assert_seen" if r0["exc"] == "VerifAssertFailure" else "declined:" + r0["exc"])
            return
        d = B(r0)
        if d is None:
            raise Violation("constructor returned a non-Basic value", {"f": f, "result": r0})
        self.cls("root:" + kind)
        self.cls("result:" + str(d[0]))
        self.cls("symbols:%d" % len(syms))
        nat = len(boolref.atoms(f))
        self.cls("atom_occurrences:%s" % (nat if nat < 8 else "8+"))
        if has_negated_or_repeated(f):
            self.nontriv(engine.sx(f))
        r1 = res[1]
        sub = None
        if not is_exc(r1):
            sub = r1
        desc = engine.sx(f)
        for i, row in enumerate(rows):
            env = dict(zip(syms, row))
            envs = ", ".join("%s=%s" % (s, v) for s, v in zip(syms, row)) or "(no symbols)"
            try:
                exp = boolref.pw_value(f, env) if is_pw else boolref.truth(f, env)
            except boolref.Unjudgeable as e:
                self.skip("recipe_unjudgeable:" + str(e).split(":")[0])
                continue
            if exp is None:
                self.skip("undecided_by_model")
                continue
            if exp == boolref.UNDEF:
                self.skip("piecewise_no_branch")
                continue
            try:
                got = boolref.pw_value(d, env) if is_pw else boolref.truth(d, env)
            except boolref.Unjudgeable as e:
                self.skip("result_unjudgeable:" + str(e).split(":")[0])
                got = None
            self.count()
            if got is not None and got != exp:
                raise Violation("%s returned %s: under %s the formula as written is %s but the returned one is %s"
                                % (desc, json.dumps(d), envs, self.show(exp), self.show(got)),
                                {"f": f, "result": d, "env": {s: str(v) for s, v in env.items()}, "oracle": "dump",
                                 "expected": self.show(exp), "got": self.show(got)})
            if sub is None:
                continue
            if is_pw:
                sv = sub[i]
                if is_exc(sv):
                    self.skip("subs:" + ("assert_seen" if sv["exc"] == "VerifAssertFailure" else "declined:" + sv["exc"]))
                    continue
                p = setref.point_from_dump(B(sv)) if B(sv) is not None else ("other",)
                if p[0] != "q":
                    self.cls("subs:unevaluated")
                    continue
                self.cls("subs:definite")
                if ("val", p[1]) != exp:
                    raise Violation("%s returned %s; substituting %s into it gives %s but the branch selected in the "
                                    "formula as written has the value %s" % (desc, json.dumps(d), envs, p[1], exp[1]),
                                    {"f": f, "result": d, "env": {s: str(v) for s, v in env.items()}, "oracle": "subs"})
            else:
                ch = sub["r"][i]
                if ch == "x":
                    cls = dict((e[0], e[1]) for e in sub.get("errs", [])).get(i, "exception")
                    self.skip("subs:" + ("assert_seen" if cls == "VerifAssertFailure" else "declined:" + cls))
                elif ch == "?":
                    self.cls("subs:unevaluated")
                else:
                    self.cls("subs:definite")
                    if (ch == "1") != exp:
                        raise Violation("%s returned %s; substituting %s into it evaluates to %s but the formula as "
                                        "written is %s" % (desc, json.dumps(d), envs, ch == "1", exp),
                                        {"f": f, "result": d, "env": {s: str(v) for s, v in env.items()},
                                         "oracle": "subs"})
        self.sample({"formula": desc, "result": d, "assignments": len(rows)})

    @staticmethod
    def show(v):
        if isinstance(v, tuple):
            return "undefined (no branch)" if v == boolref.UNDEF else str(v[1])
        return str(v)


C28.matchers = {}

if __name__ == "__main__":
    sys.exit(engine.main(C28))
