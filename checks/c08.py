"""C08 Function constructors' automatic evaluation preserves value."""
import os
import sys
from fractions import Fraction

sys.path.insert(0, os.path.join(os.path.dirname(os.path.abspath(__file__)), ".."))
from hypothesis import strategies as st
from pbt import engine, gen
from pbt.engine import Check, Violation, B, is_exc
from pbt import oracle_num as on
from pbt.oracle_num import Unjudgeable
from pbt.valuecheck import ValueCheck

I_ = lambda n: ["integer", n]
PI = ["constant", "pi"]
E_ = ["constant", "E"]
IU = ["constant", "I"]
X, Y = ["symbol", "x"], ["symbol", "y"]

TRIG = ["sin", "cos", "tan", "cot", "csc", "sec"]
ITRIG = ["asin", "acos", "atan", "acot", "asec", "acsc"]
HYP = ["sinh", "cosh", "tanh", "coth", "csch", "sech"]
IHYP = ["asinh", "acosh", "atanh", "acoth", "asech", "acsch"]
REALONLY = {"floor", "ceiling", "truncate", "sign", "max", "min", "atan2", "primepi", "primorial", "kronecker_delta",
            "levi_civita"}


def q(a, b=1):
    return gen._rat(a, b)


def small_exact():
    return gen.weighted([(5, st.integers(-6, 6).map(I_)), (4, st.builds(q, st.integers(-12, 12), st.integers(2, 8))),
                         (2, gen.gaussian(big=False))])


def dbl():
    return gen.real_double()


def sym_rest():
    """symbolic part added to a special angle: x, -x, 2x, x+y, -x-y, x/2"""
    return st.sampled_from([X, ["neg", X], ["mul", I_(2), X], ["add", X, Y], ["neg", ["add", X, Y]], ["mul", q(1, 2), X],
                            ["mul", I_(-3), Y]])


def pi_multiple():
    return st.builds(lambda k, d: ["mul", q(k, d), PI], st.integers(-40, 40), st.sampled_from([1, 2, 3, 4, 5, 6, 8, 10, 12]))


def trig_arg():
    pm = pi_multiple()
    return gen.weighted([(5, pm), (4, st.builds(lambda a, r: ["add", r, a], pm, sym_rest())),
                         (2, st.builds(lambda a, r: ["sub", a, r], pm, sym_rest())),
                         (2, sym_rest()), (2, small_exact()), (2, dbl()), (1, gen.complex_double()),
                         (1, st.builds(lambda f, a: [f, a], st.sampled_from(ITRIG), st.one_of(sym_rest(), small_exact()))),
                         (1, st.builds(lambda a: ["mul", IU, a], st.one_of(sym_rest(), small_exact())))])


def radical_pool():
    """closed forms of sin/cos/tan at multiples of pi/12, pi/10, pi/8, pi/5 and neighbours (reach the inverse tables)"""
    sq = lambda n: ["sqrt", I_(n)]
    a = st.integers(1, 8)
    b = st.sampled_from([2, 3, 5, 6])
    c = st.sampled_from([1, 2, 3, 4, 8])
    s = st.sampled_from([1, -1])
    forms = st.one_of(
        st.builds(lambda a, b, c, s1, s2: ["mul", q(s1, c), ["sqrt", ["add", I_(a), ["mul", I_(s2), sq(b)]]]], a, b, c, s, s),
        st.builds(lambda a, b, c, s1, s2: ["mul", q(s1, c), ["add", sq(a), I_(s2 * b)]], st.sampled_from([2, 3, 5, 6]), st.integers(1, 3), c, s, s),
        st.builds(lambda a, b, s1, s2: ["add", I_(s1 * a), ["mul", I_(s2), sq(b)]], st.integers(0, 3), b, s, s),
        st.builds(lambda a, b, c, s1: ["mul", q(s1, c), ["mul", sq(a), ["pow", sq(b), I_(-1)]]], st.sampled_from([1, 2, 3, 5]), b, c, s),
        st.builds(lambda b, c, s1: ["mul", q(s1, c), sq(b)], st.sampled_from([2, 3, 5, 6]), c, s),
        st.builds(lambda a, b, c, d, s1, s2: ["mul", q(s1, c), ["mul", ["add", sq(a), I_(s2 * b)], ["pow", sq(d), I_(-1)]]],
                  st.sampled_from([3, 5]), st.integers(1, 2), st.sampled_from([1, 2, 4]), st.sampled_from([2]), s, s),
        st.builds(lambda s1, s2: ["mul", q(s1, 8), ["sqrt", ["add", I_(5), ["mul", I_(s2), sq(5)]]]], s, s),
        st.builds(lambda s1, s2: ["mul", q(s1, 4), ["sqrt", ["add", I_(10), ["mul", I_(2 * s2), sq(5)]]]], s, s),
        st.builds(lambda s1, s2: ["mul", q(s1, 4), ["add", sq(5), I_(s2)]], s, s),
        st.builds(lambda s1, s2: ["mul", q(s1, 4), ["add", sq(6), ["mul", I_(s2), sq(2)]]], s, s),
        st.builds(lambda s1, s2: ["mul", q(s1, 2), ["sqrt", ["add", I_(2), ["mul", I_(s2), sq(2)]]]], s, s),
        st.builds(lambda s1, s2: ["mul", q(s1, 2), ["sqrt", ["add", I_(2), ["mul", I_(s2), sq(3)]]]], s, s),
    )
    return forms


def inv_arg():
    return gen.weighted([(6, radical_pool()), (3, st.sampled_from([I_(0), I_(1), I_(-1), q(1, 2), q(-1, 2), I_(2), I_(-2)])),
                         (2, small_exact()), (2, dbl()), (2, sym_rest()),
                         (1, st.builds(lambda f, a: [f, a], st.sampled_from(TRIG), st.one_of(sym_rest(), pi_multiple(), small_exact())))])


def hyp_arg():
    return gen.weighted([(3, small_exact()), (3, sym_rest()), (2, dbl()), (1, gen.complex_double()),
                         (2, st.builds(lambda a: ["mul", IU, a], st.one_of(pi_multiple(), sym_rest()))),
                         (2, st.builds(lambda f, a: [f, a], st.sampled_from(IHYP), st.one_of(sym_rest(), small_exact()))),
                         (1, st.sampled_from([["oo"], ["noo"], ["zoo"]]))])


def gamma_arg():
    return gen.weighted([(4, st.integers(-6, 30).map(I_)), (4, st.integers(-21, 61).map(lambda k: q(k, 2))),
                         (2, st.builds(q, st.integers(-12, 30), st.sampled_from([3, 4, 5]))), (2, dbl()), (2, sym_rest()),
                         (1, gen.gaussian(big=False))])


def any_number():
    return gen.weighted([(4, small_exact()), (2, gen.integer()), (2, dbl()), (1, gen.complex_double()),
                         (1, st.sampled_from([["oo"], ["noo"], ["zoo"], ["nan"]])),
                         (1, gen.constant(("pi", "E", "EulerGamma", "Catalan", "GoldenRatio")))])


def call():
    f1 = lambda names, arg: st.builds(lambda f, a: [f, a], st.sampled_from(names), arg)
    sums = st.one_of(st.builds(lambda a, k: ["add", a, k], sym_rest(), small_exact()),
                     st.builds(lambda k, a: ["mul", k, a], small_exact(), sym_rest()),
                     st.builds(lambda k, a: ["mul", k, a], st.one_of(dbl(), gen.constant(("pi", "E", "I"))), sym_rest()))
    misc_arg = gen.weighted([(4, any_number()), (3, sums), (2, sym_rest()),
                             (1, st.builds(lambda f, a: [f, a], st.sampled_from(["abs", "sign", "floor", "ceiling", "conjugate", "truncate"]),
                                           st.one_of(sym_rest(), any_number())))])
    lst = lambda s, lo, hi: st.lists(s, min_size=lo, max_size=hi).map(lambda xs: ["list"] + xs)
    realnum = gen.weighted([(4, st.integers(-6, 6).map(I_)), (3, st.builds(q, st.integers(-12, 12), st.integers(2, 8))),
                            (2, dbl()), (1, gen.constant(("pi", "E"))), (1, st.sampled_from([["oo"], ["noo"]]))])
    return gen.weighted([
        (8, f1(TRIG, trig_arg())),
        (8, f1(ITRIG, inv_arg())),
        (4, f1(HYP, hyp_arg())),
        (4, f1(IHYP, st.one_of(hyp_arg(), inv_arg()))),
        (3, f1(["exp"], st.one_of(st.builds(lambda a: ["mul", IU, a], pi_multiple()), st.builds(lambda a: ["log", a], misc_arg), misc_arg))),
        (3, f1(["log"], st.one_of(st.builds(lambda k: ["pow", E_, k], st.one_of(small_exact(), sym_rest())),
                                  st.builds(lambda a: ["exp", a], misc_arg), misc_arg, gen.gaussian(big=False), gen.rational()))),
        (2, st.builds(lambda a, b: ["log2", a, b], misc_arg, st.one_of(small_exact(), sym_rest(), E_ and st.just(E_)))),
        (6, f1(["abs", "sign", "floor", "ceiling", "truncate", "conjugate"], misc_arg)),
        (5, f1(["gamma", "loggamma", "digamma", "trigamma"], gamma_arg())),
        (3, st.builds(lambda f, s, x: [f, s, x], st.sampled_from(["lowergamma", "uppergamma"]),
                      st.one_of(st.integers(-3, 8).map(I_), st.integers(-7, 15).map(lambda k: q(k, 2)), sym_rest()),
                      st.one_of(small_exact(), sym_rest()))),   # no doubles: the closed forms cancel catastrophically in floating point
        (2, st.builds(lambda x, y: ["beta", x, y], gamma_arg(), gamma_arg())),
        (3, st.builds(lambda n, x: ["polygamma", n, x], st.one_of(st.integers(0, 4).map(I_), sym_rest()),
                      st.one_of(st.integers(-4, 12).map(I_), st.builds(q, st.integers(-9, 20), st.sampled_from([2, 3, 4])), sym_rest()))),
        (3, f1(["zeta", "dirichlet_eta"], st.one_of(st.integers(-12, 14).map(I_), small_exact(), sym_rest(), dbl()))),
        (2, st.builds(lambda s, a: ["zeta2", s, a], st.one_of(st.integers(-8, 10).map(I_), sym_rest()),
                      st.one_of(st.integers(-3, 8).map(I_), small_exact(), sym_rest()))),
        (3, f1(["erf", "erfc"], st.one_of(misc_arg, st.builds(lambda a: ["neg", a], sym_rest())))),
        (2, f1(["lambertw"], st.one_of(st.sampled_from([I_(0), E_, ["neg", ["pow", E_, I_(-1)]], ["mul", q(-1, 2), ["log", I_(2)]]]),
                                       small_exact(), sym_rest(), dbl()))),
        (4, st.builds(lambda y, x: ["atan2", y, x], st.one_of(realnum, radical_pool(), sym_rest()),
                      st.one_of(realnum, radical_pool(), sym_rest()))),
        (4, st.builds(lambda f, xs: [f, xs], st.sampled_from(["max", "min"]),
                      lst(st.one_of(realnum, realnum, sym_rest(), st.builds(lambda xs: ["max", xs], lst(st.one_of(realnum, sym_rest()), 2, 3))), 2, 5))),
        (2, st.builds(lambda a, b: ["kronecker_delta", a, b], st.one_of(small_exact(), sym_rest(), sums), st.one_of(small_exact(), sym_rest(), sums))),
        (2, st.builds(lambda xs: ["levi_civita", xs], lst(st.one_of(st.integers(0, 4).map(I_), sym_rest()), 2, 4))),
        (2, f1(["primepi", "primorial"], st.one_of(st.integers(-3, 120).map(I_), st.builds(q, st.integers(-5, 200), st.integers(2, 7)), dbl(), sym_rest()))),
    ])


def head(r):
    return r[0]


def nodes(r):
    if isinstance(r, list) and r and isinstance(r[0], str):
        yield r
        for x in r[1:]:
            yield from nodes(x)


def numval(r):
    """numeric value of a symbol-free recipe or None"""
    try:
        return on.value(r, {}, 30)
    except Exception:
        return None


def has_big_half_integer_gamma(rec):
    """gamma / beta / lowergamma ... of a half-integer k/2 with |k| >= 21: gamma_multiple_2 multiplies in `int`"""
    for n in nodes(rec):
        if n[0] in ("gamma", "beta", "loggamma", "lowergamma", "uppergamma"):
            for a in n[1:]:
                if isinstance(a, list) and a and a[0] == "rational" and a[2] == 2 and abs(a[1]) >= 21:
                    return True
                if n[0] == "beta" and isinstance(a, list) and a and a[0] == "integer" and abs(a[1]) >= 10:
                    return True
    return False


def m_acot_negative(case, v):
    """KF-C08-01: acot of an exact negative real uses the (0, pi) convention, the numeric layer atan(1/x)"""
    for n in nodes(case["e"]):
        if n[0] == "acot" and not on.has_float(n[1]):
            x = numval(n[1])
            if x is not None and getattr(x, "imag", 0) == 0 and x.real < 0:
                return True
    return False


C5 = 0.2078134688887267
def m_inverse_table_c5(case, v):
    """KF-C08-02: the inverse sine/cosine table maps sqrt(5-sqrt(5))/8 (the mis-scaled constant C5) to pi/5"""
    for n in nodes(case["e"]):
        if n[0] in ("asin", "acos", "asec", "acsc"):
            x = numval(n[1])
            if x is not None and getattr(x, "imag", 0) == 0 and x != 0:
                a = abs(float(x.real))
                if abs(a - C5) < 1e-9 or abs(1 / a - C5) < 1e-9:
                    return True
    return False


def m_atan2_table_quadrant(case, v):
    """KF-C08-03: atan2(y, x) whose quotient hits the tangent table ignores the quadrant unless both are Numbers"""
    for n in nodes(case["e"]):
        if n[0] == "atan2":
            isnum = lambda a: a[0] in ("integer", "rational", "real_double")
            if not (isnum(n[1]) and isnum(n[2])):
                return True
    return False


def m_truncate_add_integer(case, v):
    """KF-C08-04: truncate(n + y) is rewritten to n + truncate(y) (wrong when n + y and y have different signs)"""
    for n in nodes(case["e"]):
        if n[0] == "truncate" and isinstance(n[1], list) and n[1][0] in ("add", "sub", "add_vec"):
            return True
    return False


def m_zeta_negative_a(case, v):
    """KF-C08-05: zeta(s, a) with a negative integer a adds harmonic(-a, s) without the sign (-1)**(-s)"""
    for n in nodes(case["e"]):
        if n[0] == "zeta2" and n[2][0] == "integer" and n[2][1] < 0:
            return True
    return False


class C08(ValueCheck):
    pid = "C08"
    timeout = 60.0
    # a constructor may evaluate a float argument through an algebraically equal but numerically worse formula
    # (lowergamma(1, x) -> 1 - exp(-x)); C08 is about the value, evaluator accuracy is C12's subject
    float_rel_floor = 1e-9
    rule = ("one constructor call f(args) per case for every constructor the statement lists, with argument generators "
            "built to reach the automatic rewrites: rational multiples of pi with arbitrary shifts plus a symbolic rest, "
            "the radical pool (closed forms of trig values, the only way into the inverse lookup tables), exact numbers of "
            "every kind, doubles, infinities, negated / coefficient-carrying sums, nested forward/inverse pairs, "
            "integers / half-integers / thirds / quarters for the gamma, polygamma, zeta family, special values of lambertw. "
            "The value of the returned tree must equal mpmath's f at the argument values (principal branches of C99/mpmath, "
            "DESIGN 3.5) at 3 generated points: generic complex points, or real points kept 1e-6 away from jumps for the "
            "real-only functions (floor ceiling truncate sign max min atan2 primepi primorial kronecker_delta levi_civita). "
            "A zoo/nan result is accepted exactly where the reference reports a pole/undefined value. Non-trivial: the "
            "constructor returned something else than the unevaluated f of its unchanged argument dump; distinct by recipe.")
    assumptions = ["mpmath special functions at 35/70 digits are the reference", "library exceptions decline a call",
                   "arguments of special functions are kept small so mpmath stays accurate"]
    tiers = {"quick": {"examples": 9000}, "thorough": {"examples": 500000}}

    def strategy(self, tier):
        return st.fixed_dictionaries({"e": call(), "envs": gen.envs(names=["x", "y"], n=3),
                                      "renvs": gen.envs(names=["x", "y"], n=3, value=gen.real_env_value())})

    def judge(self, case):
        rec = case["e"]
        f = head(rec)
        if self.tag_active("gamma_half_integer_int_overflow") and has_big_half_integer_gamma(rec):
            self.skip("known:gamma_half_integer_int_overflow")
            return
        real = f in REALONLY or self.has_realonly(rec)
        envs = case["renvs"] if real else case["envs"]
        margin = 1e-6 if real else None
        refs, blocked = self.references(rec, envs, margin=margin, cut_guard=True)
        if blocked:
            self.skip("ref:overflow")
            return
        # the unevaluated form for the non-triviality rule: f applied to the constructed arguments
        args = rec[1:]
        stmts = []
        for a in args:
            if a and a[0] == "list":
                stmts.append(["let", ["list"] + list(a[1:])])
            else:
                stmts.append(["let", a])
        stmts.append([f] + [engine.R(i) for i in range(len(args))])
        for i, a in enumerate(args):
            stmts.append(["id", engine.R(i)])
        res = self.run(stmts)
        r = res[len(args)]
        if is_exc(r):
            self.skip("assert_seen" if r["exc"] == "VerifAssertFailure" else "declined:" + r["exc"])
            return
        got = B(r)
        self.cls("f:" + f)
        if f == "beta" and got[0] == "Infty" and any(a[0] == "integer" and a[1] <= 0 for a in args):
            # Gamma(x)Gamma(y)/Gamma(x+y) with a pole in the numerator: the library reports the pole, mpmath the
            # limit of the ratio -- both conventions exist, not judged
            self.skip("pole_ratio_ambiguous:beta")
            return
        if got[0] in ("Infty", "NaN"):
            # accepted only where the reference is a pole / undefined at every point
            finite = [x for x in refs if not isinstance(x, Unjudgeable)]
            if finite:
                raise Violation("%s returned %s but the function has the finite value %s at its arguments"
                                % (engine.sx(rec), got, finite[0]), {"recipe": rec, "result": got})
            self.skip("pole_agrees")
            self.cls("rewrite:" + f)
            self.nontriv(rec)
            return
        judged = self.compare(rec, got, envs, refs, margin=margin, cut_guard=True)
        if judged:
            argd = [B(x) if isinstance(x, dict) and "B" in x else None for x in res[len(args) + 1:]]
            if self.rewritten(f, got, argd):
                self.nontriv(rec)
                self.cls("rewrite:" + f)
            self.sample({"call": engine.sx(rec), "result": got})

    CLASSNAME = {v: k for k, v in on.CLASS2NAME.items()}

    def rewritten(self, f, got, argd):
        cn = self.CLASSNAME.get(f, {"max": "Max", "min": "Min", "kronecker_delta": "KroneckerDelta", "levi_civita": "LeviCivita",
                                    "exp": "Pow", "zeta": "Zeta", "digamma": "PolyGamma", "trigamma": "PolyGamma"}.get(f))
        if f == "exp":
            return got != ["Pow", ["Constant", "E"], argd[0]]
        if cn is None or got[0] != cn:
            return True
        if f in ("max", "min", "levi_civita"):
            return False if argd and argd[0] is None else True
        return list(got[1:]) != [a for a in argd]

    @staticmethod
    def has_realonly(r):
        if isinstance(r, list):
            if r and r[0] in REALONLY:
                return True
            return any(C08.has_realonly(x) for x in r[1:])
        return False


C08.matchers = {"acot_negative": m_acot_negative, "inverse_table_c5": m_inverse_table_c5,
                "atan2_table_quadrant": m_atan2_table_quadrant, "truncate_add_integer": m_truncate_add_integer,
                "zeta_negative_a": m_zeta_negative_a}


if __name__ == "__main__":
    sys.exit(engine.main(C08))
