"""C21 Univariate polynomial arithmetic is correct (UIntPoly, URatPoly, UExprPoly)."""
import os
import sys
from fractions import Fraction

sys.path.insert(0, os.path.join(os.path.dirname(os.path.abspath(__file__)), ".."))
from hypothesis import strategies as st
from pbt import engine
from pbt.engine import Check, Violation, R, B, is_exc, DriverTimeout
from pbt import polyref as pr
from pbt.polyref import Unsupported
from pbt.polycommon import HangJudge

X = "x"
SYMX = ["symbol", X]
CLASS = {"I": "UIntPoly", "Q": "URatPoly", "E": "UExprPoly"}

# ------------------------------------------------------------------ known library defects
# Each tag is a genuine defect found by this check on the pinned tree (reproducers: PROBES below and
# replays/known/C21-<tag>.json).  Known-findings protocol (GUIDE): while a finding with matcher <tag> is listed as
# 'known' and its reproducer still fails, self.tag_active(<tag>) is true and the inputs that reach the defect are
# excluded *by construction* and counted as skip("known:<tag>"); otherwise they are generated and judged normally.
K_POW0 = "pow_exponent_zero_hang"        # ODictWrapper::pow: while (p != 1) never ends for p == 0
K_EMPTY = "uintdict_mul_empty"           # UIntDict::mul / eval_bit / max_abs_coef dereference begin()/rbegin() of an empty map
K_SLOT = "kronecker_slot_width"          # UIntDict::mul: N one bit short for signed digits -> wrong product
K_EVAL0 = "eval_zero_poly"               # USymEnginePoly::eval: dict_.rbegin() of the zero polynomial
K_DIVTC = "divides_term_count"           # divides_upoly loops on term counts instead of degrees

# minimal reproducers (driver programs); a probe is judged whenever its tag is not active
PROBES = [
    (K_POW0, "I", '(symbol "x") (uint_from_vec $0 [1]) (pow_upoly $1 0)', ["UIntPoly", ["Symbol", X], [[0, "1"]]]),
    (K_POW0, "Q", '(symbol "x") (urat_from_vec $0 []) (pow_upoly $1 0)', ["URatPoly", ["Symbol", X], [[0, "1", "1"]]]),
    (K_POW0, "E", '(symbol "x") (uexpr_from_vec $0 []) (pow_upoly $1 0)', ["UExprPoly", ["Symbol", X], [[0, ["Integer", "1"]]]]),
    (K_EMPTY, "I", '(symbol "x") (uint_from_vec $0 []) (pow_upoly $1 2)', ["UIntPoly", ["Symbol", X], []]),
    (K_SLOT, "I", '(symbol "x") (uint_from_vec $0 [7 7 7 7 7 7 7]) (mul_upoly $1 $1)',
     ["UIntPoly", ["Symbol", X], [[k, str(7 * 7 * (7 - abs(k - 6)))] for k in range(13)]]),
    (K_EVAL0, "I", '(symbol "x") (uint_from_vec $0 []) (upoly_eval $1 2)', 0),
    (K_EVAL0, "Q", '(symbol "x") (urat_from_vec $0 []) (upoly_eval $1 2)', [0, 1]),
    (K_DIVTC, "I", '(symbol "x") (uint_from_vec $0 [1 1 1]) (uint_from_vec $0 [-1 0 0 1]) (divides_upoly $1 $2)',
     [True, {"B": ["UIntPoly", ["Symbol", X], [[0, "-1"], [1, "1"]]]}]),
    (K_DIVTC, "Q", '(symbol "x") (urat_from_vec $0 [0 0 1]) (urat_from_vec $0 [0 1]) (divides_upoly $1 $2)', [False, None]),
]


# ------------------------------------------------------------------ plain integer/Fraction coefficient dicts
def dmul(p, q):
    r = {}
    for i, a in p.items():
        for j, b in q.items():
            r[i + j] = r.get(i + j, 0) + a * b
    return {k: v for k, v in r.items() if v}


def dsub(p, q):
    r = dict(p)
    for k, v in q.items():
        s = r.get(k, 0) - v
        if s:
            r[k] = s
        else:
            r.pop(k, None)
    return r


def bl(n):
    return int(n).bit_length()


def kron_safe(a, b):
    """mirror of the slot width chosen by UIntDict::mul (symengine/polys/uintpoly.h): the signed-digit decoding is
    right iff every coefficient of the true product is below 2**(N-1) in magnitude"""
    n = bl(min(max(a) + 1, max(b) + 1)) + bl(max(abs(v) for v in a.values())) + bl(max(abs(v) for v in b.values()))
    prod = dmul(a, b)
    return max(abs(v) for v in prod.values()) < 2 ** (n - 1)


def kron_tags(a, b):
    """known-defect tags reached by the call UIntDict::mul(a, b)"""
    if not a or not b:
        return {K_EMPTY}
    if not kron_safe(a, b):
        return {K_SLOT}
    return set()


def mul_upoly_tags(p, q):
    """mul_upoly = ODictWrapper::operator*=: zero and constant right operands never reach UIntDict::mul"""
    if not p or not q or (len(q) == 1 and 0 in q):
        return set()
    return kron_tags(p, q)


def pow_tags(p, n, cls):
    """known-defect tags reached by pow_upoly(p, n) (mirror of the call sequence of ODictWrapper::pow)"""
    if n == 0:
        return {K_POW0}
    if cls != "I":
        return set()
    if not p:
        return {K_EMPTY}
    tags = set()
    tmp, res = p, {0: 1}
    while n != 1:
        if n % 2:
            tags |= kron_tags(res, tmp)
            res = dmul(res, tmp)
        tags |= kron_tags(tmp, tmp)
        tmp = dmul(tmp, tmp)
        n >>= 1
    return tags | kron_tags(res, tmp)


def ref_divides(a, b, integral):
    """exact division of b by a (a != 0) -> (divides?, quotient dict, agrees?) where agrees says that the
    library's loop condition (term counts, uintpoly.cpp/uratpoly.cpp) coincides with the degree condition
    at every step the library reaches"""
    da = max(a)
    la = a[da]
    q = {}
    r = dict(b)
    agrees = True
    while True:
        lib = len(r) >= len(a)
        true = bool(r) and max(r) >= da
        if lib != true:
            agrees = False
        if not true:
            break
        dr = max(r)
        c = Fraction(r[dr]) / la
        if integral and c.denominator != 1:
            return False, None, agrees
        q[dr - da] = c
        r = dsub(r, dmul(a, {dr - da: c}))
    return (not r), (q if not r else None), agrees


def conv_tags(d, val):
    """known-defect tags reached by from_basic<UIntPoly> on the tree d: mirror of the multiplication calls of
    BasicToUPolyBase (basic_conversions.h); val(node) is the reference value {k: int} of a node"""
    h = d[0]
    tags = set()
    if h == "Add":
        for t, c in d[2]:
            tags |= conv_tags(t, val) | kron_tags(val(t), val(c))      # friend operator*: always UIntDict::mul
    elif h == "Mul":
        res = val(d[1])
        for b, e in d[2]:
            node = b if e == ["Integer", "1"] else ["Pow", b, e]
            tags |= conv_tags(node, val)
            other = val(node)
            tags |= mul_upoly_tags(res, other)
            res = dmul(res, other)
    elif h == "Pow" and d[2][0] == "Integer" and int(d[2][1]) > 0:
        tags |= conv_tags(d[1], val) | pow_tags(val(d[1]), int(d[2][1]), "I")
    return tags


def hits_threshold(a, b):
    """a raw N-bit digit of the Kronecker product equals 2**(N-1) exactly (the boundary of `temp < thresh`) while the
    product is inside the range the slot width supports"""
    n = bl(min(max(a) + 1, max(b) + 1)) + bl(max(abs(v) for v in a.values())) + bl(max(abs(v) for v in b.values()))
    prod = dmul(a, b)
    if max(abs(v) for v in prod.values()) >= 2 ** (n - 1):
        return False
    s = abs(sum(c << (n * k) for k, c in prod.items()))
    while s:
        if s & ((1 << n) - 1) == 1 << (n - 1):
            return True
        s >>= n
    return False


def boundary_pairs():
    """deterministic search for quadratic pairs whose middle product coefficient is -(2**(N-1) - 1) preceded by a
    negative coefficient: the only inputs on which the comparison `temp < thresh` of UIntDict::mul is decided by
    equality (alpha, beta = bit lengths of the largest coefficients, from 3 bits to beyond four limbs)"""
    import random
    from math import gcd
    rng = random.Random(20260922)
    out = []
    for alpha, beta in [(3, 3), (3, 4), (4, 4), (5, 7), (8, 8), (10, 13), (16, 16), (31, 32), (32, 33), (60, 64), (64, 64),
                        (64, 65), (100, 150), (127, 128), (200, 299), (299, 300)]:
        t = 2 ** (alpha + beta + 1) - 1
        lo_a, hi_a, lo_b, hi_b = 2 ** (alpha - 1), 2 ** alpha - 1, 2 ** (beta - 1), 2 ** beta - 1
        found = None
        for _ in range(4000):
            p0, p1, p2 = (rng.randint(lo_a, hi_a) for _ in range(3))
            q2 = rng.randint(lo_b, hi_b)
            if gcd(p1, p2) != 1:
                continue
            base = ((t - p0 * q2) * pow(p1, -1, p2)) % p2
            if base > hi_b:
                continue
            for _ in range(4):
                q1 = base + p2 * rng.randint(0, (hi_b - base) // p2)
                rem = t - p0 * q2 - p1 * q1
                if q1 < 1 or rem <= 0 or rem % p2 or not (1 <= rem // p2 <= hi_b):
                    continue
                q0 = rem // p2
                for a in ({0: -p0, 1: -p1, 2: p2}, {0: -p0, 1: p1, 2: p2}):
                    for b in ({0: -q0, 1: q1, 2: q2}, {0: -q0, 1: -q1, 2: q2}):
                        if hits_threshold(a, b):
                            found = (a, b)
                if found:
                    break
            if found:
                break
        if found:
            out.append(found)
    return out


# ------------------------------------------------------------------ case data <-> reference / recipes
def coef_pp(cls, c):
    if cls == "I":
        return pr.const(c)
    if cls == "Q":
        return pr.const(Fraction(c[0], c[1]))
    p = {}
    for k, n, d in c:
        p = pr.add(p, pr.scale(pr.var("a", k), Fraction(n, d)))
    return p


def coef_arg(cls, c):
    """driver literal of a coefficient"""
    if cls == "I":
        return c
    if cls == "Q":
        return ["list", c[0], c[1]]
    return pr.pp_recipe(coef_pp(cls, c))


def poly_pp(cls, terms):
    p = {}
    for e, c in terms:
        p = pr.add(p, pr.mul(coef_pp(cls, c), pr.var(X, e)))
    return p


def ctor(cls, terms, how):
    pre = {"I": "uint", "Q": "urat", "E": "uexpr"}[cls]
    if how == "vec":
        deg = max([e for e, _ in terms] or [-1])
        zero = {"I": 0, "Q": [0, 1], "E": [[0, 0, 1]]}[cls]
        v = [zero] * (deg + 1)
        for e, c in terms:
            v[e] = c
        return [pre + "_from_vec", SYMX, ["list"] + [coef_arg(cls, c) for c in v]]
    return [pre + "_from_dict", SYMX, ["list"] + [["list", e, coef_arg(cls, c)] for e, c in terms]]


def udict(p):
    """PP in x (and a) -> {exp: PP coefficient}"""
    return pr.to_udict(p, X)


def idict(p):
    """PP with rational coefficients -> {exp: Fraction}"""
    return {e: c[pr.ONE] for e, c in udict(p).items()}


def want_dump(cls, p):
    """the unique dump of the polynomial p for the classes with numeric coefficients"""
    d = idict(p)
    if cls == "I":
        return ["UIntPoly", ["Symbol", X], [[e, str(int(d[e]))] for e in sorted(d)]]
    return ["URatPoly", ["Symbol", X], [[e, str(d[e].numerator), str(d[e].denominator)] for e in sorted(d)]]


def num_out(cls, v):
    """expected driver value of a number of the coefficient domain"""
    v = Fraction(v)
    return int(v) if cls == "I" else [v.numerator, v.denominator]


# ------------------------------------------------------------------ generators
def exact_bits(t):
    b, r = t
    return (1 << (b - 1)) | (r & ((1 << (b - 1)) - 1))


mag = st.one_of(
    st.integers(1, 9),
    st.tuples(st.integers(1, 300), st.integers(0, 2 ** 300)).map(exact_bits),
    st.tuples(st.integers(1, 300), st.sampled_from([0, -1, 1])).map(lambda t: max(1, 2 ** t[0] + t[1])),
    st.tuples(st.integers(1, 70), st.integers(0, 2 ** 70)).map(exact_bits),
)
small_mag = st.integers(1, 12)


def signed(m, prof):
    def f(t):
        vals, seed = t
        out = []
        for i, v in enumerate(vals):
            if prof == "pos":
                s = 1
            elif prof == "neg":
                s = -1
            elif prof == "alt":
                s = 1 if i % 2 == 0 else -1
            else:
                s = 1 if (seed >> (i % 60)) & 1 else -1
            out.append(s * v)
        return out
    return f


def int_poly(mg, maxdeg):
    """list of [exp, int]: zero polynomial, constants, dense, sparse; every sign profile"""
    def dense(d):
        return st.tuples(st.lists(mg, min_size=d + 1, max_size=d + 1), st.integers(0, 2 ** 60))

    def build(prof, t):
        vals = signed(mg, prof)(t)
        return [[i, v] for i, v in enumerate(vals)]

    prof = st.sampled_from(["pos", "neg", "alt", "rnd", "rnd"])
    degs = st.one_of(st.integers(0, min(8, maxdeg)), st.integers(0, min(8, maxdeg)), st.integers(0, maxdeg))
    densep = degs.flatmap(lambda d: st.builds(build, prof, dense(d)))
    sparse = st.builds(lambda es, t, pf: [[e, v] for e, v in zip(sorted(es), signed(mg, pf)((t[0][:len(es)], t[1])))],
                       st.sets(st.integers(0, maxdeg), min_size=1, max_size=6),
                       st.tuples(st.lists(mg, min_size=6, max_size=6), st.integers(0, 2 ** 60)), prof)
    const = st.builds(lambda v, s: [[0, s * v]], mg, st.sampled_from([1, -1]))
    # equal magnitudes make the product coefficients as large as the slot-width bound allows
    flat = st.builds(lambda d, v, pf, seed: [[i, c] for i, c in enumerate(signed(mg, pf)(([v] * (d + 1), seed)))],
                     degs, mg, prof, st.integers(0, 2 ** 60))
    return st.one_of(st.just([]), const, densep, densep, sparse, sparse, flat)


def with_zero_entries(poly):
    """sprinkle explicit zero coefficients (the constructors must drop them)"""
    def f(t):
        terms, extra = t
        have = {e for e, _ in terms}
        return terms + [[e, 0] for e in sorted(set(extra)) if e not in have]
    return st.tuples(poly, st.lists(st.integers(0, 45), max_size=2)).map(f)


def rat_poly(maxdeg):
    num = st.one_of(st.integers(-9, 9).filter(bool), st.integers(-2 ** 80, 2 ** 80).filter(bool))
    den = st.one_of(st.integers(1, 9), st.integers(1, 2 ** 40))
    term = st.tuples(num, den).map(lambda t: [t[0], t[1]])
    dense = st.integers(0, maxdeg).flatmap(lambda d: st.lists(term, min_size=d + 1, max_size=d + 1)).map(
        lambda cs: [[i, c] for i, c in enumerate(cs)])
    sparse = st.dictionaries(st.integers(0, maxdeg), term, min_size=1, max_size=5).map(lambda d: [[e, d[e]] for e in sorted(d)])
    const = term.map(lambda c: [[0, c]])
    return st.one_of(st.just([]), const, dense, sparse, sparse)


def expr_poly(maxdeg):
    apoly = st.lists(st.tuples(st.integers(0, 2), st.integers(-5, 5).filter(bool), st.integers(1, 3)),
                     min_size=1, max_size=2, unique_by=lambda t: t[0]).map(lambda l: [list(t) for t in l])
    sparse = st.dictionaries(st.integers(0, maxdeg), apoly, min_size=1, max_size=5).map(lambda d: [[e, d[e]] for e in sorted(d)])
    const = apoly.map(lambda c: [[0, c]])
    return st.one_of(st.just([]), const, sparse, sparse, sparse)


def arith_case(cls):
    if cls == "I":
        poly = st.one_of(with_zero_entries(int_poly(small_mag, 12)), int_poly(mag, 16))
        pt = st.one_of(st.integers(-3, 3), st.integers(-2 ** 100, 2 ** 100))
    elif cls == "Q":
        poly = rat_poly(10)
        pt = st.tuples(st.integers(-30, 30), st.integers(1, 7)).map(list)
    else:
        poly = expr_poly(6)
        pt = st.one_of(st.tuples(st.integers(-5, 5), st.integers(1, 3)).map(lambda t: [[0, t[0], t[1]]] if t[0] else [[0, 1, 1]]),
                       st.just([[1, 1, 1]]), st.just([[1, 1, 1], [0, 1, 1]]))
    return st.fixed_dictionaries({
        "k": st.just("arith"), "cls": st.just(cls), "p": poly, "q": poly,
        "how": st.sampled_from(["dict", "dict", "vec"]),
        "n": st.integers(0, 12), "pts": st.lists(pt, min_size=1, max_size=3),
        "idx": st.lists(st.integers(0, 20), min_size=1, max_size=3),
        "dv": st.sampled_from(["pq", "pq", "raw", "pqr"])})


def kron_case():
    poly = int_poly(mag, 40).filter(bool)
    return st.fixed_dictionaries({"k": st.just("kron"), "p": poly, "q": poly, "n": st.integers(2, 5)})


# expressions for from_basic -------------------------------------------------------------------
VANISH = ["sub", ["pow", ["add", SYMX, ["integer", 1]], ["integer", 2]],
          ["add", ["add", ["pow", SYMX, ["integer", 2]], ["mul", ["integer", 2], SYMX]], ["integer", 1]]]


def conv_case():
    ints = st.integers(-7, 7).map(lambda n: ["integer", n])
    rats = st.tuples(st.integers(-7, 7), st.integers(2, 5)).map(lambda t: pr.num_recipe(Fraction(t[0], t[1])))
    fam = {
        "sym": [(6, st.just(SYMX)), (3, ints), (1, st.just(VANISH))],
        "rat": [(6, st.just(SYMX)), (2, ints), (2, rats), (1, st.just(VANISH))],
        "expr": [(5, st.just(SYMX)), (2, ints), (1, rats), (3, st.just(["symbol", "a"]))],
        "sqrt": [(4, st.builds(lambda k, d: ["pow", SYMX, pr.num_recipe(Fraction(k, d))], st.integers(1, 6), st.sampled_from([2, 3]))),
                 (2, st.just(SYMX)), (3, ints)],
        "exp": [(5, st.builds(lambda b, k, c: ["pow", ["integer", b], ["add", ["mul", ["integer", k], SYMX], ["integer", c]]
                                              if c else ["mul", ["integer", k], SYMX]],
                              st.just(2), st.integers(1, 4), st.integers(0, 2))),
                (3, ints)],
        "fun": [(5, st.just(["sin", SYMX])), (3, ints)],
    }

    def tree(name):
        pool = []
        for w, s in fam[name]:
            pool += [s] * w
        leaves = st.one_of(pool)

        def ext(ch):
            return st.one_of(
                st.builds(lambda o, a, b: [o, a, b], st.sampled_from(["add", "sub", "mul", "mul"]), ch, ch),
                st.builds(lambda a, n: ["pow", a, ["integer", n]], ch, st.integers(0, 4)),
                st.builds(lambda a: ["neg", a], ch))
        return st.recursive(leaves, ext, max_leaves=7).map(lambda e: {"k": "conv", "fam": name, "e": e})
    return st.one_of([tree(n) for n in ("sym", "sym", "rat", "expr", "sqrt", "exp", "fun")])


SMALL = {
    "I": [[], [[0, 1]], [[0, -1]], [[0, 2]], [[0, -7]], [[1, 1]], [[0, 1], [1, 1]], [[0, -1], [1, 1]], [[0, 1], [1, 1], [2, 1]],
          [[0, -1], [3, 1]], [[2, 3]], [[0, 4], [1, 6]], [[0, 7], [1, 7], [2, 7], [3, 7]], [[0, 1], [2, 1]], [[0, 2], [1, 1], [2, 1]],
          [[0, 2 ** 64 - 1], [1, -(2 ** 64)], [5, 2 ** 63]], [[0, 3], [1, -3], [2, 3], [3, -3], [4, 3], [5, -3], [6, 3]]],
    "Q": [[], [[0, [1, 1]]], [[0, [-1, 2]]], [[1, [1, 1]]], [[0, [1, 2]], [1, [1, 3]]], [[0, [-1, 1]], [3, [1, 1]]],
          [[0, [1, 1]], [1, [1, 1]], [2, [1, 1]]], [[2, [2, 3]]], [[0, [1, 1]], [2, [1, 1]]], [[0, [2, 1]], [1, [1, 1]], [2, [1, 1]]]],
    "E": [[], [[0, [[0, 1, 1]]]], [[0, [[1, 1, 1]]]], [[1, [[0, 1, 1]]]], [[0, [[1, 1, 1], [0, 1, 1]]], [1, [[0, 1, 1]]]],
          [[0, [[1, -1, 1]]], [2, [[1, 1, 2]]]], [[0, [[0, -1, 1]]], [3, [[0, 1, 1]]]]],
}


class C21(HangJudge, Check):
    pid = "C21"
    exe = "driver_poly"
    builds = [("main", ("driver_poly",))]
    rule = ("cases of kind arith (class UIntPoly/URatPoly/UExprPoly; p, q from {zero polynomial, constants, dense, sparse, "
            "flat} with explicit zero entries, from_dict/from_vec): add sub neg mul(both orders) p*p pow(n<=12) "
            "divides(p,p*q | p,q | p,p*q+r) eval multieval get_coeff get_degree get_lc size as_symbolic diff(x), diff(y) "
            "from_basic(as_symbolic) against schoolbook arithmetic on {exp: Fraction} (coefficients of UExprPoly are "
            "polynomials in a symbol a, compared by value of the dumped coefficient tree); kind kron (UIntPoly, degree <= 40, "
            "coefficients 1..300 bits incl. 2^k, 2^k+-1, sign profiles all+/all-/alternating/random, dense/sparse/flat): "
            "p*q q*p p*p pow divides(p,p*q); kind conv (expression trees over x | x^(k/2),x^(k/3) | 2^(kx+c) | sin(x), "
            "with a vanishing unexpanded subterm at low rate): from_basic (automatic and explicit generator, ex flag) must "
            "have the value of the recipe in the reported generator, as_symbolic(from_basic(e)) eq expand(e) (for unexpanded "
            "Expression coefficients: after expand). Enumerated: all ordered pairs of a small pool (zero, +-1, constants, x, "
            "cyclotomic factors, 64-bit edges) for each class, and 16 constructed quadratic pairs (3..300-bit coefficients) "
            "whose product has a raw Kronecker digit equal to 2^(N-1), the boundary of the signed-digit test. A program that "
            "gives no answer in 25 s is split; an instruction that twice gives no answer alone in 25 s is reported as "
            "non-terminating (all instructions have millisecond cost), anything else slow is skipped. "
            "Non-trivial: a Kronecker product with mixed-sign coefficients or a coefficient within 2 bits of the slot "
            "threshold, an operation with the zero polynomial, a true divides, or a from_basic with a non-symbol "
            "generator/unexpanded power; distinct by (kind, operands).")
    assumptions = ["Python int/Fraction dictionary arithmetic is the reference; dumped coefficient trees of UExprPoly are "
                   "evaluated in Python (Add/Mul/Pow over Q[a])",
                   "documented exceptions of from_basic decline a case; an exception of an arithmetic op or query is a violation",
                   "while a known finding is active (known_findings.json, tags pow_exponent_zero_hang, uintdict_mul_empty, "
                   "kronecker_slot_width, eval_zero_poly, divides_term_count) the inputs reaching it are excluded by construction "
                   "and counted as skipped known:<tag>; otherwise they are judged; as_symbolic of UIntPoly/URatPoly over a Pow generator trips "
                   "SYMENGINE_ASSERT (counted assert_seen, reported by C03)",
                   "UExprPoly results may store coefficients that are zero only after expansion (Expression has no zero test): "
                   "compared by value; degree/lc/size are then judged against the stored dictionary"]
    tiers = {"quick": {"examples": 1300}, "thorough": {"examples": 100000}}
    timeout = 40.0
    case_timeout = 240

    # ------------------------------------------------------------ generation
    def enumerate(self, tier):
        for tag, cls, text, want in PROBES:
            yield {"k": "probe", "tag": tag, "cls": cls, "prog": text, "want": want}
        for a, b in boundary_pairs():
            yield {"k": "kron", "p": [[e, c] for e, c in sorted(a.items())], "q": [[e, c] for e, c in sorted(b.items())], "n": 2,
                   "boundary": True}
        for cls in ("I", "Q", "E"):
            pool = SMALL[cls]
            k = 0
            for p in pool:
                for q in pool:
                    yield {"k": "arith", "cls": cls, "p": p, "q": q, "how": "dict" if k % 3 else "vec", "n": k % 5,
                           "pts": [{"I": 2, "Q": [1, 2], "E": [[1, 1, 1]]}[cls], {"I": 0, "Q": [0, 1], "E": [[0, 0, 1]]}[cls]],
                           "idx": [0, 1, 3], "dv": ["pq", "raw", "pqr"][k % 3]}
                    k += 1

    def strategy(self, tier):
        return st.one_of(arith_case("I"), arith_case("I"), arith_case("Q"), arith_case("E"),
                         kron_case(), kron_case(), kron_case(), conv_case(), conv_case())

    # ------------------------------------------------------------ helpers
    def known(self, tags):
        """True when the sub-case reaches a known defect whose tag is active: it is excluded and counted"""
        if not tags:
            return False
        if isinstance(tags, str):
            tags = (tags,)
        for t in sorted(tags):
            if self.tag_active(t):
                self.count()
                self.skip("known:" + t)
                return True
        return False

    def bad_exc(self, r, what, detail):
        """exception handling for operations that must succeed"""
        if not is_exc(r):
            return False
        if r["exc"] == "VerifAssertFailure":
            self.skip("assert_seen")
        elif r["exc"] == "Dep":
            self.skip("dep")
        elif r["exc"] == "Decline":
            raise engine.GeneratorDefect("%s declined: %s" % (what, r.get("what")))
        else:
            raise Violation("%s raised %s: %s" % (what, r["exc"], r.get("what")), detail)
        return True

    def poly_value(self, cls, r, what, detail):
        """dump of a polynomial result -> (PP value, stored {exp: PP}); checks the representation invariants"""
        d = B(r)
        if d is None or d[0] != CLASS[cls]:
            raise Violation("%s returned %s, not a %s" % (what, str(r)[:300], CLASS[cls]), detail)
        if d[1] != ["Symbol", X]:
            raise Violation("%s changed the generator to %s" % (what, d[1]), detail)
        exps = [ent[0] for ent in d[2]]
        if exps != sorted(set(exps)) or any(e < 0 for e in exps):
            raise Violation("%s: exponents not strictly increasing: %s" % (what, exps), detail)
        try:
            stored = pr.upoly_coeffs(d)
        except Unsupported as u:
            self.skip("unsupported_coef")
            return None, None
        return pr.from_udict(stored, pr.var(X)), stored

    def expect_poly(self, cls, r, want, what, detail):
        if self.bad_exc(r, what, detail):
            return
        detail = dict(detail, got=B(r), expected=pr.show(want))
        if cls in ("I", "Q"):
            if B(r) != want_dump(cls, want):
                raise Violation("%s returned %s, expected %s" % (what, B(r), want_dump(cls, want)), detail)
            return
        val, stored = self.poly_value(cls, r, what, detail)
        if val is None:
            return
        if val != want:
            raise Violation("%s has the value %s, expected %s" % (what, pr.show(val), pr.show(want)), detail)
        if any(not c for c in stored.values()):
            self.cls("expr_zero_valued_coefficient_stored")

    # ------------------------------------------------------------ judge
    def judge(self, case):
        k = case["k"]
        if k == "probe":
            return self.judge_probe(case)
        if k == "arith":
            return self.judge_arith(case)
        if k == "kron":
            return self.judge_kron(case)
        return self.judge_conv(case)

    def judge_probe(self, case):
        if self.known(case["tag"]):
            return
        self.count()
        res = None
        for _ in range(2):
            try:
                res = self.run(case["prog"], timeout=10)
                break
            except DriverTimeout:
                pass
        if res is None:
            raise Violation("does not terminate (no answer within 10 s, twice; 3 statements, result of trivial size "
                            "required): %s" % case["prog"], {"tag": case["tag"]})
        r = res[-1]
        got = B(r) if B(r) is not None else r
        if got != case["want"]:
            raise Violation("%s returned %s, expected %s" % (case["prog"], got, case["want"]), {"tag": case["tag"]})

    def judge_arith(self, case):
        cls = case["cls"]
        P, Q = poly_pp(cls, case["p"]), poly_pp(cls, case["q"])
        det = {"cls": CLASS[cls], "p": pr.show(P), "q": pr.show(Q)}
        num = cls in ("I", "Q")
        pd, qd = (idict(P), idict(Q)) if num else (None, None)
        if cls == "I":
            pd = {e: int(c) for e, c in pd.items()}
            qd = {e: int(c) for e, c in qd.items()}
        stm = [["let", SYMX], ctor(cls, case["p"], case["how"]), ctor(cls, case["q"], "dict")]
        plan = []

        def ask(recipe, kind, want, what):
            plan.append((len(stm), kind, want, what))
            stm.append(recipe)
            return R(len(stm) - 1)

        p, q = R(1), R(2)
        plan.append((1, "poly", P, "constructor(p)"))
        plan.append((2, "poly", Q, "constructor(q)"))
        ask(["add_upoly", p, q], "poly", pr.add(P, Q), "add_upoly(p,q)")
        ask(["sub_upoly", p, q], "poly", pr.sub(P, Q), "sub_upoly(p,q)")
        ask(["sub_upoly", q, p], "poly", pr.sub(Q, P), "sub_upoly(q,p)")
        ask(["sub_upoly", p, p], "poly", {}, "sub_upoly(p,p)")
        ask(["neg_upoly", p], "poly", pr.neg(P), "neg_upoly(p)")
        PQ = pr.mul(P, Q)
        for (a, b, A, Bq, ad, bd, nm) in ((p, q, P, Q, pd, qd, "mul_upoly(p,q)"), (q, p, Q, P, qd, pd, "mul_upoly(q,p)"),
                                          (p, p, P, P, pd, pd, "mul_upoly(p,p)")):
            if cls == "I" and self.known(mul_upoly_tags(ad, bd)):
                continue
            ask(["mul_upoly", a, b], "poly", pr.mul(A, Bq), nm)
        # pow
        n = case["n"]
        deg = max(udict(P) or [0])
        if deg * n > 48 or pr.bits(P) * n > 1200:
            n = n % 3
        if cls == "E":
            # Expression coefficients are not expanded by the library: keep the trees small
            n = n % (4 if len(case["p"]) <= 3 else 3)
        if not self.known(pow_tags(pd if num else P, n, cls)):
            ask(["pow_upoly", p, n], "poly", pr.pw(P, n), "pow_upoly(p,%d)" % n)
        # queries
        ud = udict(P)
        pdeg = max(ud) if ud else 0
        ask(["upoly_get_degree", p], "int", pdeg, "get_degree(p)")
        ask(["upoly_size", p], "int", (pdeg + 1) if ud else 0, "size(p)")
        ask(["upoly_get_lc", p], "coef", ud.get(pdeg, {}) if ud else {}, "get_lc(p)")
        for i in case["idx"]:
            ask(["upoly_get_coeff", p, i], "coef", ud.get(i, {}), "get_coeff(p,%d)" % i)
        ask(["upoly_get_coeff", p, pdeg], "coef", ud.get(pdeg, {}), "get_coeff(p,deg)")
        ask(["upoly_get_coeff", p, pdeg + 1], "coef", {}, "get_coeff(p,deg+1)")
        # eval / multieval
        pts = [coef_pp(cls, x) for x in case["pts"]]
        args = [coef_arg(cls, x) for x in case["pts"]]
        if not (num and not P and self.known(K_EVAL0)):
            for x, ax in zip(pts, args):
                ask(["upoly_eval", p, ax], "coef", pr.subst(P, {X: x}), "eval(p,%s)" % pr.show(x))
            if num:
                ask(["upoly_multieval", p, ["list"] + args], "coefs", [pr.subst(P, {X: x}) for x in pts], "multieval(p)")
        # conversions and derivative
        sym = ask(["upoly_as_symbolic", p], "expr", P, "as_symbolic(p)")
        ask(["upoly_from_basic_gen", CLASS[cls], sym, SYMX], "poly", P, "from_basic(as_symbolic(p), x)")
        ask(["diff", p, SYMX], "poly", pr.diff(P, X), "diff(p,x)")
        ask(["sdiff", p, SYMX], "poly", pr.diff(P, X), "sdiff(p,x)")
        ask(["diff", p, ["symbol", "y"]], "poly", {}, "diff(p,y)")
        # divides
        if num and cls in ("I", "Q"):
            integral = cls == "I"
            mode = case["dv"]
            if mode == "raw":
                bd, bref = qd, R(2)
            else:
                prod = dmul(pd, qd)
                if mode == "pqr" and pd:
                    # add a remainder of smaller degree: not divisible unless it vanishes
                    prod = dsub(prod, {e: c for e, c in qd.items() if e < max(pd)})
                bd = prod
                terms = [[e, (int(c) if integral else [Fraction(c).numerator, Fraction(c).denominator])] for e, c in sorted(bd.items())]
                stm.append(ctor(cls, terms, "dict"))
                bref = R(len(stm) - 1)
            if not pd:
                if bd:
                    ask(["divides_upoly", p, bref], "div", (False, None), "divides_upoly(0,b)")
                else:
                    self.skip("divides(0,0)_unspecified")
            else:
                ok, quo, agrees = ref_divides(pd, bd, integral)
                if agrees or not self.known(K_DIVTC):
                    ask(["divides_upoly", p, bref], "div", (ok, quo), "divides_upoly(p,b) b=%s" % sorted(bd.items()))
                    if ok:
                        self.nontriv(("div", cls, str(sorted(pd.items())), str(sorted(bd.items()))))
        res = self.run_nominating(stm)
        if res is None:
            return
        for idx, kind, want, what in plan:
            r = res[idx]
            self.count()
            self.cls(cls + ":" + what.split("(")[0])
            d2 = dict(det, op=what)
            if kind == "poly":
                self.expect_poly(cls, r, want, what, d2)
            elif kind == "int":
                if self.bad_exc(r, what, d2):
                    continue
                if r != want:
                    if cls == "E" and self.stored_zero(res[1]):
                        self.skip("expr_zero_valued_coefficient")
                        continue
                    raise Violation("%s returned %s, expected %s" % (what, r, want), d2)
            elif kind == "coef":
                self.expect_coef(cls, r, want, what, d2)
            elif kind == "coefs":
                if self.bad_exc(r, what, d2):
                    continue
                if not isinstance(r, list) or len(r) != len(want):
                    raise Violation("%s returned %s" % (what, str(r)[:300]), d2)
                for ri, wi in zip(r, want):
                    self.expect_coef(cls, ri, wi, what, d2)
            elif kind == "expr":
                if self.bad_exc(r, what, d2):
                    continue
                try:
                    val = pr.dump_pp(B(r))
                except Unsupported:
                    self.skip("unsupported_tree")
                    continue
                if val != want:
                    raise Violation("%s has the value %s, expected %s" % (what, pr.show(val), pr.show(want)), dict(d2, got=B(r)))
            elif kind == "div":
                self.expect_div(cls, r, want, what, d2)
        if not P or not Q:
            self.nontriv(("zero", cls, str(case["p"]), str(case["q"]), case["n"]))
        elif cls == "I" and (min(pd.values()) < 0 < max(pd.values()) or min(qd.values()) < 0 < max(qd.values())):
            self.nontriv(("mixed", str(case["p"]), str(case["q"])))
        self.sample({"kind": "arith", "cls": CLASS[cls], "p": pr.show(P, 120), "q": pr.show(Q, 120), "n": n, "statements": len(stm)})

    def stored_zero(self, r):
        try:
            return any(not c for c in pr.upoly_coeffs(B(r)).values())
        except Exception:
            return True

    def expect_coef(self, cls, r, want, what, detail):
        if self.bad_exc(r, what, detail):
            return
        if cls in ("I", "Q"):
            w = num_out(cls, pr.as_const(want))
            if r != w:
                raise Violation("%s returned %s, expected %s" % (what, r, w), detail)
            return
        try:
            val = pr.dump_pp(B(r))
        except Unsupported:
            self.skip("unsupported_tree")
            return
        if val != want:
            raise Violation("%s has the value %s, expected %s" % (what, pr.show(val), pr.show(want)), dict(detail, got=B(r)))

    def expect_div(self, cls, r, want, what, detail):
        if self.bad_exc(r, what, detail):
            return
        ok, quo = want
        if not isinstance(r, list) or len(r) != 2 or r[0] is not ok:
            raise Violation("%s returned %s, reference says %s" % (what, str(r)[:300], ok), detail)
        if ok:
            wq = want_dump(cls, {((X, Fraction(e)),) if e else pr.ONE: Fraction(c) for e, c in quo.items()})
            if B(r[1]) != wq:
                raise Violation("%s returned the quotient %s, expected %s" % (what, B(r[1]), wq), detail)

    # ------------------------------------------------------------ Kronecker stress
    def judge_kron(self, case):
        cls = "I"
        P, Q = poly_pp(cls, case["p"]), poly_pp(cls, case["q"])
        pd = {e: int(c) for e, c in idict(P).items()}
        qd = {e: int(c) for e, c in idict(Q).items()}
        stm = [["let", SYMX], ["let", ctor(cls, case["p"], "dict")], ["let", ctor(cls, case["q"], "vec")]]
        plan = []
        if case.get("boundary"):
            self.cls("kron:threshold_boundary_pair" if hits_threshold(pd, qd) else "kron:threshold_boundary_pair_stale")
        for (a, b, ad, bd, nm) in ((1, 2, pd, qd, "p*q"), (2, 1, qd, pd, "q*p"), (1, 1, pd, pd, "p*p")):
            if self.known(mul_upoly_tags(ad, bd)):
                continue
            plan.append((len(stm), "mul_upoly(%s)" % nm, dmul(ad, bd), ad, bd))
            stm.append(["mul_upoly", R(a), R(b)])
        n = case["n"]
        if max(pd) * n > 40 or pr.bits(P) * n > 700:
            n = 2
        if max(pd) * pr.bits(P) > 3000:
            self.cls("kron:pow_skipped_large")
        elif not self.known(pow_tags(pd, n, "I")):
            w = {0: 1}
            for _ in range(n):
                w = dmul(w, pd)
            plan.append((len(stm), "pow_upoly(p,%d)" % n, w, pd, pd))
            stm.append(["pow_upoly", R(1), n])
        # divides(p, p*q): the quotient is q; every step multiplies p by a single term
        prod = dmul(pd, qd)
        ok, quo, agrees = ref_divides(pd, prod, True)
        if len(qd) > 8:
            self.cls("kron:divides_skipped_long_quotient")
        elif agrees or not self.known(K_DIVTC):
            stm.append(["let", ctor(cls, [[e, c] for e, c in sorted(prod.items())], "dict")])
            plan.append((len(stm), "divides_upoly(p,p*q)", (ok, quo), pd, qd))
            stm.append(["divides_upoly", R(1), R(len(stm) - 1)])
        res = self.run_nominating(stm)
        if res is None:
            return
        det = {"p": sorted(pd.items()), "q": sorted(qd.items())}
        for idx, what, want, ad, bd in plan:
            r = res[idx]
            self.count()
            self.cls("kron:" + what.split("(")[0])
            if what.startswith("divides"):
                self.expect_div(cls, r, want, what, det)
                continue
            if self.bad_exc(r, what, det):
                continue
            wd = ["UIntPoly", ["Symbol", X], [[e, str(want[e])] for e in sorted(want)]]
            if B(r) != wd:
                got = B(r)
                diffs = [(e, c) for e, c in (got[2] if got and got[0] == "UIntPoly" else []) if str(want.get(e)) != c][:4]
                raise Violation("%s is wrong at %s (expected %s)" % (what, diffs, [(e, want.get(e)) for e, _ in diffs]),
                                dict(det, got=got, expected=wd))
            # non-trivial: mixed signs (signed digits with carries) or a coefficient close to the slot threshold
            nb = bl(min(max(ad) + 1, max(bd) + 1)) + bl(max(abs(v) for v in ad.values())) + bl(max(abs(v) for v in bd.values()))
            mixed = min(ad.values()) < 0 < max(ad.values()) or min(bd.values()) < 0 < max(bd.values()) or min(want.values()) < 0 < max(want.values())
            near = max(abs(v) for v in want.values()) >= 2 ** (nb - 3)
            if mixed or near:
                self.cls("kron_nontrivial:" + ("mixed" if mixed else "near_threshold"))
                self.nontriv(("kron", what, str(det)))
        self.sample({"kind": "kron", "deg": [max(pd), max(qd)], "terms": [len(pd), len(qd)],
                     "bits": [pr.bits(P), pr.bits(Q)], "n": n})

    # ------------------------------------------------------------ from_basic
    def judge_conv(self, case):
        e = case["e"]
        try:
            ref = pr.recipe_pp(e)
        except (Unsupported, ZeroDivisionError):
            self.skip("ref_unsupported")
            return
        if pr.bits(ref) > 3000 or len(ref) > 200:
            self.skip("ref_large")
            return
        try:
            r1 = self.run([e, ["expand", R(0)], ["find_gens_poly", R(0)]])
        except DriverTimeout:
            self.skip("timeout")
            return
        if any(is_exc(x) for x in r1):
            self.skip("build_declined")
            return
        edump, xdump, gens = B(r1[0]), B(r1[1]), r1[2]
        try:
            if pr.dump_pp(edump) != ref or pr.dump_pp(xdump) != ref:
                # the value of the constructed/expanded tree is C07/C09's business, not judged here
                self.skip("tree_value_differs")
                return
        except Unsupported:
            self.skip("tree_unsupported")
            return
        fam = case["fam"]
        gen_recipe = None
        if len(gens) == 1:
            gb, ge = B(gens[0][0]), B(gens[0][1])
            try:
                gpp = pr.gen_pp(["Pow", gb, ge])
            except Unsupported:
                gpp = None
        else:
            gpp = None
        if gpp is None:
            gpp = pr.var(X)   # explicit generator x for constants / several generators
        (gm, _), = gpp.items()
        if len(gm) != 1:
            self.skip("generator_shape")
            return
        gatom, gexp = gm[0]

        def val(node):
            """reference value {k: int} of a dumped node as a polynomial in the generator"""
            v = pr.dump_pp(node)
            out = {}
            for m, c in v.items():
                k = Fraction(0)
                for a, x in m:
                    if a != gatom:
                        raise Unsupported("foreign atom")
                    k = x / gexp
                if k.denominator != 1 or k < 0 or c.denominator != 1:
                    raise Unsupported("not an integer polynomial in the generator")
                out[int(k)] = int(c)
            return out

        classes = {"sym": "IQE", "rat": "QEI", "expr": "EQ", "sqrt": "IQE", "exp": "IQE", "fun": "IE"}[fam]
        stm = [["let", e], ["let", ["expand", R(0)]]]
        plan = []
        auto_ok = len(gens) == 1
        gen_rec = None
        if auto_ok:
            stm.append(["let", ["nth", ["nth", ["find_gens_poly", R(0)], 0], 0]])
            stm.append(["let", ["nth", ["nth", ["find_gens_poly", R(0)], 0], 1]])
            stm.append(["let", ["pow", R(2), R(3)]])
            gen_rec = R(4)
        elif len(gens) == 0 or fam in ("sym", "rat", "expr"):
            gen_rec = SYMX
        for c in classes:
            if c == "I":
                try:
                    tag = conv_tags(edump, val)
                    tagx = conv_tags(xdump, val)
                except Unsupported:
                    # the mirror cannot tell whether UIntDict::mul is reached with an empty operand
                    tag = tagx = {K_EMPTY} if self.has_vanishing(edump) else set()
                if self.known(tag) or self.known(tagx):
                    continue
            name = CLASS[c]
            variants = []
            if auto_ok:
                variants.append((["upoly_from_basic", name, R(0)], "from_basic<%s>(e)" % name))
                variants.append((["upoly_from_basic", name, R(0), True], "from_basic<%s>(e, ex=true)" % name))
            if gen_rec is not None:
                variants.append((["upoly_from_basic_gen", name, R(0), gen_rec], "from_basic<%s>(e, gen)" % name))
            for rec, what in variants:
                i = len(stm)
                stm.append(rec)
                stm.append(["upoly_as_symbolic", R(i)])
                stm.append(["eq", R(i + 1), R(1)])
                stm.append(["eq", ["expand", R(i + 1)], R(1)])
                plan.append((i, c, what))
        if not plan:
            return
        res = self.run_nominating(stm)
        if res is None:
            return
        det = {"e": e, "expected": pr.show(ref), "tree": edump}
        for i, c, what in plan:
            r = res[i]
            self.count()
            self.cls("conv:%s:%s" % (fam, CLASS[c]))
            if is_exc(r):
                if r["exc"] == "VerifAssertFailure":
                    self.skip("assert_seen")
                elif r["exc"] in ("SymEngineException", "NotImplementedError", "DomainError", "Decline", "Dep", "DivisionByZeroError"):
                    self.skip("declined:" + r["exc"])
                else:
                    raise Violation("%s raised %s: %s" % (what, r["exc"], r.get("what")), det)
                continue
            d = B(r)
            if d is None or d[0] != CLASS[c]:
                raise Violation("%s returned %s" % (what, str(r)[:300]), det)
            try:
                got = pr.dump_pp(d)
                stored = pr.upoly_coeffs(d)
            except Unsupported:
                self.skip("result_unsupported")
                continue
            if got != ref:
                raise Violation("%s = %s has the value %s, the expression has %s" % (what, d, pr.show(got), pr.show(ref)),
                                dict(det, got=d))
            if c in "IQ" and any(not v for v in stored.values()):
                raise Violation("%s stores a zero coefficient: %s" % (what, d), dict(det, got=d))
            # back to an expression
            s, q1, q2 = res[i + 1], res[i + 2], res[i + 3]
            self.count()
            if is_exc(s):
                if s["exc"] == "VerifAssertFailure":
                    self.skip("assert_seen")
                    continue
                raise Violation("as_symbolic(%s) raised %s: %s" % (what, s["exc"], s.get("what")), dict(det, got=d))
            try:
                if pr.dump_pp(B(s)) != ref:
                    raise Violation("as_symbolic(%s) = %s has the value %s, expected %s"
                                    % (what, B(s), pr.show(pr.dump_pp(B(s))), pr.show(ref)), dict(det, got=d))
            except Unsupported:
                self.skip("symbolic_unsupported")
                continue
            # structurally numeric coefficients: as_symbolic is then a sum of c*g**k terms, the expanded form.
            # Expression coefficients are stored unexpanded (e.g. -(1 - a) - a), so for them only
            # expand(as_symbolic) eq expand(e) is demanded
            numeric = c in "IQ" or all(ent[1][0] in ("Integer", "Rational") for ent in d[2])
            if d[1][0] == "Pow" and d[1][1][0] != "Symbol":
                # generators b**x: 2**(x+1) and 2*2**x are both expanded forms; only the value is judged
                self.skip("eq_not_judged_for_exponential_generator")
                continue
            if q1 is not True and not (q2 is True and not numeric):
                if is_exc(q1) or is_exc(q2):
                    self.skip("eq_declined")
                    continue
                raise Violation("as_symbolic(%s) = %s is not eq to expand(e) = %s" % (what, B(s), xdump), dict(det, got=d))
            if d[1] != ["Symbol", X] or edump != xdump:
                self.nontriv(("conv", c, str(e)))
        self.sample({"kind": "conv", "family": fam, "e": e, "value": pr.show(ref, 160)})

    def has_vanishing(self, d):
        """some proper sub-node has the value zero"""
        def walk(n, top):
            if not isinstance(n, list) or not n or not isinstance(n[0], str):
                return False
            if n[0] in ("Add", "Mul", "Pow") and not top:
                try:
                    if not pr.dump_pp(n):
                        return True
                except Unsupported:
                    return True
            if n[0] in ("Add", "Mul"):
                return any(walk(a, False) or walk(b, False) for a, b in n[2])
            if n[0] == "Pow":
                return walk(n[1], False) or walk(n[2], False)
            return False
        return walk(d, True)


if __name__ == "__main__":
    sys.exit(engine.main(C21))
