"""C44 Alternative printers (LaTeX, MathML, Unicode, Julia, SBML) are total and well-formed."""
import os
import sys
import xml.etree.ElementTree as ET

sys.path.insert(0, os.path.join(os.path.dirname(os.path.abspath(__file__)), ".."))
from hypothesis import strategies as st
from pbt import engine, textref as tr
from pbt.engine import Check, Violation, R, B, is_exc

I = lambda n: ["integer", n]
Q = lambda a, b: ["rational", a, b]
S = lambda n: ["symbol", n]
L = lambda *xs: ["list"] + list(xs)

# known library defects found by this check (fixes/text2_findings.json)
T_UNI_EMPTY = "unicode_empty_args"      # unicode(f()) indexes lines_[0] of an empty StringBox (UB / crash)
T_UNI_CPLX = "unicode_complex_width"    # UnicodePrinter::bvisit(Complex): width one too large when |im| != 1
T_XML_ESC = "mathml_unescaped_name"     # <ci>name</ci> without escaping & < >
T_LATEX_SET = "latex_finiteset_brace"   # \left{ ... \right} (bare braces after \left / \right)
T_SBML_NEGINF = "sbml_neginf"           # sbml(-oo) == "inf"
T_SBML_NOT = "sbml_not_strprinter"      # SbmlPrinter::bvisit(Not) prints its argument with StrPrinter (** And( ...)
T_RECIP = "pow_of_reciprocal"           # same root cause as KF-C16-02: (c/a)**q holds (a**-1)**q, pow() gives a**-q

PRINTERS = ["unicode", "latex", "mathml", "julia_str", "sbml"]


def has_zero_arg_fsym(r):
    if isinstance(r, list) and r:
        if r[0] == "function_symbol" and len(r) == 3 and r[2] == ["list"]:
            return True
        return any(has_zero_arg_fsym(x) for x in r[1:])
    return False


def dump_depth(d):
    if not isinstance(d, list) or not d:
        return 0
    if d[0] in ("Symbol", "Constant", "Integer", "Rational", "RealDouble", "ComplexDouble"):
        return 1
    return (1 if isinstance(d[0], str) and d[0][:1].isupper() else 0) + max([dump_depth(x) for x in tr.kids(d)] + [0])


def has_complex_mul_form(d):
    """a Complex that the Unicode printer may print with a multiplication dot: imaginary part not +-1, or rational parts
    (a Mul coefficient is split into numerator / denominator first)"""
    if isinstance(d, list) and d:
        if d[0] == "Complex":
            re_, im = d[1], d[2]
            return im not in (["Integer", "1"], ["Integer", "-1"]) or re_[0] == "Rational"
        if d[0] in ("Symbol", "Constant", "Integer", "Rational", "RealDouble", "ComplexDouble"):
            return False
        return any(has_complex_mul_form(x) for x in tr.kids(d))
    return False


def has_head(d, names):
    return bool(tr.dump_heads(d) & set(names))


def not_with_compound_arg(d):
    """a Not whose argument is printed differently by StrPrinter and SbmlPrinter"""
    if isinstance(d, list) and d:
        if d[0] == "Not":
            return True
        if d[0] in ("Symbol", "Constant", "Integer", "Rational", "RealDouble", "ComplexDouble"):
            return False
        return any(not_with_compound_arg(x) for x in tr.kids(d))
    return False


def rel_of_boolean(d):
    if isinstance(d, list) and d:
        if d[0] in ("Equality", "Unequality", "LessThan", "StrictLessThan"):
            for a in d[1:]:
                if isinstance(a, list) and a and a[0] in ("Equality", "Unequality", "LessThan", "StrictLessThan", "And", "Or",
                                                          "Xor", "Not", "BooleanAtom", "Piecewise"):
                    return True
        if d[0] in ("Symbol", "Constant", "Integer", "Rational", "RealDouble", "ComplexDouble"):
            return False
        return any(rel_of_boolean(x) for x in tr.kids(d))
    return False


def towers():
    """deterministic deep nestings (depth 5..9) of fractions, powers, roots, functions"""
    x, y = S("x"), S("y")
    out = []
    for depth in (5, 7, 9):
        for seed in (x, ["add", x, Q(1, 2)], ["complex", I(1), I(2)]):
            a = b = c = d = e = f = g = seed
            for _ in range(depth):
                a = ["div", I(1), ["add", I(1), a]]
                b = ["pow", x, b]
                c = ["sqrt", ["add", I(1), c]]
                d = ["sin", ["div", d, y]]
                e = ["abs", ["floor", ["div", e, I(2)]]]
                f = ["pow", ["div", f, y], Q(2, 3)]
                g = ["piecewise", L(L(["div", g, I(2)], ["Lt", x, I(1)]), L(x, ["true"]))]
            out += [a, b, c, d, e, f, g, ["div", a, b], ["pow", c, d], ["mul", e, f], ["Eq", a, c], ["function_symbol", "f", L(a, b)]]
    return out


def fixed_recipes():
    x, y, z = S("x"), S("y"), S("z")
    out = []
    for n in tr.C44_NAMES:
        out += [S(n), ["pow", S(n), I(2)], ["div", S(n), y], ["function_symbol", n, L(x)], ["sin", S(n)], ["add", S(n), I(1)],
                ["div", I(1), ["add", S(n), ["div", x, y]]]]
    nums = [I(0), I(-3), I(10 ** 40), Q(1, 2), Q(-7, 3), ["constant", "I"], ["complex", I(0), I(-1)], ["complex", I(0), I(2)],
            ["complex", I(0), I(-2)], ["complex", I(1), I(1)], ["complex", I(3), I(-4)], ["complex", Q(1, 2), Q(-3, 4)],
            ["complex", I(0), Q(2, 3)], ["real_double", 0.5], ["real_double", -1e-10], ["real_double", float("inf")],
            ["real_double", float("nan")], ["complex_double", 1.0, -2.0], ["oo"], ["noo"], ["zoo"], ["nan"], ["constant", "pi"],
            ["constant", "E"], ["constant", "EulerGamma"], ["constant", "Catalan"], ["constant", "GoldenRatio"]]
    out += nums
    for n in nums:
        out += [["mul", n, x], ["add", n, x], ["pow", n, x], ["pow", x, n], ["div", ["mul", n, x], y], ["div", x, ["mul", n, y]],
                ["pow", ["div", x, y], n], ["sqrt", ["add", n, x]], ["abs", ["div", n, x]], ["Lt", x, n],
                ["piecewise", L(L(["div", n, x], ["Lt", x, y]), L(n, ["true"]))], ["finiteset", L(n, x)]]
    args = [x, ["div", x, y], ["pow", x, I(2)], Q(1, 3), ["add", x, I(1)]]
    for f in tr.C44_FUN1:
        out += [[f, a] for a in args] + [["pow", [f, x], I(2)], ["div", [f, x], y]]
    for f in tr.C44_FUN2:
        out += [[f, a, b] for a in args[:3] for b in args[:3]]
    for f in tr.C44_NARY:
        out += [[f, L(x, y)], [f, L(x, y, z)], [f, L(["div", x, y], I(2), z)]]
    out += [["function_symbol", "f", L()], ["add", ["function_symbol", "g", L()], x], ["function_symbol", "f", L(x, y, z)]]
    fxy = ["function_symbol", "f", L(x, y)]
    out += [["diff", fxy, x], ["diff", ["diff", fxy, x], y], ["diff", ["diff", fxy, x], x],
            ["diff", ["function_symbol", "g", L(["mul", I(2), x])], x], ["diff", ["function_symbol", "g", L(["pow", x, I(2)], y)], x],
            ["div", ["diff", fxy, x], y], ["pow", ["diff", fxy, x], I(2)]]
    b1, b2, b3 = ["Lt", x, y], ["Ge", ["div", y, z], I(2)], ["Ne", x, I(0)]
    out += [[o, a, b] for o in tr._RELS for a, b in ((x, y), (["div", x, y], Q(1, 2)), (["pow", x, y], ["sqrt", z]))]
    for o in ("and", "or", "xor", "nand", "nor", "xnor"):
        out += [[o, L(b1, b2)], [o, L(b1, b2, b3)], [o, L(b1, ["and", L(b2, b3)])], [o, L(b1, ["or", L(b2, b3)])],
                [o, L(b1, ["xor", L(b2, b3)])], [o, L(b1, ["contains", x, ["interval", I(0), I(1), False, True]])]]
    out += [["not", b1], ["not", ["xor", L(b1, b2)]], ["not", ["xor", L(["Lt", ["pow", x, I(2)], y], b2)]], ["true"], ["false"],
            ["not", ["contains", x, ["reals"]]], ["contains", ["div", x, y], ["interval", I(0), ["oo"], False, True]]]
    simple = [["interval", I(0), I(1), lo, ro] for lo in (False, True) for ro in (False, True)]
    simple += [["interval", Q(-1, 2), ["oo"], False, True], ["interval", ["noo"], I(0), True, False], ["finiteset", L(x)],
               ["finiteset", L(x, y, I(1))], ["finiteset", L(["div", x, y], ["pow", x, I(2)])], ["emptyset"], ["universalset"],
               ["reals"], ["integers"]]
    other = [["rationals"], ["naturals"], ["naturals0"], ["complexes"], ["conditionset", x, b1], ["conditionset", x, ["and", L(b1, b3)]],
             ["imageset", x, ["pow", x, I(2)], ["integers"]], ["imageset", x, ["div", x, y], ["interval", I(0), I(1), False, False]]]
    out += simple + other
    for a in simple:
        for b in simple:
            out += [["set_union", L(a, b)], ["set_intersection", L(a, b)], ["set_complement", a, b]]
    out += [["piecewise", L(L(x, b1), L(y, ["true"]))], ["piecewise", L(L(["div", x, y], b1), L(["pow", y, z], b2), L(z, ["true"]))],
            ["piecewise", L(L(x, b1), L(y, b2))], ["piecewise", L(L(["div", x, y], b1))],
            ["mul", I(2), ["piecewise", L(L(x, b1), L(y, ["true"]))]], ["pow", ["piecewise", L(L(x, b1), L(y, ["true"]))], I(2)]]
    out += towers()
    return out


class C44(Check):
    pid = "C44"
    timeout = 60.0
    rule = ("expressions of every class the five printers visit, built through the API from a generated plan (pbt/textref.py): all "
            "number kinds (incl. complex with |im| != 1, inf/nan doubles, 60-digit integers), symbols and function symbols whose "
            "names are plain / LaTeX-structured (underscores, greek) / XML-special (& < > \") / 80 characters / non-ASCII UTF-8, "
            "constants, infinities, Add/Mul/Pow with fractions, roots, nested powers, every function class (also truncate, "
            "conjugate, kronecker_delta, levi_civita, polygamma, unevaluated_expr), zero-argument function symbols, Derivative "
            "and Subs, relationals, And/Or/Xor/Not, Contains, Piecewise, intervals, finite sets, unions, intersections, "
            "complements, condition sets, image sets, the named sets; plus a deterministic table incl. nestings of depth 5-9. "
            "Oracles: every printer returns a string or throws a library exception (anything else, or a crash, is a violation); "
            "mathml(e) parses with xml.etree; latex(e) nests { }, \\left \\right (followed by a real delimiter) and "
            "\\begin \\end properly; unicode(e) has rows of one common width in code points (ASCII names only: the printer "
            "measures user-supplied names in bytes); julia_str(e) has balanced parentheses; on the SBML fragment "
            "(classes/names both sbml.cpp and sbml_parser.cpp know) eq(parse_sbml(sbml(e)), e), with doubles "
            "str(parse_sbml(sbml(e))) == str(e). Non-trivial: dump depth >= 4 containing a fraction or power together with a "
            "function, root or nested power; distinct by str(e).")
    assumptions = ["LaTeX nesting is judged only when no symbol name contains \\ { } % # $ & ^ ~ (names are copied verbatim)",
                   "MathML is judged only for names that are valid UTF-8 without control characters",
                   "the Unicode printer's wrong signs / reversed exponent rows are outside the statement (well-formedness only)",
                   "SBML: zoo, Complex, constants other than pi/E, names the SBML parser reserves are outside the fragment; results "
                   "with zero or non-finite doubles are skipped as in C16"]
    tiers = {"quick": {"examples": 1600}, "thorough": {"examples": 40000}}
    batch = 6

    def enumerate(self, tier):
        rs = fixed_recipes()
        for k in range(0, len(rs), 10):
            yield {"items": rs[k:k + 10]}

    def strategy(self, tier):
        return st.fixed_dictionaries({"items": st.lists(tr.c44_item(12), min_size=self.batch, max_size=self.batch)})

    def judge(self, case):
        stmts = []
        plan = []
        for r in case["items"]:
            skip_unicode = False
            if has_zero_arg_fsym(r) and self.tag_active(T_UNI_EMPTY):
                self.skip("known:" + T_UNI_EMPTY)
                skip_unicode = True
            k = len(stmts)
            stmts.append(["let", r])                       # k
            stmts.append(["obs", R(k)])                    # k+1
            for pr in PRINTERS:                            # k+2 .. k+6
                stmts.append(["id", "skipped"] if (pr == "unicode" and skip_unicode) else [pr, R(k)])
            plan.append((r, k, skip_unicode))
        res = self.run(stmts)
        # second run: parse_sbml only for the items inside the SBML fragment (text of anything else may denote operators
        # between non-booleans, which the SBML parser casts without a check -- a parser defect owned by C18/C42)
        stmts2, where = [], {}
        for r, k, su in plan:
            if is_exc(res[k]) or is_exc(res[k + 1]) or not isinstance(res[k + 6], str):
                continue
            d = B(res[k + 1]["d"])
            ok, why = tr.in_sbml_fragment(d)
            if ok and not rel_of_boolean(d):
                j = len(stmts2)
                stmts2 += [["let", r], ["let", ["parse_sbml", ["sbml", R(j)]]], ["eq", R(j + 1), R(j)], ["str", R(j + 1)]]
                where[k] = j
        res2 = self.run(stmts2) if stmts2 else []
        for r, k, su in plan:
            j = where.get(k)
            self.judge_item(r, res, k, su, res2[j + 1:j + 4] if j is not None else None)

    def judge_item(self, r, res, k, skip_unicode, sb):
        e, obs = res[k], res[k + 1]
        if is_exc(e) or is_exc(obs):
            x = e if is_exc(e) else obs
            self.skip("assert_seen" if x["exc"] == "VerifAssertFailure" else "build:" + x["exc"])
            return
        d, s = B(obs["d"]), obs["s"]
        names = tr.recipe_names(r)
        self.count()
        heads = tr.dump_heads(d)
        for h in heads:
            self.cls(h)
        depth = dump_depth(d)
        pairs = tr.power_pairs(d)
        frac = any(ex[0] in ("Integer", "Rational") and ex[1].startswith("-") for _, ex in pairs) or "Rational" in heads
        power = any(ex != ["Integer", "1"] and ex != ["Integer", "-1"] for _, ex in pairs)
        func = bool(heads - {"Integer", "Rational", "Complex", "RealDouble", "ComplexDouble", "Symbol", "Constant", "Infty", "NaN",
                             "Add", "Mul", "Pow"})
        nested = any(isinstance(b, list) and b[0] in ("Pow", "Mul", "Add") for b, ex in pairs if ex != ["Integer", "1"])
        if depth >= 4 and (frac or power) and (func or nested):
            self.nontriv(s)
        self.sample({"recipe": engine.sx(r)[:240], "str": s[:200]})
        detail = {"recipe": r, "str": s}
        out = {}
        for i, pr in enumerate(PRINTERS):
            v = res[k + 2 + i]
            if is_exc(v):
                if v["exc"] == "VerifAssertFailure":
                    self.skip("assert_seen")
                elif v["exc"] in tr.LIB_EXC:
                    self.skip("declined:%s:%s" % (pr, v["exc"]))
                else:
                    raise Violation("%s(e) fails with the non-library exception %s (%s); str(e) = %r"
                                    % (pr, v["exc"], v.get("what"), s), detail)
                continue
            if not isinstance(v, str):
                raise engine.GeneratorDefect("printer returned %r" % (v,))
            out[pr] = v
        ascii_names = all(all(ord(c) < 0x80 for c in n) for n in names)
        utf8_names = all(tr.from_driver_utf8(n) is not None and all(ord(c) >= 0x20 for c in n) for n in names)
        # ---- MathML
        if "mathml" in out and utf8_names:
            special = any(set(n) & tr.C44_XML_SPECIAL for n in names)
            if special and self.tag_active(T_XML_ESC):
                self.skip("known:" + T_XML_ESC)
            else:
                self.cls("judged:mathml")
                try:
                    ET.fromstring(out["mathml"].encode("latin-1"))
                except ET.ParseError as ex:
                    raise Violation("mathml(e) is not well-formed XML (%s): %r; str(e) = %r" % (ex, out["mathml"][:300], s),
                                    dict(detail, mathml=out["mathml"]))
        # ---- LaTeX
        if "latex" in out and not any(set(n) & set("\\{}%#$&^~") for n in names):
            if "FiniteSet" in heads and self.tag_active(T_LATEX_SET):
                self.skip("known:" + T_LATEX_SET)
            else:
                self.cls("judged:latex")
                prob = tr.latex_problem(out["latex"])
                if prob:
                    raise Violation("latex(e) groups do not nest: %s: %r; str(e) = %r" % (prob, out["latex"][:300], s),
                                    dict(detail, latex=out["latex"]))
        # ---- Unicode
        if "unicode" in out and not skip_unicode and utf8_names:
            text = tr.from_driver_utf8(out["unicode"])
            if text is None:
                raise Violation("unicode(e) is not valid UTF-8 although all names are; str(e) = %r" % s, detail)
            if ascii_names:
                if has_complex_mul_form(d) and self.tag_active(T_UNI_CPLX):
                    self.skip("known:" + T_UNI_CPLX)
                else:
                    self.cls("judged:unicode")
                    if "\n" in text:
                        self.cls("unicode_multirow")
                    prob = tr.unicode_problem(text)
                    if prob:
                        raise Violation("unicode(e) is not rectangular: %s:\n%s\nstr(e) = %r" % (prob, text[:600], s),
                                        dict(detail, unicode=text))
        # ---- Julia
        if "julia_str" in out and not any(set(n) & set("()") for n in names) and "Interval" not in heads:
            self.cls("judged:julia")
            prob = tr.paren_problem(out["julia_str"])
            if prob:
                raise Violation("julia_str(e) has %s: %r" % (prob, out["julia_str"][:300]), detail)
        # ---- SBML round trip
        if "sbml" in out:
            ok, why = tr.in_sbml_fragment(d)
            if ok and rel_of_boolean(d):
                ok, why = False, "relational_of_boolean"
            if not ok:
                self.cls("sbml_outside:" + why.split(":")[0])
                return
            dbl = tr.dump_doubles(d)
            if any(h in ("inf", "-inf", "nan", "-nan") or engine.hexf(h) == 0 for h in dbl):
                self.skip("sbml:zero_or_nonfinite_double")
                return
            if self.tag_active(T_SBML_NEGINF) and any(k_ == "Infty" and p == ["Integer", "-1"] for k_, p in tr.dump_atoms(d)):
                self.skip("known:" + T_SBML_NEGINF)
                return
            if self.tag_active(T_SBML_NOT) and not_with_compound_arg(d):
                self.skip("known:" + T_SBML_NOT)
                return
            if self.tag_active(T_RECIP) and tr.has_pow_of_reciprocal(d):
                self.skip("known:" + T_RECIP)
                return
            if sb is None:
                raise engine.GeneratorDefect("fragment item without SBML re-parse")
            p, eqp, sp = sb
            det = dict(detail, sbml=out["sbml"])
            if is_exc(p):
                if p["exc"] == "VerifAssertFailure":
                    self.skip("assert_seen")
                    return
                if p["exc"] == "ParseError":
                    raise Violation("parse_sbml(sbml(e)) fails: sbml(e) = %r: %s; str(e) = %r" % (out["sbml"], p.get("what"), s), det)
                self.skip("sbml_reparse_throw:" + p["exc"])
                return
            if is_exc(eqp) or is_exc(sp):
                self.skip("sbml_obs_throw")
                return
            self.cls("judged:sbml_roundtrip")
            if dbl:
                if sp != s:
                    raise Violation("str(parse_sbml(sbml(e))) = %r differs from str(e) = %r; sbml(e) = %r" % (sp, s, out["sbml"]), det)
            elif eqp is not True:
                raise Violation("parse_sbml(sbml(e)) != e: sbml(e) = %r, e = %r, re-parsed = %r" % (out["sbml"], s, sp), det)


if __name__ == "__main__":
    sys.exit(engine.main(C44))
