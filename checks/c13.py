"""C13 Lambda double callbacks compute the expression's value (LambdaRealDoubleVisitor /
LambdaComplexDoubleVisitor: init(inputs, outputs, cse), call; histories of re-initialisations)."""
import json
import math
import os
import re
import sys

sys.path.insert(0, os.path.join(os.path.dirname(os.path.abspath(__file__)), ".."))
from hypothesis import strategies as st
from mpmath import mpf, mpc
from pbt import engine, gen
from pbt.engine import Check, Violation, B, F, R, is_exc
from pbt import oracle_num as on
from pbt import evalnum as en
from pbt.oracle_num import Unjudgeable

# ---- node lists read from symengine/lambda_double.h
# LambdaDoubleVisitor<T> (both visitors), lines 112-363
BASE_NODES = ["Symbol", "Integer", "Rational", "RealDouble", "Add", "Mul", "Pow", "Sin", "Cos", "Tan", "Log", "Cot", "Csc",
              "Sec", "ASin", "ACos", "ASec", "ACsc", "ATan", "ACot", "Sinh", "Csch", "Cosh", "Sech", "Tanh", "Coth",
              "ASinh", "ACsch", "ACosh", "ATanh", "ACoth", "ASech", "Constant", "Abs", "UnevaluatedExpr"]
# LambdaRealDoubleVisitor only, lines 377-632 (NaN is not generated: its value is a signalling NaN by definition)
REAL_NODES = ["ATan2", "Gamma", "LogGamma", "Erf", "Erfc", "Equality", "Unequality", "LessThan", "StrictLessThan", "And",
              "Or", "Xor", "Not", "Max", "Min", "Sign", "Floor", "Ceiling", "Truncate", "Infty", "Contains", "BooleanAtom",
              "Piecewise"]
# LambdaComplexDoubleVisitor only, lines 647-671
COMPLEX_NODES = ["Complex", "ComplexDouble"]

UNARY_BASE = ["neg", "sqrt", "cbrt", "exp", "sin", "cos", "tan", "cot", "csc", "sec", "asin", "acos", "asec", "acsc",
              "atan", "acot", "sinh", "csch", "cosh", "sech", "tanh", "coth", "asinh", "acsch", "acosh", "atanh",
              "acoth", "asech", "log", "abs", "unevaluated_expr"]
UNARY_REAL = ["gamma", "loggamma", "erf", "erfc", "sign", "floor", "ceiling", "truncate"]
BINARY = ["add", "sub", "mul", "div", "pow"]
RELS = ["Eq", "Ne", "Lt", "Le", "Gt", "Ge"]
NAMES = ["x", "y", "x0", "x1", "z", "x2", "t", "x0", "x1"]   # x0, x1, x2 are the names CSE gives its temporaries

I = lambda n: ["integer", n]
Q = lambda a, b: gen._rat(a, b)
L = lambda *a: ["list"] + list(a)
CSE_TEMP = re.compile(r"^x[0-9]+$")
# known-finding tags (GUIDE "Known findings protocol"): an exclusion is applied iff self.tag_active(tag)
TAG_TEMP = "cse_temp_named_like_unused_input"        # KF-C13-01
TAG_STALE = "stale_cse_map_after_throwing_init"      # KF-C13-02
TAG_GAMMA = "gamma_half_integer_int_overflow"        # gamma_multiple_2 `int` product (crasher at construction)


def numbers(cmode):
    small = st.integers(-6, 6).map(I)
    rat = st.builds(Q, st.integers(-12, 12), st.integers(1, 6))
    dbl = st.sampled_from(gen.FLOAT_POOL[:6] + [-0.75, 2.0, 1.0]).map(lambda f: ["real_double", f])
    con = st.sampled_from(["pi", "E", "EulerGamma", "Catalan", "GoldenRatio"]).map(lambda n: ["constant", n])
    opts = [(4, small), (3, rat), (2, dbl), (2, con)]
    if cmode:
        part = st.builds(Q, st.integers(-6, 6), st.integers(1, 4))
        opts += [(3, st.builds(lambda a, b: ["complex", a, b], part, part.filter(lambda q: q != I(0)))),
                 (2, st.builds(lambda a, b: ["complex_double", a, b], st.sampled_from(gen.FLOAT_POOL[:6]),
                               st.sampled_from(gen.FLOAT_POOL[:6]))),
                 (1, st.just(["constant", "I"]))]
    return en.weighted(opts)


def tree(cmode, max_leaves, refs=True):
    """trees over placeholders ["sym", k] (input symbol k) and ["ref", k] (shared sub-expression k)"""
    sym = st.integers(0, 7).map(lambda k: ["sym", k])
    leaves = [(6, sym), (2, numbers(cmode))]
    if refs:
        leaves.append((6, st.integers(0, 3).map(lambda k: ["ref", k])))
    leaf = en.weighted(leaves)
    un = UNARY_BASE + ([] if cmode else UNARY_REAL * 2)

    def ext(ch):
        opts = [(8, st.builds(lambda o, a: [o, a], st.sampled_from(un), ch)),
                (4, st.builds(lambda o, a, b: [o, a, b], st.sampled_from(BINARY), ch, ch)),
                (1, st.builds(lambda a, n: ["pow", a, I(n)], ch, st.integers(-3, 4))),
                (1, st.builds(lambda o, xs: [o, L(*xs)], st.sampled_from(["add_vec", "mul_vec"]),
                              st.lists(ch, min_size=2, max_size=3)))]
        if not cmode:
            rel = st.builds(lambda o, a, b: [o, a, b], st.sampled_from(RELS), ch, ch)
            lo = st.one_of(st.just(["noo"]), st.integers(-8, 0).map(lambda n: Q(n, 2)))
            hi = st.one_of(st.just(["oo"]), st.integers(1, 8).map(lambda n: Q(n, 2)))
            cont = st.builds(lambda e, a, b, lo_, ro_: ["contains", e, ["interval", a, b, lo_, ro_]], ch, lo, hi,
                             st.booleans(), st.booleans())
            atom = en.weighted([(4, rel), (2, cont), (1, st.sampled_from([["true"], ["false"]]))])
            logic = en.weighted([
                (2, atom),
                (3, st.builds(lambda o, xs: [o, L(*xs)], st.sampled_from(["and", "or", "xor"]),
                              st.lists(atom, min_size=2, max_size=3))),
                (1, st.builds(lambda a: ["not", a], atom))])
            pw = st.builds(lambda ps, last: ["piecewise", L(*([L(e, c) for e, c in ps] + [L(last, ["true"])]))],
                           st.lists(st.tuples(ch, logic), min_size=1, max_size=3), ch)
            opts += [(1, st.builds(lambda a, b: ["atan2", a, b], ch, ch)),
                     (1, st.builds(lambda o, xs: [o, L(*xs)], st.sampled_from(["max", "min"]),
                                   st.lists(ch, min_size=2, max_size=3))),
                     (2, pw), (2, logic)]
        return en.weighted(opts)
    return st.recursive(leaf, ext, max_leaves=max_leaves)


def resolve(t, used, shared):
    """placeholders -> symbols / shared sub-expressions (the same python object: structurally identical)"""
    if not isinstance(t, list):
        return t
    if t[0] == "sym":
        return ["symbol", used[t[1] % len(used)]]
    if t[0] == "ref":
        if not shared:
            return ["symbol", used[t[1] % len(used)]]
        return shared[t[1] % len(shared)]
    return [t[0]] + [resolve(x, used, shared) for x in t[1:]]


BAD_KINDS = ["fsym", "lambertw", "zeta", "free_symbol", "free_x0", "free_x1", "free_x0", "pw_no_default",
             "contains_reals", "erf_complex", "gamma_complex"]


def bad_node(kind, s):
    """an expression the visitor must reject (s: a valid sub-expression over the inputs)"""
    if kind == "fsym":
        return ["function_symbol", "f", L(s)]
    if kind == "lambertw":
        return ["lambertw", s]
    if kind == "zeta":
        return ["zeta", s]
    if kind == "free_symbol":
        return ["add", s, ["symbol", "q_not_an_input"]]
    if kind in ("free_x0", "free_x1"):
        return ["mul", ["add", s, I(2)], ["symbol", kind[5:]]]
    if kind == "pw_no_default":
        return ["piecewise", L(L(s, ["Lt", s, I(0)]), L(["sin", s], ["Ge", s, I(0)]))]
    if kind == "contains_reals":
        return ["contains", s, ["reals"]]
    if kind == "erf_complex":
        return ["erf", s]
    return ["gamma", s]


def make_case(kind, inits):
    cm = kind == "complex"
    steps = []
    for (names, m, shared_t, outs_t, cse, vecs, bad) in inits:
        syms = []
        for n in names:
            if n not in syms:
                syms.append(n)
        if m % 4 != 0:
            # usually the names that look like CSE temporaries are among the symbols the outputs use
            # (an *unused* input named like a temporary triggers the known finding KF-C13 every time)
            syms.sort(key=lambda n: 0 if CSE_TEMP.match(n) else 1)
        used = syms[:max(1, min(m, len(syms)))]
        if cm:
            xs = [[complex(v[2 * i], v[2 * i + 1]) for i in range(len(syms))] for v in vecs]
        else:
            xs = [[v[i] for i in range(len(syms))] for v in vecs]
        env = dict(zip(syms, xs[0]))
        shared = []
        for t in shared_t:
            r = en.repair(resolve(t, used, []), cm, env, True)[0]
            if r[0] in ("symbol", "integer", "rational", "real_double", "constant", "complex", "complex_double"):
                r = en.repair(["sin", ["add", r, ["symbol", used[0]]]], cm, env, True)[0]
            shared.append(r)
        outs = [en.repair(resolve(t, used, shared), cm, env, True)[0] for t in outs_t]
        step = {"syms": syms, "outs": outs, "cse": cse,
                "x": [[[z.real, z.imag] for z in v] for v in xs] if cm else xs}
        if bad is not None:
            bk, pos, wrap = bad
            if (bk in ("free_x0", "free_x1") and bk[5:] in syms) or (bk in ("erf_complex", "gamma_complex") and not cm) \
                    or (bk in ("pw_no_default", "contains_reals") and cm):
                bk = "fsym"
            node = bad_node(bk, outs[pos % len(outs)] if outs[pos % len(outs)][0] not in en.BOOL_HEADS
                            else ["symbol", used[0]])
            if wrap and bk != "contains_reals":
                node = ["add", ["sin", ["symbol", used[0]]], node]
            step["outs"] = outs[:pos % (len(outs) + 1)] + [node] + outs[pos % (len(outs) + 1):]
            step["bad"] = bk
        steps.append(step)
    return {"kind": kind, "steps": steps}


def same_double(a, b):
    return a == b or (a != a and b != b)


def finite(x):
    return x == x and x not in (float("inf"), float("-inf"))


def nonatomic_subdumps(d, acc):
    if isinstance(d, list) and d:
        if isinstance(d[0], str):
            if d[0] not in ("Integer", "Rational", "RealDouble", "Symbol", "Constant", "Complex", "ComplexDouble",
                            "BooleanAtom", "Infty", "Interval"):
                acc.add(json.dumps(d))
            for x in d[1:]:
                nonatomic_subdumps(x, acc)
        else:
            for x in d:
                nonatomic_subdumps(x, acc)
    return acc


def free_symbols(d, acc):
    if isinstance(d, list) and d:
        if d[0] == "Symbol" and len(d) == 2 and isinstance(d[1], str):
            acc.add(d[1])
        else:
            for x in d[1:] if isinstance(d[0], str) else d:
                free_symbols(x, acc)
    return acc


class C13(Check):
    pid = "C13"
    exe = "driver_eval"
    builds = [("main", ("driver_eval",))]
    rule = ("histories of 1-4 init steps on ONE visitor object (real visitor 4:1 complex; plus a deterministic table: "
            "every unary function / logic form in a two-step history); each step has its own input "
            "symbol vector (1-5 names from x y z t x0 x1 x2; x0.. collide with CSE temporaries; only a prefix of the "
            "inputs is used by the outputs), 1-6 outputs over the visitor's node list (lambda_double.h) built from 0-3 "
            "shared non-atomic sub-expressions, a cse flag and 2 input vectors; arguments are moved into each function's "
            "domain at the first input vector by a deterministic repair pass.  ~1/4 of the steps are inits that must "
            "throw (FunctionSymbol, LambertW, Zeta, free symbol incl. x0/x1, Piecewise without default [assert build], "
            "Contains(Reals), Erf/Gamma in the complex visitor) at a random output position.  After every step the "
            "same init is given to a fresh visitor (must behave identically: throws iff throws, outputs bit-equal) "
            "and to a fresh visitor with the opposite cse flag (outputs agree to max(1e-12 rel, 2 tol)); every output "
            "is compared with the mpmath value of the constructed output at the input vector, tolerance 64*2^-53*E "
            "(E: first-order error mass over all rounding points, kappa>1e4 skipped).  Known findings (tags "
            "cse_temp_named_like_unused_input, stale_cse_map_after_throwing_init, gamma_half_integer_int_overflow) are "
            "excluded narrowly only while their tag is active, counted under skipped['known:*'].  Non-trivial: a step with >= 2 outputs sharing "
            "a non-atomic sub-expression, or a history with >= 2 successful inits; distinct by case.")
    assumptions = ["mpmath principal branches are the reference (DESIGN 3.5)",
                   "glibc libm accurate to a few ulp (factor 64)",
                   "an init that throws declines; a call is only issued after a successful init"]
    tiers = {"quick": {"examples": 1400, "shrink_calls": 80}, "thorough": {"examples": 80000, "shrink_calls": 150}}
    min_nontrivial = 2

    def enumerate(self, tier):
        """every unary function / logic form of the node lists in a two-step history (cse on, then off, or
        the reverse) with three outputs that share a non-atomic sub-expression"""
        x, y = ["sym", 0], ["sym", 1]
        sh = ["add", ["mul", x, y], Q(1, 3)]
        vecs = [[0.640625, -1.296875, 0.3, 0.2, 0.1, 1.1, 2.2, 0.7, 0.9, 1.3], [1.828125, 0.421875, 0.5, 0.25, 0.75, 1.5, 2.5, 0.1, 0.2, 0.3]]
        k = 0
        for cm in (False, True):
            for f in UNARY_BASE + ([] if cm else UNARY_REAL):
                outs = [["add", [f, ["ref", 0]], I(1)], ["mul", ["cos", [f, ["ref", 0]]], y], ["ref", 0]]
                k += 1
                a = (["x", "y", "x0"][: 2 + k % 2], 2, [sh], outs, bool(k % 2), vecs, None)
                b = (["y", "x1", "x"], 3, [sh], outs[::-1], not bool(k % 2), vecs, None)
                yield make_case("complex" if cm else "real", [a, b])
        # a throwing init (unsupported node at the last output, after CSE temporaries were registered) followed by
        # an init that must throw as well (free symbol named like a temporary), followed by valid inits
        for cm in (False, True):
            for bk in ("fsym", "lambertw", "free_symbol"):
                outs = [["add", ["sin", ["ref", 0]], I(1)], ["cos", ["sin", ["ref", 0]]]]
                a = (["y"], 1, [sh], outs, True, vecs, (bk, 2, False))
                b = (["y"], 1, [], [["mul", x, Q(3, 2)]], False, vecs, ("free_x0", 0, False))
                c = (["y", "x"], 2, [sh], outs, True, vecs, None)
                d = (["x0", "y"], 2, [sh], outs, False, vecs, None)
                yield make_case("complex" if cm else "real", [a, b, c, d])
        logic = []
        for o in RELS:
            logic.append([o, ["ref", 0], y])
        c1, c2, c3 = ["Lt", x, y], ["Ge", ["ref", 0], I(0)], ["contains", x, ["interval", Q(-1, 2), ["oo"], True, False]]
        c4 = ["contains", ["ref", 0], ["interval", ["noo"], Q(3, 2), False, True]]
        logic += [["and", L(c1, c2)], ["or", L(c1, c2)], ["xor", L(c1, c2, c3)], ["not", c2], ["and", L(c1, c3, c4)],
                  ["or", L(c4, ["not", c1])], ["xor", L(c1, c4)], c3, c4]
        for i, c in enumerate(logic):
            outs = [["piecewise", L(L(["sin", ["ref", 0]], c), L(["cos", ["ref", 0]], ["true"]))], c,
                    ["max", L(["ref", 0], x, y)], ["min", L(["ref", 0], ["sin", x], y)], ["atan2", ["ref", 0], y]]
            a = (["x", "y"], 2, [sh], outs, bool(i % 2), vecs, None)
            b = (["x0", "x1"], 2, [sh], outs[1:] + outs[:1], not bool(i % 2), [vecs[1], vecs[0]], None)
            yield make_case("real", [a, b])

    def strategy(self, tier):
        def init(cm):
            n = 5 if tier == "quick" else 7
            vec = st.lists(st.one_of(st.integers(-128, 128).map(lambda k: (2 * k + 1) / 64.0),
                                     st.integers(-40, 40).map(lambda k: (2 * k + 1) / 8.0)), min_size=10, max_size=10)
            bad = en.weighted([(3, st.none()),
                               (1, st.tuples(st.sampled_from(BAD_KINDS), st.integers(0, 6), st.booleans()))])
            return st.tuples(st.lists(st.sampled_from(NAMES), min_size=1, max_size=5), st.integers(1, 5),
                             st.lists(tree(cm, 3, refs=False), min_size=0, max_size=3).filter(lambda l: len(l) != 0)
                             | st.lists(tree(cm, 3, refs=False), min_size=0, max_size=1),
                             st.lists(tree(cm, n), min_size=1, max_size=6), st.booleans(),
                             st.lists(vec, min_size=2, max_size=2), bad)
        real = st.builds(lambda xs: make_case("real", xs), st.lists(init(False), min_size=1, max_size=4))
        cx = st.builds(lambda xs: make_case("complex", xs), st.lists(init(True), min_size=1, max_size=3))
        return en.weighted([(4, real), (1, cx)])

    # ------------------------------------------------------------------
    def judge(self, case):
        kind = case["kind"]
        cm = kind == "complex"
        if self.tag_active(TAG_GAMMA) and any(en.gamma_half_integer_risk(o) for st_ in case["steps"] for o in st_["outs"]):
            self.skip("known:" + TAG_GAMMA)     # crasher: not sent to the driver while the finding is open
            return
        stmts = [["lam_new", kind]]
        plan = []
        for step in case["steps"]:
            p = {}
            p["outs"] = list(range(len(stmts), len(stmts) + len(step["outs"])))
            stmts += step["outs"]
            syms = L(*[["symbol", n] for n in step["syms"]])
            outs = L(*[R(i) for i in p["outs"]])
            xs = [L(*[(L(*z) if cm else z) for z in v]) for v in step["x"]]

            def block(obj, cse):
                b = {"init": len(stmts)}
                stmts.append(["lam_init", obj, syms, outs, cse])
                b["calls"] = []
                for x in xs:
                    b["calls"].append(len(stmts))
                    stmts.append(["lam_call", obj, x])
                return b
            p["V"] = block(R(0), step["cse"])
            f = len(stmts)
            stmts.append(["lam_new", kind])
            p["F"] = block(R(f), step["cse"])
            g = len(stmts)
            stmts.append(["lam_new", kind])
            p["G"] = block(R(g), not step["cse"])
            p["cse"] = len(stmts)
            stmts.append(["cse", outs])
            plan.append(p)
        res = self.run(stmts)
        ok_inits = 0
        shared_seen = False
        stale = False
        for step, p in zip(case["steps"], plan):
            self.count()
            rv, rf, rg = res[p["V"]["init"]], res[p["F"]["init"]], res[p["G"]["init"]]
            if any(is_exc(res[i]) for i in p["outs"]):
                self.skip("construct:" + next(res[i]["exc"] for i in p["outs"] if is_exc(res[i])))
                continue
            dumps = [B(res[i]) for i in p["outs"]]
            tag = "cse" if step["cse"] else "nocse"
            # ---- throws iff a fresh visitor throws
            # bookkeeping for KF-C13-02: cse_intermediate_fns_map is only cleared at the end of a *successful*
            # init(cse=true); after a throwing one it stays populated until then
            was_stale = stale
            if step["cse"] and not is_exc(rv):
                stale = False
            elif step["cse"] and is_exc(rv) and rv["exc"] != "Dep":
                stale = True
            if is_exc(rv) != is_exc(rf):
                fs0 = set()
                for d in dumps:
                    free_symbols(d, fs0)
                extra = fs0 - set(step["syms"])
                if was_stale and not is_exc(rv) and extra and all(CSE_TEMP.match(n) for n in extra) \
                        and self.tag_active(TAG_STALE):
                    self.skip("known:" + TAG_STALE)
                    continue
                raise Violation("init #%d (%s) on the re-used visitor %s but on a fresh visitor %s; outputs %s"
                                % (case["steps"].index(step), tag, "throws %s" % rv if is_exc(rv) else "succeeds",
                                   "throws %s" % rf if is_exc(rf) else "succeeds", dumps), {"stmts": engine.prog(stmts)[:6000]})
            if is_exc(rv):
                if "bad" in step:
                    self.cls("throwing_init:" + step["bad"] + ":" + rv["exc"])
                elif rv["exc"] == "VerifAssertFailure":
                    self.skip("assert_seen")
                else:
                    self.skip("declined:init:" + rv["exc"])
                continue
            if "bad" in step:
                self.skip("bad_init_accepted:" + step["bad"])
            ok_inits += 1
            self.cls("init:" + kind + ":" + tag)
            heads = {}
            for d in dumps:
                en.dump_heads(d, heads)
            # ---- known finding: a CSE temporary named like an input symbol that the outputs do not use
            fs = set()
            for d in dumps:
                free_symbols(d, fs)
            nrep = None
            rc = res[p["cse"]]
            if not is_exc(rc):
                nrep = len(rc[0])
                temps = set(free_symbols(B(pr[0]), set()).pop() for pr in rc[0])
            else:
                temps = set()
            collide = bool(temps & (set(step["syms"]) - fs))
            subs = [nonatomic_subdumps(d, set()) for d in dumps]
            shares = any(subs[i] & subs[j] for i in range(len(subs)) for j in range(i))
            if shares:
                self.cls("outputs_share_subexpr")
                shared_seen = True
            if nrep:
                self.cls("cse_found_replacements")
            for vi, x in enumerate(step["x"]):
                ov = res[p["V"]["calls"][vi]]
                of = res[p["F"]["calls"][vi]]
                og = res[p["G"]["calls"][vi]] if not is_exc(rg) else None
                if is_exc(ov) or is_exc(of):
                    if is_exc(ov) != is_exc(of):
                        raise Violation("call after init #%d: re-used visitor gives %s, fresh visitor gives %s"
                                        % (case["steps"].index(step), ov, of), {"stmts": engine.prog(stmts)[:6000]})
                    self.skip("declined:call:" + ov["exc"])
                    continue

                def val(r):
                    return complex(F(r[0]), F(r[1])) if cm else F(r)
                gv = [val(r) for r in ov]
                gf = [val(r) for r in of]
                if len(gv) != len(dumps):
                    raise Violation("call returned %d outputs for %d output expressions" % (len(gv), len(dumps)), None)
                # (a) history == fresh, bit for bit
                for j in range(len(dumps)):
                    a, b = gv[j], gf[j]
                    same = (same_double(a.real, b.real) and same_double(a.imag, b.imag)) if cm else same_double(a, b)
                    self.count()
                    if not same:
                        raise Violation("after the history, output %d at %s is %r; a fresh visitor with the same init(%s) "
                                        "gives %r; output %s" % (j, x, a, tag, b, dumps[j]),
                                        {"stmts": engine.prog(stmts)[:6000]})
                # (b) value oracle, (c) cse vs no cse
                env = dict(zip(step["syms"], [complex(*z) for z in x] if cm else x))
                if og is not None and is_exc(og):
                    self.skip("declined:call_other_cse:" + og["exc"])
                    og = None
                gg = [val(r) for r in og] if og is not None else None
                if is_exc(rg):
                    self.skip("declined:init_other_cse:" + rg["exc"])
                for j, d in enumerate(dumps):
                    try:
                        ref = en.stable_reference(d, env, cm, margin=1e-9)
                    except Unjudgeable as u:
                        self.skip("ref:" + ":".join(u.reason.split(":")[:2]))
                        ref = None
                    if ref is not None:
                        self.count()
                        got = gv[j]
                        parts = (got.real, got.imag) if cm else (got,)
                        g = mpc(got.real, got.imag) if cm else (mpf(got) if finite(got) else None)
                        tol = ref.tol_abs(64)
                        bad = (not all(finite(q) for q in parts)) or not on.close(g, ref.value, 0, tol)
                        if bad:
                            if collide and step["cse"] and self.tag_active(TAG_TEMP):
                                self.skip("known:" + TAG_TEMP)
                            else:
                                raise Violation("output %d of init(%s) at %s = %r but the expression %s has the value %s "
                                                "(tol %.3g, kappa %.3g); inputs %s"
                                                % (j, tag, x, got, d, ref.value, float(tol), float(ref.kappa), step["syms"]),
                                                {"stmts": engine.prog(stmts)[:6000]})
                        else:
                            self.cls("value_ok:" + kind + ":" + tag)
                    if gg is not None:
                        a, b = gv[j], gg[j]
                        same = (same_double(a.real, b.real) and same_double(a.imag, b.imag)) if cm else same_double(a, b)
                        if same:
                            self.count()
                            continue
                        if ref is None:
                            self.skip("cse_pair_unjudged")
                            continue
                        self.count()
                        pa = (a.real, a.imag) if cm else (a,)
                        pb = (b.real, b.imag) if cm else (b,)
                        okp = all(finite(q) for q in pa + pb) and \
                            abs(a - b) <= max(1e-12 * max(abs(a), abs(b)), float(2 * ref.tol_abs(64)))
                        if not okp:
                            if collide and self.tag_active(TAG_TEMP):
                                self.skip("known:" + TAG_TEMP)
                            else:
                                raise Violation("output %d at %s: cse=%s gives %r, cse=%s gives %r (value %s); output %s; inputs %s"
                                                % (j, x, step["cse"], a, not step["cse"], b, ref.value, d, step["syms"]),
                                                {"stmts": engine.prog(stmts)[:6000]})
            for h in heads:
                self.cls("node:" + kind + ":" + h)
        if shared_seen or ok_inits >= 2:
            self.nontriv(case)
        if ok_inits >= 2:
            self.cls("history_with_>=2_inits")
        if ok_inits:
            st0 = case["steps"][0]
            self.sample({"kind": kind, "n_steps": len(case["steps"]), "syms": st0["syms"], "cse": st0["cse"],
                         "outs": [engine.sx(o)[:200] for o in st0["outs"][:3]]})


def main():
    rc = engine.main(C13)
    if rc == 0 and "--replay" not in sys.argv:
        with open(os.path.join(engine.VERIF, "evidence", "C13.json")) as f:
            ev = json.load(f)
        cl = ev["coverage"]["classes"]
        miss = [n for n in BASE_NODES + REAL_NODES if not cl.get("node:real:" + n)]
        miss += ["complex:" + n for n in BASE_NODES + COMPLEX_NODES if not cl.get("node:complex:" + n)]
        print("coverage: missing node types: %s" % (miss or "none"))
        if miss and ev["tier"] == "thorough":
            print("INTERNAL ERROR in check C13: node types never reached: %s (generator defect)" % miss)
            return 2
    return rc


if __name__ == "__main__":
    sys.exit(main())
