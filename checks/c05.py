"""C05 Exact number arithmetic is correct and normalised."""
import itertools
import os
import sys
from fractions import Fraction

sys.path.insert(0, os.path.join(os.path.dirname(os.path.abspath(__file__)), ".."))
from hypothesis import strategies as st
from pbt import engine
from pbt.engine import Check, Violation, R, B, is_exc
from pbt.exact import GQ, gq_dump, gq_recipe, ZOO, NAN

BIN = ["add", "sub", "mul", "div", "addnum", "subnum", "mulnum", "divnum", "num_rsub", "num_rdiv"]


def expected(op, x, y):
    """x, y GQ -> expected dump, or None when the op is outside its domain"""
    if op in ("add", "addnum"):
        return gq_dump(x + y)
    if op in ("sub", "subnum"):
        return gq_dump(x - y)
    if op in ("mul", "mulnum"):
        return gq_dump(x * y)
    if op == "num_rsub":
        return gq_dump(y - x)
    if op in ("div", "divnum", "num_rdiv"):
        n, d = (x, y) if op != "num_rdiv" else (y, x)
        if d.is_zero():
            return NAN if n.is_zero() else ZOO
        return gq_dump(n / d)
    raise KeyError(op)


def expected_pow(x, e):
    if x.is_zero():
        if e == 0:
            return gq_dump(GQ(1))
        if e < 0:
            return ZOO
        return gq_dump(GQ(0))
    return gq_dump(x.pow(e))


def bits(z):
    return max(abs(z.re.numerator).bit_length(), z.re.denominator.bit_length(),
               abs(z.im.numerator).bit_length(), z.im.denominator.bit_length())


def interesting_ints():
    out = []
    for k in (31, 32, 63, 64, 65, 127, 128, 200):
        for d in (-1, 0, 1):
            out += [2 ** k + d, -(2 ** k + d)]
    return out


big_int = st.one_of(
    st.integers(-12, 12),
    st.sampled_from(interesting_ints()),
    st.integers(-2 ** 70, 2 ** 70),
    st.integers(-2 ** 400, 2 ** 400),
)
pos_int = big_int.map(lambda v: abs(v) + 1)


def frac(n, d):
    return Fraction(n, d)


real_q = st.one_of(big_int.map(Fraction), st.builds(frac, big_int, pos_int),
                   st.builds(frac, st.integers(-12, 12), st.integers(1, 12)))
gq = st.one_of(real_q.map(lambda q: [str(q), "0"]),
               st.tuples(real_q, real_q).map(lambda t: [str(t[0]), str(t[1])]))
item = st.fixed_dictionaries({"a": gq, "b": gq, "e": st.one_of(st.integers(-6, 6), st.integers(-40, 40))})


def small_universe():
    reals = sorted({Fraction(p, q) for p in range(-6, 7) for q in range(1, 7)})
    parts = [Fraction(x) for x in (-2, -1, Fraction(-1, 2), 0, Fraction(1, 2), 1, Fraction(3, 2), 2)]
    gs = [(a, b) for a in parts for b in parts if b != 0]
    vals = [[str(r), "0"] for r in reals] + [[str(a), str(b)] for a, b in gs]
    return vals


class C05(Check):
    pid = "C05"
    rule = ("items (a, b, e): a, b exact Gaussian rationals, e integer; every one of "
            "add sub mul div addnum subnum mulnum divnum rsub rdiv on (a,b) and pow/pownum on (a,e) is "
            "compared with Fraction arithmetic and must be the unique normalised dump. Small universe "
            "(|p|<=6,q<=6 and a 8x7 Gaussian grid) enumerated exhaustively over all ordered pairs, plus "
            "Hypothesis-generated multi-limb values (to 2^400). Non-trivial: an operation whose naive "
            "result needs normalisation (gcd>1, denominator 1, imaginary part cancels, division by zero) "
            "or whose operands exceed 64 bits; distinct by (op, a, b).")
    assumptions = ["Python fractions.Fraction arithmetic is the reference",
                   "DivisionByZeroError/other SymEngineException from the Number methods counts as declined"]
    tiers = {"quick": {"examples": 2500}, "thorough": {"examples": 120000}}
    exhaustive = False

    def enumerate(self, tier):
        vals = small_universe()
        batch = []
        k = 0
        for a in vals:
            for b in vals:
                batch.append({"a": a, "b": b, "e": (k % 13) - 6})
                k += 1
                if len(batch) == 40:
                    yield {"items": batch}
                    batch = []
        if batch:
            yield {"items": batch}
        # every value to every exponent -6..6
        batch = []
        for a in vals:
            for e in range(-6, 7):
                batch.append({"a": a, "b": ["1", "0"], "e": e, "powonly": True})
                if len(batch) == 60:
                    yield {"items": batch}
                    batch = []
        if batch:
            yield {"items": batch}

    def strategy(self, tier):
        return st.fixed_dictionaries({"items": st.lists(item, min_size=1, max_size=6)})

    def judge(self, case):
        stmts = []
        plan = []
        for it in case["items"]:
            x = GQ(Fraction(it["a"][0]), Fraction(it["a"][1]))
            y = GQ(Fraction(it["b"][0]), Fraction(it["b"][1]))
            e = it["e"]
            if bits(x) * abs(e) > 30000:
                e = e % 5 - 2
            ia = len(stmts)
            stmts.append(["let", gq_recipe(x)])
            stmts.append(["let", gq_recipe(y)])
            stmts.append(["let", ["integer", e]])
            if not it.get("powonly"):
                for op in BIN:
                    plan.append((len(stmts), op, x, y, expected(op, x, y)))
                    stmts.append([op, R(ia), R(ia + 1)])
            for op in ("pow", "pownum"):
                plan.append((len(stmts), op, x, e, expected_pow(x, e)))
                stmts.append([op, R(ia), R(ia + 2)])
        res = self.run(stmts)
        for (idx, op, x, y, exp) in plan:
            r = res[idx]
            self.count()
            self.cls(op)
            if is_exc(r):
                if r["exc"] == "VerifAssertFailure":
                    self.skip("assert_seen")
                    continue
                if op in ("div", "pow") or r["exc"] not in ("DivisionByZeroError", "SymEngineException", "NotImplementedError", "DomainError"):
                    # the free functions div/pow are total on exact numbers by the statement
                    raise Violation("%s(%s, %s) raised %s: %s" % (op, x, y, r["exc"], r["what"]),
                                    {"op": op, "expected": exp})
                self.skip("declined:" + r["exc"])
                continue
            got = B(r)
            if got != exp:
                raise Violation("%s(%s, %s) returned %s, expected %s" % (op, x, y, got, exp),
                                {"op": op, "got": got, "expected": exp})
            if self.is_nontrivial(op, x, y, exp):
                self.nontriv((op, str(x), str(y)))
            self.sample({"op": op, "a": str(x), "b": str(y), "result": got})

    def is_nontrivial(self, op, x, y, exp):
        if isinstance(y, int):
            return bits(x) > 64 or (x.im != 0 and exp[0] != "Complex") or exp[0] == "Infty" or (y < 0 and not x.is_zero())
        if bits(x) > 64 or bits(y) > 64:
            return True
        if exp[0] in ("Infty", "NaN"):
            return True
        if (x.im != 0 or y.im != 0) and exp[0] != "Complex":
            return True
        # naive denominator vs normalised denominator
        if op in ("add", "sub", "addnum", "subnum", "num_rsub", "mul", "mulnum"):
            naive = x.re.denominator * y.re.denominator
        else:
            naive = None
        if exp[0] == "Integer" and (x.re.denominator != 1 or y.re.denominator != 1):
            return True
        if exp[0] == "Rational" and naive is not None and int(exp[2]) != naive:
            return True
        if op in ("div", "divnum", "num_rdiv") and exp[0] == "Rational":
            return True
        return False

    def matchers_dummy(self):
        pass


if __name__ == "__main__":
    sys.exit(engine.main(C05))
