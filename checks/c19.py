"""C19 Serialization round-trips exactly.

loads(dumps(e)) must be eq to e with the same raw tree, every stored double bit-for-bit identical, shared
sub-expressions restored; DenseMatrix::dumps/loads the same way.  The serialisable fragment is taken from
the overload sets of symengine/serialize-cereal.h (table below, with line references)."""
import json
import os
import sys

sys.path.insert(0, os.path.join(os.path.dirname(os.path.abspath(__file__)), ".."))
from hypothesis import strategies as st
from pbt import engine, gen, pools
from pbt.engine import Check, Violation, R, B, is_exc

# class -> (line of the save_basic overload that serves it, line of the reachable load_basic overload)
# in /repo/symengine/serialize-cereal.h on the pinned tree
ONEARG = ["Log", "Conjugate", "Sign", "Floor", "Ceiling", "Truncate", "Sin", "Cos", "Tan", "Cot", "Csc", "Sec", "ASin",
          "ACos", "ASec", "ACsc", "ATan", "ACot", "Sinh", "Csch", "Cosh", "Sech", "Tanh", "Coth", "ASinh", "ACsch", "ACosh",
          "ATanh", "ACoth", "ASech", "LambertW", "Dirichlet_eta", "Erf", "Erfc", "Gamma", "LogGamma", "Abs", "PrimePi",
          "Primorial", "UnevaluatedExpr"]
TWOARG = ["ATan2", "Zeta", "KroneckerDelta", "LowerGamma", "UpperGamma", "Beta", "PolyGamma"]
MULTIARG = ["LeviCivita", "Max", "Min"]
RELATIONAL = ["Equality", "Unequality", "LessThan", "StrictLessThan"]
SUPPORTED = {
    "Symbol": (163, 437), "Dummy": (168, 444), "Mul": (173, 452), "Add": (179, 461), "Pow": (185, 470),
    "Integer": (222, 527), "RealDouble": (227, 418), "Rational": (232, 541), "Complex": (237, 548),
    "ComplexDouble": (237, 556), "Interval": (242, 565), "BooleanAtom": (247, 573), "Infty": (252, 425),
    "NaN": (258, 432), "Constant": (263, 534), "And": (284, 580), "Or": (289, 587), "Xor": (294, 594),
    "Not": (299, 601), "Contains": (304, 615), "Piecewise": (309, 608), "Reals": (314, 623), "Rationals": (318, 628),
    "EmptySet": (322, 633), "Integers": (326, 638), "UniversalSet": (330, 643), "Union": (334, 648),
    "Complement": (339, 655), "ImageSet": (344, 662), "FiniteSet": (349, 670), "ConditionSet": (354, 677),
    "FunctionSymbol": (381, 732), "Derivative": (386, 695), "Subs": (391, 703),
}
SUPPORTED.update({c: (268, 712) for c in ONEARG})
SUPPORTED.update({c: (273, 722) for c in TWOARG})
SUPPORTED.update({c: (376, 750) for c in MULTIARG})
SUPPORTED.update({c: (279, 760) for c in RELATIONAL})
# no saver (generic save_basic(Basic) :147 throws) or no reachable loader (:770 throws)
UNSUPPORTED = {
    "URatPoly": "saver :208, loader :505 takes `const URatPoly &` and is never selected (generic :770 throws)",
    "UIntPoly": "no saver", "UExprPoly": "no saver", "MIntPoly": "no saver", "MExprPoly": "no saver",
    "GaloisField": "saver :366 throws NotImplementedError", "UnivariateSeries": "saver :371 throws",
    "Tuple": "no saver", "Naturals": "no saver", "Naturals0": "no saver", "Complexes": "no saver",
    "Intersection": "no saver", "IdentityMatrix": "no saver", "ZeroMatrix": "no saver", "MatrixSymbol": "no saver",
    "DiagonalMatrix": "no saver", "ImmutableDenseMatrix": "no saver", "MatrixAdd": "no saver", "MatrixMul": "no saver",
    "HadamardProduct": "no saver", "Trace": "no saver", "ConjugateMatrix": "no saver", "Transpose": "no saver",
    "NumberWrapper": "saver :396 throws", "FunctionWrapper": "saver :401 throws", "RealMPFR": "not built (no MPFR in variant main)",
    "ComplexMPC": "not built",
}

SPECIAL_BITS = [
    "0000000000000000", "8000000000000000",                       # +-0.0
    "0000000000000001", "8000000000000001", "000fffffffffffff",   # subnormals
    "0010000000000000", "7fefffffffffffff", "ffefffffffffffff",   # smallest normal, largest finite
    "7ff0000000000000", "fff0000000000000",                       # +-inf
    "7ff8000000000000", "fff8000000000000", "7ff8000000000001", "7ff4000000000000", "7ff0000000000001",
    "fff7ffffffffffff", "7fffffffffffffff",                       # quiet / signalling NaNs with payloads
    "3ff0000000000000", "bff8000000000000", "3fb999999999999a", "400921fb54442d18", "3ff0000000000001",
]


def cd_survives(bits):
    """KF-C19-01 model: does the ComplexDouble 're+imi' (bit patterns from double_bits) survive the loader's
    `re + I*im` through double arithmetic, i.e. is re + 0.0*im == re bit for bit (the imaginary part is copied)?
    Decided on the bit patterns without floating-point arithmetic (which NaN of two NaN operands survives an
    addition depends on operand order, i.e. on the compiler): NaN real part or non-finite imaginary part -> no;
    real part -0.0 -> only when 0.0*im is -0.0 (im negative); everything else -> yes."""
    re_b, im_b = bits[:-1].split("+")
    re, im = int(re_b, 16), int(im_b, 16)
    if (im >> 52) & 0x7ff == 0x7ff:
        return False
    if nan_bits(re_b):
        return False
    if re == 0x8000000000000000:
        return bool(im >> 63)
    return True


def nan_bits(h):
    n = int(h, 16)
    return (n >> 52) & 0x7ff == 0x7ff and n & ((1 << 52) - 1) != 0


def has_nan(bits_list):
    for x in bits_list:
        for part in x.rstrip("i").split("+"):
            if nan_bits(part):
                return True
    return False


def classes_of(d, acc=None):
    """class names (list heads) of a raw dump"""
    acc = set() if acc is None else acc
    if isinstance(d, list):
        if d and isinstance(d[0], str) and d[0][:1].isupper():
            acc.add(d[0])
            rest = d[1:]
            if d[0] in ("Symbol", "Dummy", "Constant", "FunctionSymbol", "Integer", "Rational", "RealDouble", "ComplexDouble"):
                rest = [x for x in rest if isinstance(x, list)]
        else:
            rest = d
        for x in rest:
            classes_of(x, acc)
    return acc


def norm(d):
    """raw dump with the term list of every Add (an unordered_map) sorted"""
    if isinstance(d, list):
        out = [norm(x) for x in d]
        if out and out[0] == "Add" and len(out) == 3 and isinstance(out[2], list):
            out[2] = sorted(out[2], key=lambda t: json.dumps(t, sort_keys=True))
        return out
    return d


def doubles():
    bits = st.one_of(st.sampled_from(SPECIAL_BITS), st.sampled_from(SPECIAL_BITS),
                     st.integers(0, 2 ** 64 - 1).map(lambda n: "%016x" % n))
    return st.one_of(bits.map(lambda b: ["real_double_bits", b]),
                     st.builds(lambda a, b: ["complex_double_bits", a, b], bits, bits))


def leaves():
    return gen.weighted([(5, pools.small_numbers(True)), (5, gen.sym(pools.SYMS)), (3, doubles()),
                         (2, gen.constant(("pi", "E", "I", "EulerGamma", "Catalan", "GoldenRatio"))),
                         (1, st.sampled_from(["d", "x", ""]).map(lambda n: ["dummy", n])),
                         (1, st.sampled_from([["symbol", ""], ["symbol", "a b"], ["symbol", "\xff\x00z"], ["symbol", "x" * 40]])),
                         (4, st.integers(0, 3).map(lambda j: ["ref", j]))])


def typed_grammar(depth):
    """sorted grammar (scalar expressions E, booleans Bo, sets S) so that constructions are not declined for a sort
    mismatch; built once.  ["ref", j] placeholders stand for earlier definitions (always scalars)."""
    xs = st.sampled_from(["x", "y"]).map(lambda n: ["symbol", n])
    real = st.one_of(gen.integer(big=False), gen.rational(big=False), st.sampled_from([["oo"], ["noo"]]),
                     st.sampled_from([0.0, -0.0, 0.5, 2.0, -1.5]).map(lambda f: ["real_double", f]))
    E = leaves()
    Bo = st.sampled_from([["true"], ["false"]])
    S = st.sampled_from([["emptyset"], ["universalset"], ["reals"], ["rationals"], ["integers"]])
    # floor / ceiling / truncate of an infinite or NaN double kill the process (KF-C18-03: mpz_set_d raises SIGFPE); building
    # the object is not what C19 tests, so these three are applied to symbolic arguments only (ROUND below)
    # (primepi / primorial call floor)
    fun1 = [f for f in pools.FUN1 if f not in ("floor", "ceiling", "truncate", "primepi")] + ["digamma", "trigamma", "lambertw",
                                                                                              "dirichlet_eta"]
    rounding = st.builds(lambda o, x, k, q: [o, ["add", ["mul", ["rational", k, q], x], ["symbol", "t"]]],
                         st.sampled_from(["floor", "ceiling", "truncate", "primepi", "primorial"]), xs, st.integers(1, 9), st.integers(2, 7))
    plain = st.one_of(S, st.builds(lambda a, b, lo, ro: ["interval", a, b, lo, ro], real, real, st.booleans(), st.booleans()),
                      st.builds(lambda a, b: ["finiteset", ["list", a, b]], E, E))
    for _ in range(depth):
        e, bo, s = E, Bo, S
        lst = lambda t, lo, hi: st.lists(t, min_size=lo, max_size=hi).map(lambda v: ["list"] + v)
        E = st.one_of(
            e, e, rounding,
            st.builds(lambda o, a: [o, a], st.sampled_from(fun1), e),
            st.builds(lambda o, a: [o, a], st.sampled_from(fun1), e),
            st.builds(lambda o, a, b: [o, a, b], st.sampled_from(pools.FUN2), e, e),
            st.builds(lambda o, a, b: [o, a, b], st.sampled_from(["add", "mul", "pow", "sub", "div"]), e, e),
            st.builds(lambda o, v: [o, v], st.sampled_from(pools.NARY), lst(e, 2, 4)),
            st.builds(lambda n, v: ["function_symbol", n, v], st.sampled_from(["f", "g", "add", ""]), lst(e, 1, 3)),
            st.builds(lambda a, c, b: ["piecewise", ["list", ["list", a, c], ["list", b, ["true"]]]], e, bo, e),
            st.builds(lambda a, c, b, c2: ["piecewise", ["list", ["list", a, c], ["list", b, c2]]], e, bo, e, bo),
            st.builds(lambda a, x: ["diff", ["function_symbol", "f", ["list", a, ["symbol", "x"]]], x], e, xs),        # Derivative
            st.builds(lambda a, x: ["diff", ["function_symbol", "f", ["list", ["mul", ["integer", 2], x], a]], x], e, xs),           # Subs
            st.builds(lambda a, x, y: ["diff", ["diff", ["function_symbol", "g", ["list", x, y, a]], x], y], e, xs, xs),
        )
        Bo = st.one_of(
            bo,
            st.builds(lambda o, a, b: [o, a, b], st.sampled_from(["Eq", "Ne", "Lt", "Le", "Gt", "Ge"]), e, e),
            st.builds(lambda o, a, b: [o, a, b], st.sampled_from(["Eq", "Ne", "Lt", "Le", "Gt", "Ge"]), e, e),
            st.builds(lambda o, v: [o, v], st.sampled_from(["and", "or", "xor", "nand", "nor", "xnor"]), lst(bo, 2, 3)),
            st.builds(lambda a: ["not", a], bo),
            st.builds(lambda a, b: ["contains", a, b], e, s),
        )
        S = st.one_of(
            s,
            st.builds(lambda a, b, lo, ro: ["interval", a, b, lo, ro], real, real, st.booleans(), st.booleans()),
            st.builds(lambda v: ["finiteset", v], lst(e, 1, 4)),
            st.builds(lambda o, v: [o, v], st.sampled_from(["set_union", "set_intersection"]), lst(s, 2, 3)),
            # (operands without ImageSet: set_complement of two ImageSets recurses forever in the library, sets.cpp:1687)
            st.builds(lambda a, b: ["set_complement", a, b], plain, plain),
            st.builds(lambda x, c: ["conditionset", x, c], xs, bo),
            st.builds(lambda x, a, b: ["imageset", x, a, b], xs, e, s),
        )
    return E, Bo, S


GRAMMAR = {}


def grammar(depth):
    if depth not in GRAMMAR:
        GRAMMAR[depth] = typed_grammar(depth)
    return GRAMMAR[depth]


SAFE_HEADS = {"add", "sub", "mul", "list", "function_symbol", "finiteset", "Eq", "Ne", "Lt", "Le", "Gt", "Ge", "piecewise",
              "contains", "and", "or", "xor", "nand", "nor", "xnor", "not", "set_union", "set_intersection", "set_complement",
              "conditionset", "imageset", "interval", "max", "min"}


def resolve(r, n, big=(), unsafe=False):
    """["ref", j] -> register of definition j mod n (a symbol when there is no earlier definition).  Definitions listed
    in `big` hold multi-limb numbers: they are referenced only from positions that do not evaluate (sums, products,
    containers, relations), never as an argument of pow or of a function (2**(2**70), gamma(2**70) are resource
    blow-ups of the construction, not of the property)"""
    if isinstance(r, list):
        if len(r) == 2 and r[0] == "ref" and isinstance(r[1], int):
            if n <= 0:
                return ["symbol", "r"]
            j = r[1] % n
            if unsafe and j in big:
                ok = [i for i in range(n) if i not in big]
                if not ok:
                    return ["symbol", "r"]
                j = ok[r[1] % len(ok)]
            return R(j)
        head = r[0] if r and isinstance(r[0], str) else None
        inner = unsafe or (head is not None and head not in SAFE_HEADS and head not in ("symbol", "integer", "rational", "$"))
        return [resolve(x, n, big, inner) for x in r]
    return r


SHARE_WRAP = [
    lambda r: ["add", ["pow", r, ["integer", 2]], ["add", ["mul", ["integer", 3], r], ["sin", r]]],
    lambda r: ["function_symbol", "h", ["list", r, r, ["cos", r]]],
    lambda r: ["finiteset", ["list", ["exp", r], ["mul", ["symbol", "k"], r], ["pow", ["symbol", "k"], r]]],
    lambda r: ["piecewise", ["list", ["list", r, ["Lt", r, ["integer", 1]]], ["list", ["neg", r], ["true"]]]],
    lambda r: ["mul", ["pow", ["symbol", "q"], r], ["mul", ["add", r, ["symbol", "q"]], ["atan2", r, ["symbol", "q"]]]],
    lambda r: ["max", ["list", r, ["mul", ["integer", 2], r], ["abs", r]]],
]


def cases():
    E2, B2, S2 = grammar(2)
    E3, B3, S3 = grammar(3)
    unsupported = st.builds(lambda k, wrap: {"kind": "expr", "defs": [["ser_unsupported", k]],
                                             "root": (["finiteset", ["list", R(0), ["symbol", "x"]]] if wrap else R(0))},
                            st.integers(0, 11), st.booleans())
    # multi-limb integers, big rationals / complexes enter as whole definitions (marked {"big": recipe}); function and pow
    # arguments never reference them (resolve)
    one_def = st.one_of(E2, E2, E2, pools.numbers(True).map(lambda r: {"big": r}))

    def mk_defs(ds):
        big = {i for i, d in enumerate(ds) if isinstance(d, dict)}
        out = []
        for i, d in enumerate(ds):
            out.append(d["big"] if isinstance(d, dict) else resolve(d, i, {j for j in big if j < i}))
        return {"defs": out, "big": sorted(big)}
    defs = st.lists(one_def, min_size=1, max_size=4).map(mk_defs)

    def mk_expr(dd, w, j, tail, free):
        ds, big = dd["defs"], set(dd["big"])
        n = len(ds)
        if w < len(SHARE_WRAP):
            ok = [i for i in range(n) if i not in big] or None
            if ok is None:
                root = resolve(free, n, big)
            else:
                root = SHARE_WRAP[w](R(ok[j % len(ok)]))
                if tail is not None:
                    root = ["add", root, resolve(tail, n, big)]
        else:
            root = resolve(free, n, big)
        return {"kind": "expr", "defs": ds, "root": root}
    expr = st.builds(mk_expr, defs, st.integers(0, len(SHARE_WRAP) + 2), st.integers(0, 3), st.one_of(st.none(), E2),
                     st.one_of(E3, E3, B3, S3))

    def mk_matrix(dd, r, c, elems):
        ds, big = dd["defs"], set(dd["big"])
        n = len(ds)
        return {"kind": "matrix", "defs": ds, "rows": r, "cols": c, "elems": [resolve(e, n, big) for e in elems[:r * c]]}
    matrix = st.builds(mk_matrix, defs, st.integers(0, 3), st.integers(1, 3),
                       st.lists(st.one_of(st.integers(0, 3).map(lambda j: ["ref", j]), E2), min_size=9, max_size=9))
    return gen.weighted([(12, expr), (2, matrix), (1, unsupported)])


def class_tour():
    """one construction per class of SUPPORTED (deterministic part of the domain: every serialisable class is visited in every run)"""
    x, y, z = ["symbol", "x"], ["symbol", "y"], ["symbol", "z"]
    half = ["rational", 1, 2]
    arg = ["add", x, half]
    one = {"Log": "log", "Conjugate": "conjugate", "Sign": "sign", "Floor": "floor", "Ceiling": "ceiling", "Truncate": "truncate",
           "Sin": "sin", "Cos": "cos", "Tan": "tan", "Cot": "cot", "Csc": "csc", "Sec": "sec", "ASin": "asin", "ACos": "acos",
           "ASec": "asec", "ACsc": "acsc", "ATan": "atan", "ACot": "acot", "Sinh": "sinh", "Csch": "csch", "Cosh": "cosh",
           "Sech": "sech", "Tanh": "tanh", "Coth": "coth", "ASinh": "asinh", "ACsch": "acsch", "ACosh": "acosh", "ATanh": "atanh",
           "ACoth": "acoth", "ASech": "asech", "LambertW": "lambertw", "Dirichlet_eta": "dirichlet_eta", "Erf": "erf",
           "Erfc": "erfc", "Gamma": "gamma", "LogGamma": "loggamma", "Abs": "abs", "PrimePi": "primepi", "Primorial": "primorial",
           "UnevaluatedExpr": "unevaluated_expr"}
    two = {"ATan2": "atan2", "Zeta": "zeta2", "KroneckerDelta": "kronecker_delta", "LowerGamma": "lowergamma",
           "UpperGamma": "uppergamma", "Beta": "beta", "PolyGamma": "polygamma"}
    ival = ["interval", ["integer", 0], ["rational", 7, 2], True, False]
    tour = [(c, [op, arg]) for c, op in one.items()] + [(c, [op, x, ["add", y, half]]) for c, op in two.items()]
    tour += [
        ("LeviCivita", ["levi_civita", ["list", x, y, z]]), ("Max", ["max", ["list", x, y, half]]), ("Min", ["min", ["list", x, y]]),
        ("Equality", ["Eq", x, y]), ("Unequality", ["Ne", x, y]), ("LessThan", ["Le", x, y]), ("StrictLessThan", ["Lt", x, y]),
        ("Symbol", x), ("Dummy", ["dummy", "u"]), ("Mul", ["mul", ["mul", x, y], ["pow", z, half]]), ("Add", ["add", ["add", x, y], half]),
        ("Pow", ["pow", x, y]), ("Integer", ["integer", -2 ** 130 - 7]), ("RealDouble", ["real_double_bits", "400921fb54442d18"]),
        ("Rational", ["rational", -2 ** 70 - 1, 3 ** 50]), ("Complex", ["complex", ["rational", 1, 3], ["integer", -5]]),
        ("ComplexDouble", ["complex_double_bits", "3ff8000000000000", "c004000000000000"]), ("Interval", ival),
        ("BooleanAtom", ["true"]), ("Infty", ["oo"]), ("Infty", ["noo"]), ("Infty", ["zoo"]), ("NaN", ["nan"]),
        ("Constant", ["constant", "EulerGamma"]), ("And", ["and", ["list", ["Lt", x, y], ["Gt", x, z]]]),
        ("Or", ["or", ["list", ["Lt", x, y], ["Gt", x, z]]]), ("Xor", ["xor", ["list", ["Lt", x, y], ["Gt", x, z]]]),
        ("Not", ["not", ["contains", x, ival]]), ("Contains", ["contains", x, ival]),
        ("Piecewise", ["piecewise", ["list", ["list", x, ["Lt", x, y]], ["list", ["sin", x], ["Gt", x, z]], ["list", half, ["true"]]]]),
        ("Reals", ["reals"]), ("Rationals", ["rationals"]), ("EmptySet", ["emptyset"]), ("Integers", ["integers"]),
        ("UniversalSet", ["universalset"]), ("Union", ["set_union", ["list", ival, ["finiteset", ["list", x, ["integer", 9]]]]]),
        ("Complement", ["set_complement", ["reals"], ["finiteset", ["list", x, y]]]),
        ("ImageSet", ["imageset", x, ["mul", ["integer", 2], x], ["integers"]]), ("FiniteSet", ["finiteset", ["list", x, half, ["sin", y]]]),
        ("ConditionSet", ["conditionset", x, ["and", ["list", ["Lt", ["sin", x], half], ["contains", x, ival]]]]),
        ("FunctionSymbol", ["function_symbol", "F", ["list", x, ["mul", x, y], half]]),
        ("Derivative", ["diff", ["function_symbol", "f", ["list", x, y]], x]),
        ("Subs", ["diff", ["function_symbol", "f", ["list", ["mul", ["integer", 2], x], y]], x]),
    ]
    return tour


def special_cases():
    """deterministic: every special bit pattern as RealDouble and in both parts of a ComplexDouble, alone and inside a
    sum / function; one object of every unsupported class"""
    out = []
    for b in SPECIAL_BITS:
        out.append({"kind": "expr", "defs": [["real_double_bits", b]], "root": R(0)})
        out.append({"kind": "expr", "defs": [["real_double_bits", b]], "root": ["function_symbol", "f", ["list", R(0), ["symbol", "x"], R(0)]]})
        for b2 in ("3ff0000000000000", "0000000000000000", "8000000000000000", "7ff0000000000000", "7ff8000000000000"):
            out.append({"kind": "expr", "defs": [["complex_double_bits", b, b2]], "root": R(0)})
            out.append({"kind": "expr", "defs": [["complex_double_bits", b2, b]], "root": ["finiteset", ["list", R(0), ["symbol", "x"]]]})
    for k in range(12):
        out.append({"kind": "expr", "defs": [["ser_unsupported", k]], "root": R(0)})
    for cls, r in class_tour():
        out.append({"kind": "expr", "defs": [r], "root": R(0), "tour": cls})
        out.append({"kind": "expr", "defs": [r], "root": ["function_symbol", "h", ["list", R(0), ["symbol", "w"], R(0), R(0)]], "tour": cls})
    return out


class ResourceNoise(Exception):
    pass


class C19(Check):
    pid = "C19"
    exe = "driver_ser"
    builds = [("main", ("driver_ser",))]
    timeout = 30.0
    case_timeout = 12
    rule = ("objects built from 1-4 definitions (grammar over every class with a save_basic and a reachable load_basic overload "
            "of serialize-cereal.h: numbers of every kind incl. multi-limb integers and doubles from raw bit patterns -- +-0.0, "
            "subnormals, +-inf, NaN payloads, also as ComplexDouble parts --, symbols, dummies, constants, Add/Mul/Pow, all "
            "function classes, relationals, booleans, Piecewise, Contains, sets, Derivative, Subs) and a root that references "
            "earlier definitions several times (shared nodes, >= 3 references through the sharing wrappers); DenseMatrix with such "
            "elements; objects of unsupported classes (counted, not judged). Oracle: dumps and loads of a supported object do not "
            "throw; eq(loads(dumps e), e) (when eq(e,e)); same raw tree (Add terms sorted); multiset of stored double bit patterns "
            "identical; no value class has more distinct node objects after loading than before (sharing restored); "
            "dumps(loads(dumps e)) loads again to the same tree. Non-trivial: supported object with >= 2 distinct classes and a "
            "shared node (an object referenced >= 2 times that is not an atom singleton) or a double; distinct by raw dump.")
    assumptions = ["the supported-class table (SUPPORTED in this file) is read from serialize-cereal.h of the pinned tree",
                   "objects containing a NaN double are not eq to themselves: for them the raw tree and the bit patterns are compared",
                   "construction failures (exceptions / declines while building the object) skip the case"]
    tiers = {"quick": {"examples": 2400}, "thorough": {"examples": 120000}}

    def setup_worker(self, tier):
        # lowergamma(1024, 2) and friends expand into ~1000-level nests; the recursive (de)serializer then needs
        # more than 8 MB of stack only because ASan frames are large.  Drivers inherit this limit.
        import resource
        soft, hard = resource.getrlimit(resource.RLIMIT_STACK)
        want = 1 << 30
        if hard != resource.RLIM_INFINITY:
            want = min(want, hard)
        try:
            resource.setrlimit(resource.RLIMIT_STACK, (want, hard))
        except (ValueError, OSError):
            pass

    def run(self, stmts, timeout=None):
        # The archive identifies nodes by address; accessors hand it temporaries (Rational::get_num, Complex parts).  ASan's
        # quarantine would keep freed temporaries from ever being re-allocated at the same address, hiding the very reuse that
        # _keep_alive exists for; with the quarantine off the allocator recycles chunks like a production malloc.
        if self.drv is None:
            self.drv = engine.Driver(self.variant, self.exe, self.timeout,
                                     env={"ASAN_OPTIONS": engine.ASAN_OPTIONS + ":quarantine_size_mb=0:thread_local_quarantine_size_kb=0"})
        try:
            return self.drv.run(stmts, timeout)
        except engine.DriverCrash as e:
            # GMP aborts the process when a number does not fit in memory (x**(10**10) while BUILDING a case):
            # resource exhaustion of the construction, not a serialization failure
            if any(sig in e.stderr for sig in ("GNU MP: Cannot allocate memory", "gmp: overflow in mpz type")):
                raise ResourceNoise()
            raise

    def enumerate(self, tier):
        return special_cases()

    def strategy(self, tier):
        return cases()

    # ------------------------------------------------------------------
    def judge(self, case):
        try:
            self._judge(case)
        except ResourceNoise:
            self.skip("resource:gmp_alloc")

    def _judge(self, case):
        if case["kind"] == "matrix":
            return self.judge_matrix(case)
        defs = self.usable_defs(case["defs"])
        stmts = [["let", d] for d in defs]
        k = len(stmts)
        stmts.append(["id", case["root"]])                # k   raw dump of e
        stmts.append(["dumps", R(k)])                     # k+1
        stmts.append(["loads", R(k + 1)])                 # k+2 raw dump of l
        stmts.append(["eq", R(k + 2), R(k)])              # k+3
        stmts.append(["eq", R(k), R(k)])                  # k+4
        stmts.append(["double_bits", R(k)])               # k+5
        stmts.append(["double_bits", R(k + 2)])           # k+6
        stmts.append(["share_classes", R(k)])             # k+7
        stmts.append(["share_classes", R(k + 2)])         # k+8
        stmts.append(["dumps", R(k + 2)])                 # k+9
        stmts.append(["loads", R(k + 9)])                 # k+10
        stmts.append(["str", R(k)])                       # k+11
        stmts.append(["str", R(k + 2)])                   # k+12
        stmts.append(["hash", R(k)])                      # k+13
        stmts.append(["hash", R(k + 2)])                  # k+14
        res = self.run(stmts)
        self.count()
        e = B(res[k])
        if e is None:
            self.skip("build:" + (res[k].get("exc", "?") if isinstance(res[k], dict) else "?"))
            return
        cl = classes_of(e)
        if case.get("tour") and case["tour"] not in cl:
            raise engine.GeneratorDefect("class tour entry for %s builds %s" % (case["tour"], sorted(cl)))
        unsup = sorted(c for c in cl if c not in SUPPORTED)
        for c in cl:
            self.cls(c)
        d, l = res[k + 1], res[k + 2]
        if unsup:
            self.skip("unsupported:" + unsup[0])
            if is_exc(d) or is_exc(l):
                return
        else:
            if is_exc(d, "VerifAssertFailure") or is_exc(l, "VerifAssertFailure"):
                self.skip("assert_seen")
                return
            if is_exc(d):
                raise Violation("dumps throws %s (%s) for an object of supported classes %s" % (d["exc"], d.get("what", "")[:200], sorted(cl)),
                                {"object": res[k + 11]})
            if is_exc(l):
                raise Violation("loads(dumps(e)) throws %s (%s) for an object of supported classes %s" % (l["exc"], l.get("what", "")[:200], sorted(cl)),
                                {"object": res[k + 11]})
        if self.tag_active("complexdouble_reload_arith") and isinstance(res[k + 5], list) \
                and any(x.endswith("i") and not cd_survives(x) for x in res[k + 5]):
            # KF-C19-01: load_basic(ComplexDouble) rebuilds re + I*im by arithmetic
            self.skip("known:complexdouble_reload_arith")
            return
        lo = B(l)
        # a NaN double is not equal to itself (eq(e, e) is only true through the pointer shortcut)
        self_eq = res[k + 4] is True and isinstance(res[k + 5], list) and not has_nan(res[k + 5])
        if self_eq and res[k + 3] is not True:
            raise Violation("loads(dumps(e)) is not eq to e: e=%s loaded=%s" % (res[k + 11], res[k + 12]),
                            {"e": e, "loaded": lo})
        if norm(lo) != norm(e):
            raise Violation("loads(dumps(e)) has a different tree: e=%s loaded=%s" % (json.dumps(e)[:600], json.dumps(lo)[:600]))
        if res[k + 5] != res[k + 6]:
            raise Violation("double bit patterns changed by the round trip: before=%s after=%s (e=%s)" % (res[k + 5], res[k + 6], res[k + 11]))
        if self_eq and res[k + 13] != res[k + 14]:
            raise Violation("hash changed by the round trip: e=%s" % res[k + 11])
        before = {x[0]: (x[1], x[2], x[3]) for x in res[k + 7]}
        after = {x[0]: (x[1], x[2], x[3]) for x in res[k + 8]}
        shared = False
        for key, (nobj, nref, text) in before.items():
            if key not in after:
                raise Violation("node %r (%s) of e is missing after the round trip (e=%s)" % (key, text, res[k + 11]))
            if after[key][0] > nobj:
                raise Violation("sharing lost: value %r (%s) is %d object(s) referenced %d times in e but %d objects after loads (e=%s)"
                                % (key, text, nobj, nref, after[key][0], res[k + 11]))
            if nref > nobj and not is_singleton_key(text):
                shared = True
        l2 = res[k + 10]
        if is_exc(res[k + 9]) or is_exc(l2):
            if not unsup:
                raise Violation("second round trip throws: %s / %s (e=%s)" % (str(res[k + 9])[:200], str(l2)[:200], res[k + 11]))
        elif norm(B(l2)) != norm(e):
            raise Violation("loads(dumps(loads(dumps(e)))) differs from e: %s" % res[k + 11])
        if not unsup and len(cl) >= 2 and (shared or res[k + 5]):
            self.nontriv(e)
            if shared:
                self.cls("~shared")
            if res[k + 5]:
                self.cls("~doubles")
            self.sample({"case": case, "str": res[k + 11]})

    def usable_defs(self, defs):
        """definitions whose construction throws or is declined (the grammar is broad) are replaced by a symbol, so that
        the rest of the case is still judged"""
        defs = list(defs)
        for _ in range(len(defs) + 1):
            res = self.run([["let", d] for d in defs])
            bad = [i for i, r in enumerate(res) if is_exc(r) and r["exc"] != "Dep"]
            if not bad:
                break
            for i in bad:
                self.skip("def_replaced:" + res[i]["exc"])
                defs[i] = ["symbol", "d%d" % i]
        return defs

    def judge_matrix(self, case):
        stmts = [["let", d] for d in self.usable_defs(case["defs"])]
        k = len(stmts)
        for el in case["elems"]:
            stmts.append(["let", el])
        n = len(case["elems"])
        stmts.append(["dm_roundtrip", case["rows"], case["cols"], ["list"] + [R(k + i) for i in range(n)]])
        for i in range(n):
            stmts.append(["id", R(k + i)])
            stmts.append(["double_bits", R(k + i)])
        res = self.run(stmts)
        self.count()
        m = res[k + n]
        if is_exc(m):
            elems = [B(res[k + n + 1 + 2 * i]) for i in range(n)]
            if any(x is None for x in elems):
                self.skip("build")
                return
            cl = set()
            for x in elems:
                classes_of(x, cl)
            if m["exc"] in ("Decline", "Dep") or [c for c in cl if c not in SUPPORTED]:
                self.skip("matrix:" + m["exc"])
                return
            if m["exc"] == "VerifAssertFailure":
                self.skip("assert_seen")
                return
            raise Violation("DenseMatrix dumps/loads throws %s (%s) for elements of supported classes" % (m["exc"], m.get("what", "")[:200]))
        if self.tag_active("complexdouble_reload_arith"):
            for i in range(n):
                bl = res[k + n + 2 + 2 * i]
                if isinstance(bl, list) and any(x.endswith("i") and not cd_survives(x) for x in bl):
                    self.skip("known:complexdouble_reload_arith")
                    return
        self.cls("DenseMatrix")
        if m["rows"] != case["rows"] or m["cols"] != case["cols"]:
            raise Violation("DenseMatrix shape changed: %dx%d -> %dx%d" % (case["rows"], case["cols"], m["rows"], m["cols"]))
        for i in range(n):
            orig = B(res[k + n + 1 + 2 * i])
            got = B(m["elems"][i])
            if norm(orig) != norm(got):
                raise Violation("DenseMatrix element %d changed: %s -> %s" % (i, json.dumps(orig)[:400], json.dumps(got)[:400]))
            if m["bits"][i] != res[k + n + 2 + 2 * i]:
                raise Violation("DenseMatrix element %d: double bit patterns changed: %s -> %s" % (i, res[k + n + 2 + 2 * i], m["bits"][i]))
        if m["distinct_out"] > m["distinct_in"]:
            raise Violation("DenseMatrix sharing lost: %d distinct element objects before, %d after" % (m["distinct_in"], m["distinct_out"]))
        if n >= 2:
            self.nontriv(["DM", case["rows"], case["cols"], [B(res[k + n + 1 + 2 * i]) for i in range(n)]])
            self.sample({"case": case})


def is_singleton_key(s):
    """printed form of library singletons (small integers, constants, booleans...): references to them are shared before
    and after by construction"""
    return s in ("0", "1", "-1", "2", "1/2", "-1/2", "pi", "E", "I", "oo", "-oo", "zoo", "nan", "True", "False", "EulerGamma",
                 "Catalan", "GoldenRatio", "Reals", "Integers", "Rationals", "EmptySet", "UniversalSet", "Naturals", "Naturals0",
                 "Complexes")


if __name__ == "__main__":
    from pbt import fuzz
    fuzz.install_extra_findings()      # no-op unless VERIF_EXTRA_FINDINGS is set (development)
    sys.exit(engine.main(C19))
