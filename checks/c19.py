"""C19 Serialization round-trips exactly.

loads(dumps(e)) must be eq to e with the same raw tree, every stored double bit-for-bit identical, shared
sub-expressions restored; DenseMatrix::dumps/loads the same way.  The serialisable fragment is taken from
the overload sets of symengine/serialize-cereal.h (table below, with line references)."""
import json
import os
import sys

sys.path.insert(0, os.path.join(os.path.dirname(os.path.abspath(__file__)), ".."))
from hypothesis import strategies as st
from pbt import engine, gen, pools
from pbt.engine import Check, Violation, R, B, is_exc

# class -> (line of the save_basic overload that serves it, line of the reachable load_basic overload)
# in /repo/symengine/serialize-cereal.h on the pinned tree
ONEARG = ["Log", "Conjugate", "Sign", "Floor", "Ceiling", "Truncate", "Sin", "Cos", "Tan", "Cot", "Csc", "Sec", "ASin",
          "ACos", "ASec", "ACsc", "ATan", "ACot", "Sinh", "Csch", "Cosh", "Sech", "Tanh", "Coth", "ASinh", "ACsch", "ACosh",
          "ATanh", "ACoth", "ASech", "LambertW", "Dirichlet_eta", "Erf", "Erfc", "Gamma", "LogGamma", "Abs", "PrimePi",
          "Primorial", "UnevaluatedExpr"]
TWOARG = ["ATan2", "Zeta", "KroneckerDelta", "LowerGamma", "UpperGamma", "Beta", "PolyGamma"]
MULTIARG = ["LeviCivita", "Max", "Min"]
RELATIONAL = ["Equality", "Unequality", "LessThan", "StrictLessThan"]
SUPPORTED = {
    "Symbol": (163, 437), "Dummy": (168, 444), "Mul": (173, 452), "Add": (179, 461), "Pow": (185, 470),
    "Integer": (222, 527), "RealDouble": (227, 418), "Rational": (232, 541), "Complex": (237, 548),
    "ComplexDouble": (237, 556), "Interval": (242, 565), "BooleanAtom": (247, 573), "Infty": (252, 425),
    "NaN": (258, 432), "Constant": (263, 534), "And": (284, 580), "Or": (289, 587), "Xor": (294, 594),
    "Not": (299, 601), "Contains": (304, 615), "Piecewise": (309, 608), "Reals": (314, 623), "Rationals": (318, 628),
    "EmptySet": (322, 633), "Integers": (326, 638), "UniversalSet": (330, 643), "Union": (334, 648),
    "Complement": (339, 655), "ImageSet": (344, 662), "FiniteSet": (349, 670), "ConditionSet": (354, 677),
    "FunctionSymbol": (381, 732), "Derivative": (386, 695), "Subs": (391, 703),
}
SUPPORTED.update({c: (268, 712) for c in ONEARG})
SUPPORTED.update({c: (273, 722) for c in TWOARG})
SUPPORTED.update({c: (376, 750) for c in MULTIARG})
SUPPORTED.update({c: (279, 760) for c in RELATIONAL})
# no saver (generic save_basic(Basic) :147 throws) or no reachable loader (:770 throws)
UNSUPPORTED = {
    "URatPoly": "saver :208, loader :505 takes `const URatPoly &` and is never selected (generic :770 throws)",
    "UIntPoly": "no saver", "UExprPoly": "no saver", "MIntPoly": "no saver", "MExprPoly": "no saver",
    "GaloisField": "saver :366 throws NotImplementedError", "UnivariateSeries": "saver :371 throws",
    "Tuple": "no saver", "Naturals": "no saver", "Naturals0": "no saver", "Complexes": "no saver",
    "Intersection": "no saver", "IdentityMatrix": "no saver", "ZeroMatrix": "no saver", "MatrixSymbol": "no saver",
    "DiagonalMatrix": "no saver", "ImmutableDenseMatrix": "no saver", "MatrixAdd": "no saver", "MatrixMul": "no saver",
    "HadamardProduct": "no saver", "Trace": "no saver", "ConjugateMatrix": "no saver", "Transpose": "no saver",
    "NumberWrapper": "saver :396 throws", "FunctionWrapper": "saver :401 throws", "RealMPFR": "not built (no MPFR in variant main)",
    "ComplexMPC": "not built",
}

SPECIAL_BITS = [
    "0000000000000000", "8000000000000000",                       # +-0.0
    "0000000000000001", "8000000000000001", "000fffffffffffff",   # subnormals
    "0010000000000000", "7fefffffffffffff", "ffefffffffffffff",   # smallest normal, largest finite
    "7ff0000000000000", "fff0000000000000",                       # +-inf
    "7ff8000000000000", "fff8000000000000", "7ff8000000000001", "7ff4000000000000", "7ff0000000000001",
    "fff7ffffffffffff", "7fffffffffffffff",                       # quiet / signalling NaNs with payloads
    "3ff0000000000000", "bff8000000000000", "3fb999999999999a", "400921fb54442d18", "3ff0000000000001",
]


def cd_survives(bits):
    """KF-C19-01 model: does the ComplexDouble 're+imi' (bit patterns from double_bits) survive the loader's
    `re + I*im` through double arithmetic, i.e. re + 0.0*im == re bit for bit (the imaginary part is copied)"""
    import struct
    re_b, im_b = bits[:-1].split("+")
    re = struct.unpack("<d", struct.pack("<Q", int(re_b, 16)))[0]
    im = struct.unpack("<d", struct.pack("<Q", int(im_b, 16)))[0]
    out = re + 0.0 * im
    return struct.pack("<d", out) == struct.pack("<d", re)


def nan_bits(h):
    n = int(h, 16)
    return (n >> 52) & 0x7ff == 0x7ff and n & ((1 << 52) - 1) != 0


def has_nan(bits_list):
    for x in bits_list:
        for part in x.rstrip("i").split("+"):
            if nan_bits(part):
                return True
    return False


def classes_of(d, acc=None):
    """class names (list heads) of a raw dump"""
    acc = set() if acc is None else acc
    if isinstance(d, list):
        if d and isinstance(d[0], str) and d[0][:1].isupper():
            acc.add(d[0])
            rest = d[1:]
            if d[0] in ("Symbol", "Dummy", "Constant", "FunctionSymbol", "Integer", "Rational", "RealDouble", "ComplexDouble"):
                rest = [x for x in rest if isinstance(x, list)]
        else:
            rest = d
        for x in rest:
            classes_of(x, acc)
    return acc


def norm(d):
    """raw dump with the term list of every Add (an unordered_map) sorted"""
    if isinstance(d, list):
        out = [norm(x) for x in d]
        if out and out[0] == "Add" and len(out) == 3 and isinstance(out[2], list):
            out[2] = sorted(out[2], key=lambda t: json.dumps(t, sort_keys=True))
        return out
    return d


def doubles():
    bits = st.one_of(st.sampled_from(SPECIAL_BITS), st.sampled_from(SPECIAL_BITS),
                     st.integers(0, 2 ** 64 - 1).map(lambda n: "%016x" % n))
    return st.one_of(bits.map(lambda b: ["real_double_bits", b]),
                     st.builds(lambda a, b: ["complex_double_bits", a, b], bits, bits))


def leaves():
    return gen.weighted([(5, pools.atoms(True)), (3, doubles()), (2, pools.numbers(True)),
                         (1, st.sampled_from(["d", "x", ""]).map(lambda n: ["dummy", n])),
                         (1, st.sampled_from([["symbol", ""], ["symbol", "a b"], ["symbol", "\xff\x00z"], ["symbol", "x" * 40]]))])


def extra_nodes(ch):
    """classes the pools grammar does not build"""
    x = st.sampled_from(["x", "y"]).map(lambda n: ["symbol", n])
    return st.one_of(
        st.builds(lambda a, s: ["diff", ["function_symbol", "f", ["list", a, ["symbol", "x"]]], s], ch, x),          # Derivative
        st.builds(lambda a, s: ["diff", ["function_symbol", "f", ["list", ["mul", 2, s], a]], s], ch, x),             # Subs
        st.builds(lambda a, s, t: ["diff", ["diff", ["function_symbol", "g", ["list", s, t, a]], s], t], ch, x, x),
        st.builds(lambda o, a: [o, a], st.sampled_from(["primorial", "primepi", "digamma", "trigamma", "unevaluated_expr",
                                                         "conjugate", "truncate", "lambertw", "dirichlet_eta"]), ch),
        st.builds(lambda a, b: ["set_complement", ["reals"], ["finiteset", ["list", a, b]]], ch, ch),
        st.builds(lambda a, lo, hi: ["set_union", ["list", ["interval", ["integer", lo], ["integer", lo + hi]], ["finiteset", ["list", a]]]],
                  ch, st.integers(-5, 5), st.integers(1, 5)),
        st.builds(lambda a, s: ["imageset", s, a, ["integers"]], ch, x),
        st.builds(lambda a, b, s: ["conditionset", s, ["Lt", a, b]], ch, ch, x),
        st.builds(lambda a, b, c: ["piecewise", ["list", ["list", a, ["Lt", ["symbol", "x"], 0]], ["list", b, ["Ge", ["symbol", "y"], c]],
                                                  ["list", c, ["true"]]]], ch, ch, ch),
        st.builds(lambda a, b: ["contains", a, ["interval", ["integer", 0], ["integer", 3], b, not b]], ch, st.booleans()),
        st.builds(lambda a, b: ["xor", ["list", ["Lt", a, 1], ["Gt", b, 2], ["Eq", a, b]]], ch, ch),
        st.builds(lambda a: ["not", ["contains", a, ["interval", ["integer", 0], ["integer", 3]]]], ch),
    )


def body(refs, max_leaves):
    """expression over leaves and references to earlier definitions"""
    lf = leaves()
    if refs:
        lf = st.one_of(lf, st.sampled_from(refs), st.sampled_from(refs))

    def ext(ch):
        return st.one_of(pools_ext(ch), pools_ext(ch), extra_nodes(ch))
    return st.recursive(lf, ext, max_leaves=max_leaves)


def pools_ext(ch):
    lst = lambda lo, hi: st.lists(ch, min_size=lo, max_size=hi).map(lambda xs: ["list"] + xs)
    real = st.one_of(gen.integer(big=False), gen.rational(big=False), st.sampled_from([["oo"], ["noo"]]),
                     st.sampled_from([0.0, -0.0, 0.5, 2.0, -1.5]).map(lambda f: ["real_double", f]))
    return st.one_of(
        st.builds(lambda o, a: [o, a], st.sampled_from(pools.FUN1), ch),
        st.builds(lambda o, a, b: [o, a, b], st.sampled_from(pools.FUN2), ch, ch),
        st.builds(lambda o, a, b: [o, a, b], st.sampled_from(["add", "mul", "pow", "sub", "div"]), ch, ch),
        st.builds(lambda o, xs: [o, xs], st.sampled_from(pools.NARY), lst(2, 4)),
        st.builds(lambda n, xs: ["function_symbol", n, xs], st.sampled_from(["f", "g", "add", ""]), lst(1, 3)),
        st.builds(lambda o, a, b: [o, a, b], st.sampled_from(["Eq", "Ne", "Lt", "Le", "Gt", "Ge"]), ch, ch),
        st.builds(lambda o, xs: [o, xs], st.sampled_from(["and", "or", "xor", "nand", "nor", "xnor"]), lst(2, 3)),
        st.builds(lambda a: ["not", a], ch),
        st.builds(lambda a, b: ["contains", a, b], ch, ch),
        st.builds(lambda a, c1, b: ["piecewise", ["list", ["list", a, c1], ["list", b, ["true"]]]], ch, ch, ch),
        st.builds(lambda a, b, lo, ro: ["interval", a, b, lo, ro], real, real, st.booleans(), st.booleans()),
        st.builds(lambda xs: ["finiteset", xs], lst(1, 4)),
        st.builds(lambda o, xs: [o, xs], st.sampled_from(["set_union", "set_intersection"]), lst(2, 3)),
        st.builds(lambda a, b: ["set_complement", a, b], ch, ch),
        st.builds(lambda s, c: ["conditionset", ["symbol", s], c], st.sampled_from(["x", "y"]), ch),
        st.builds(lambda s, e, b: ["imageset", ["symbol", s], e, b], st.sampled_from(["x", "y"]), ch, ch),
    )


SHARE_WRAP = [
    lambda r: ["add", ["pow", r, 2], ["add", ["mul", 3, r], ["sin", r]]],
    lambda r: ["function_symbol", "h", ["list", r, r, ["cos", r]]],
    lambda r: ["finiteset", ["list", ["exp", r], ["mul", ["symbol", "k"], r], ["pow", ["symbol", "k"], r]]],
    lambda r: ["piecewise", ["list", ["list", r, ["Lt", r, 1]], ["list", ["neg", r], ["true"]]]],
    lambda r: ["mul", ["pow", ["symbol", "q"], r], ["add", r, ["symbol", "q"]], ["atan2", r, ["symbol", "q"]]],
    lambda r: ["max", ["list", r, ["mul", 2, r], ["abs", r]]],
]


@st.composite
def cases(draw):
    kind = draw(st.sampled_from(["expr", "expr", "expr", "expr", "matrix", "unsupported"]))
    if kind == "unsupported":
        k = draw(st.integers(0, 11))
        wrap = draw(st.booleans())
        return {"kind": "expr", "defs": [["ser_unsupported", k]],
                "root": (["finiteset", ["list", R(0), ["symbol", "x"]]] if wrap else R(0))}
    n = draw(st.integers(1, 4))
    defs = []
    for i in range(n):
        refs = [R(j) for j in range(i)]
        defs.append(draw(body(refs, 5)))
    refs = [R(j) for j in range(n)]
    if kind == "matrix":
        r, c = draw(st.integers(0, 3)), draw(st.integers(1, 3))
        elems = [draw(st.one_of(st.sampled_from(refs), body(refs, 3))) for _ in range(r * c)]
        return {"kind": "matrix", "defs": defs, "rows": r, "cols": c, "elems": elems}
    w = draw(st.integers(0, len(SHARE_WRAP) + 1))
    if w < len(SHARE_WRAP):
        root = SHARE_WRAP[w](draw(st.sampled_from(refs)))
        if draw(st.booleans()):
            root = ["add", root, draw(body(refs, 3))]
    else:
        root = draw(body(refs, 6))
    return {"kind": "expr", "defs": defs, "root": root}


def special_cases():
    """deterministic: every special bit pattern as RealDouble and in both parts of a ComplexDouble, alone and inside a
    sum / function; one object of every unsupported class"""
    out = []
    for b in SPECIAL_BITS:
        out.append({"kind": "expr", "defs": [["real_double_bits", b]], "root": R(0)})
        out.append({"kind": "expr", "defs": [["real_double_bits", b]], "root": ["function_symbol", "f", ["list", R(0), ["symbol", "x"], R(0)]]})
        for b2 in ("3ff0000000000000", "0000000000000000", "8000000000000000", "7ff0000000000000", "7ff8000000000000"):
            out.append({"kind": "expr", "defs": [["complex_double_bits", b, b2]], "root": R(0)})
            out.append({"kind": "expr", "defs": [["complex_double_bits", b2, b]], "root": ["finiteset", ["list", R(0), ["symbol", "x"]]]})
    for k in range(12):
        out.append({"kind": "expr", "defs": [["ser_unsupported", k]], "root": R(0)})
    return out


class C19(Check):
    pid = "C19"
    exe = "driver_ser"
    builds = [("main", ("driver_ser",))]
    timeout = 30.0
    rule = ("objects built from 1-4 definitions (grammar over every class with a save_basic and a reachable load_basic overload "
            "of serialize-cereal.h: numbers of every kind incl. multi-limb integers and doubles from raw bit patterns -- +-0.0, "
            "subnormals, +-inf, NaN payloads, also as ComplexDouble parts --, symbols, dummies, constants, Add/Mul/Pow, all "
            "function classes, relationals, booleans, Piecewise, Contains, sets, Derivative, Subs) and a root that references "
            "earlier definitions several times (shared nodes, >= 3 references through the sharing wrappers); DenseMatrix with such "
            "elements; objects of unsupported classes (counted, not judged). Oracle: dumps and loads of a supported object do not "
            "throw; eq(loads(dumps e), e) (when eq(e,e)); same raw tree (Add terms sorted); multiset of stored double bit patterns "
            "identical; no value class has more distinct node objects after loading than before (sharing restored); "
            "dumps(loads(dumps e)) loads again to the same tree. Non-trivial: supported object with >= 2 distinct classes and a "
            "shared node (an object referenced >= 2 times that is not an atom singleton) or a double; distinct by raw dump.")
    assumptions = ["the supported-class table (SUPPORTED in this file) is read from serialize-cereal.h of the pinned tree",
                   "objects containing a NaN double are not eq to themselves: for them the raw tree and the bit patterns are compared",
                   "construction failures (exceptions / declines while building the object) skip the case"]
    tiers = {"quick": {"examples": 2400}, "thorough": {"examples": 120000}}

    def setup_worker(self, tier):
        # lowergamma(1024, 2) and friends expand into ~1000-level nests; the recursive (de)serializer then needs
        # more than 8 MB of stack only because ASan frames are large.  Drivers inherit this limit.
        import resource
        soft, hard = resource.getrlimit(resource.RLIMIT_STACK)
        want = 1 << 30
        if hard != resource.RLIM_INFINITY:
            want = min(want, hard)
        try:
            resource.setrlimit(resource.RLIMIT_STACK, (want, hard))
        except (ValueError, OSError):
            pass

    def enumerate(self, tier):
        return special_cases()

    def strategy(self, tier):
        return cases()

    # ------------------------------------------------------------------
    def judge(self, case):
        if case["kind"] == "matrix":
            return self.judge_matrix(case)
        stmts = [["let", d] for d in case["defs"]]
        k = len(stmts)
        stmts.append(["id", case["root"]])                # k   raw dump of e
        stmts.append(["dumps", R(k)])                     # k+1
        stmts.append(["loads", R(k + 1)])                 # k+2 raw dump of l
        stmts.append(["eq", R(k + 2), R(k)])              # k+3
        stmts.append(["eq", R(k), R(k)])                  # k+4
        stmts.append(["double_bits", R(k)])               # k+5
        stmts.append(["double_bits", R(k + 2)])           # k+6
        stmts.append(["share_classes", R(k)])             # k+7
        stmts.append(["share_classes", R(k + 2)])         # k+8
        stmts.append(["dumps", R(k + 2)])                 # k+9
        stmts.append(["loads", R(k + 9)])                 # k+10
        stmts.append(["str", R(k)])                       # k+11
        stmts.append(["str", R(k + 2)])                   # k+12
        stmts.append(["hash", R(k)])                      # k+13
        stmts.append(["hash", R(k + 2)])                  # k+14
        res = self.run(stmts)
        self.count()
        e = B(res[k])
        if e is None:
            self.skip("build:" + (res[k].get("exc", "?") if isinstance(res[k], dict) else "?"))
            return
        cl = classes_of(e)
        unsup = sorted(c for c in cl if c not in SUPPORTED)
        for c in cl:
            self.cls(c)
        d, l = res[k + 1], res[k + 2]
        if unsup:
            self.skip("unsupported:" + unsup[0])
            if is_exc(d) or is_exc(l):
                return
        else:
            if is_exc(d, "VerifAssertFailure") or is_exc(l, "VerifAssertFailure"):
                self.skip("assert_seen")
                return
            if is_exc(d):
                raise Violation("dumps throws %s (%s) for an object of supported classes %s" % (d["exc"], d.get("what", "")[:200], sorted(cl)),
                                {"object": res[k + 11]})
            if is_exc(l):
                raise Violation("loads(dumps(e)) throws %s (%s) for an object of supported classes %s" % (l["exc"], l.get("what", "")[:200], sorted(cl)),
                                {"object": res[k + 11]})
        if self.tag_active("complexdouble_reload_arith") and isinstance(res[k + 5], list) \
                and any(x.endswith("i") and not cd_survives(x) for x in res[k + 5]):
            # KF-C19-01: load_basic(ComplexDouble) rebuilds re + I*im by arithmetic
            self.skip("known:complexdouble_reload_arith")
            return
        lo = B(l)
        # a NaN double is not equal to itself (eq(e, e) is only true through the pointer shortcut)
        self_eq = res[k + 4] is True and isinstance(res[k + 5], list) and not has_nan(res[k + 5])
        if self_eq and res[k + 3] is not True:
            raise Violation("loads(dumps(e)) is not eq to e: e=%s loaded=%s" % (res[k + 11], res[k + 12]),
                            {"e": e, "loaded": lo})
        if norm(lo) != norm(e):
            raise Violation("loads(dumps(e)) has a different tree: e=%s loaded=%s" % (json.dumps(e)[:600], json.dumps(lo)[:600]))
        if res[k + 5] != res[k + 6]:
            raise Violation("double bit patterns changed by the round trip: before=%s after=%s (e=%s)" % (res[k + 5], res[k + 6], res[k + 11]))
        if self_eq and res[k + 13] != res[k + 14]:
            raise Violation("hash changed by the round trip: e=%s" % res[k + 11])
        before = {x[0]: (x[1], x[2]) for x in res[k + 7]}
        after = {x[0]: (x[1], x[2]) for x in res[k + 8]}
        shared = False
        for key, (nobj, nref) in before.items():
            if key not in after:
                raise Violation("node class %r of e is missing after the round trip (e=%s)" % (key, res[k + 11]))
            if after[key][0] > nobj:
                raise Violation("sharing lost: value %r is %d object(s) referenced %d times in e but %d objects after loads (e=%s)"
                                % (key, nobj, nref, after[key][0], res[k + 11]))
            if nref > nobj and not is_singleton_key(key):
                shared = True
        l2 = res[k + 10]
        if is_exc(res[k + 9]) or is_exc(l2):
            if not unsup:
                raise Violation("second round trip throws: %s / %s (e=%s)" % (str(res[k + 9])[:200], str(l2)[:200], res[k + 11]))
        elif norm(B(l2)) != norm(e):
            raise Violation("loads(dumps(loads(dumps(e)))) differs from e: %s" % res[k + 11])
        if not unsup and len(cl) >= 2 and (shared or res[k + 5]):
            self.nontriv(e)
            if shared:
                self.cls("~shared")
            if res[k + 5]:
                self.cls("~doubles")
            self.sample({"case": case, "str": res[k + 11]})

    def judge_matrix(self, case):
        stmts = [["let", d] for d in case["defs"]]
        k = len(stmts)
        for el in case["elems"]:
            stmts.append(["let", el])
        n = len(case["elems"])
        stmts.append(["dm_roundtrip", case["rows"], case["cols"], ["list"] + [R(k + i) for i in range(n)]])
        for i in range(n):
            stmts.append(["id", R(k + i)])
            stmts.append(["double_bits", R(k + i)])
        res = self.run(stmts)
        self.count()
        m = res[k + n]
        if is_exc(m):
            elems = [B(res[k + n + 1 + 2 * i]) for i in range(n)]
            if any(x is None for x in elems):
                self.skip("build")
                return
            cl = set()
            for x in elems:
                classes_of(x, cl)
            if m["exc"] in ("Decline", "Dep") or [c for c in cl if c not in SUPPORTED]:
                self.skip("matrix:" + m["exc"])
                return
            if m["exc"] == "VerifAssertFailure":
                self.skip("assert_seen")
                return
            raise Violation("DenseMatrix dumps/loads throws %s (%s) for elements of supported classes" % (m["exc"], m.get("what", "")[:200]))
        self.cls("DenseMatrix")
        if m["rows"] != case["rows"] or m["cols"] != case["cols"]:
            raise Violation("DenseMatrix shape changed: %dx%d -> %dx%d" % (case["rows"], case["cols"], m["rows"], m["cols"]))
        for i in range(n):
            orig = B(res[k + n + 1 + 2 * i])
            got = B(m["elems"][i])
            if norm(orig) != norm(got):
                raise Violation("DenseMatrix element %d changed: %s -> %s" % (i, json.dumps(orig)[:400], json.dumps(got)[:400]))
        if m["distinct_out"] > m["distinct_in"]:
            raise Violation("DenseMatrix sharing lost: %d distinct element objects before, %d after" % (m["distinct_in"], m["distinct_out"]))
        if n >= 2:
            self.nontriv(["DM", case["rows"], case["cols"], [B(res[k + n + 1 + 2 * i]) for i in range(n)]])
            self.sample({"case": case})


def is_singleton_key(key):
    """share_classes key '<type code>:<hash>:<str>' of library singletons (small integers, constants, booleans...):
    references to them are shared before and after by construction"""
    s = key.split(":", 2)[2]
    return s in ("0", "1", "-1", "2", "1/2", "-1/2", "pi", "E", "I", "oo", "-oo", "zoo", "nan", "True", "False", "EulerGamma",
                 "Catalan", "GoldenRatio", "Reals", "Integers", "Rationals", "EmptySet", "UniversalSet", "Naturals", "Naturals0",
                 "Complexes")


if __name__ == "__main__":
    from pbt import fuzz
    fuzz.install_extra_findings()      # no-op unless VERIF_EXTRA_FINDINGS is set (development)
    sys.exit(engine.main(C19))
