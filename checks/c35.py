"""C35 refine and simplify preserve value under their assumptions."""
import os
import sys
from fractions import Fraction

sys.path.insert(0, os.path.join(os.path.dirname(os.path.abspath(__file__)), ".."))
from hypothesis import strategies as st
from pbt import engine, gen
from pbt.engine import Check, Violation, R, B, is_exc
from pbt import oracle_num as on
from pbt.oracle_num import Unjudgeable
from pbt.valuecheck import ValueCheck, mpmath_str
from pbt import assumeref as ar

I_ = lambda n: ["integer", n]
SYMS = ["x", "y", "z"]
PI, E_, IU = ["constant", "pi"], ["constant", "E"], ["constant", "I"]
X = ["symbol", "x"]


def q(a, b=1):
    return gen._rat(a, b)


def sym():
    return st.sampled_from(["x", "x", "y", "z"]).map(lambda n: ["symbol", n])


def smallnum():
    return gen.weighted([(5, st.integers(-5, 5).map(I_)), (2, st.builds(q, st.integers(-7, 7), st.sampled_from([2, 3, 4]))),
                         (1, st.sampled_from([0.5, 2.0, -1.5, 3.0]).map(lambda f: ["real_double", f]))])


def lin():
    """x+1, 2*x, x-y, -x, x*y, 3-x ...: arguments whose sign / integrality the visitors can (sometimes) decide"""
    k = st.integers(-4, 4).filter(bool).map(I_)
    return st.one_of(
        st.builds(lambda s, c: ["add", s, c], sym(), smallnum()),
        st.builds(lambda k_, s: ["mul", k_, s], k, sym()),
        st.builds(lambda a, b: ["sub", a, b], sym(), sym()),
        st.builds(lambda a, b: ["add", a, b], sym(), sym()),
        st.builds(lambda a, b: ["mul", a, b], sym(), sym()),
        st.builds(lambda s: ["neg", s], sym()),
        st.builds(lambda k_, s, c: ["add", ["mul", k_, s], c], k, sym(), smallnum()),
        st.builds(lambda s: ["add", s, ["mul", IU, s]], sym()),
        st.builds(lambda a, b: ["add", a, ["mul", IU, b]], sym(), sym()),
        st.builds(lambda s, c: ["add", s, c], sym(), st.sampled_from([PI, E_, ["neg", PI]])),
        st.builds(lambda s, c: ["add", s, c], sym(), st.sampled_from([IU, ["complex", I_(2), I_(-1)], ["complex", I_(-1), q(1, 2)]])))


INNER_EXP = [2, 2, 3, 3, 4, -1, -2, -3, 5, 6]
FRACS = [q(1, 2), q(1, 2), q(1, 3), q(1, 3), q(2, 3), q(3, 2), q(-1, 2), q(-1, 3), q(1, 4), q(1, 6), q(5, 2), q(3, 4)]


def exp_inner():
    return gen.weighted([(6, st.sampled_from(INNER_EXP).map(I_)), (4, st.sampled_from(FRACS)),
                         (1, st.sampled_from([["real_double", 2.0], ["real_double", 3.0], ["real_double", 0.5]])),
                         (1, sym()), (1, st.sampled_from([PI, IU]))])


def exp_outer():
    return gen.weighted([(7, st.sampled_from(FRACS)), (2, st.sampled_from([2, 3, -1, -2]).map(I_)),
                         (1, st.sampled_from([["real_double", 0.5], ["real_double", 1.5], ["real_double", 2.0]])),
                         (1, sym())])


def base():
    return gen.weighted([(7, sym()), (3, lin()), (1, st.builds(lambda s: ["abs", s], sym())), (1, st.sampled_from([PI, E_, I_(2), I_(-3), q(1, 2)]))])


def nested_pow():
    return st.builds(lambda b, a, c: ["pow", ["pow", b, a], c], base(), exp_inner(), exp_outer())


def kink(arg):
    return st.builds(lambda f, a: [f, a], st.sampled_from(["abs", "abs", "sign", "sign", "floor", "ceiling", "conjugate"]), arg)


def maxmin(arg):
    return st.builds(lambda f, xs: [f, ["list"] + xs], st.sampled_from(["max", "min"]), st.lists(arg, min_size=2, max_size=4))


def logs():
    perfect = st.sampled_from([4, 8, 9, 16, 27, 32, 36, 64, 81, 100, 125, 128, 243, 1024, 3 ** 20, 2 ** 64, 7 ** 3, 10 ** 6, 12, 18, 6]).map(I_)
    e = st.one_of(exp_inner(), exp_outer(), sym(), lin())
    return st.one_of(
        st.builds(lambda b, ex: ["log", ["pow", b, ex]], base(), e),
        st.builds(lambda a, b: ["log", ["mul", a, b]], base(), base()),
        st.builds(lambda n: ["log", n], perfect),
        st.builds(lambda n, d: ["log", q(n[1], d[1])], perfect, perfect),
        st.builds(lambda a: ["log", ["exp", a]], st.one_of(sym(), lin())),
        st.builds(lambda a: ["exp", ["log", a]], st.one_of(sym(), lin())),
        st.builds(lambda a, k: ["exp", ["mul", k, ["log", a]]], sym(), st.one_of(smallnum(), sym())),
        st.builds(lambda n, s: ["log", ["pow", n, s]], st.sampled_from([I_(2), I_(3), q(1, 2), E_, PI, I_(-2)]), st.one_of(sym(), lin())),
        st.builds(lambda a: ["log", ["abs", a]], st.one_of(sym(), lin())),
        st.builds(lambda b, ex: ["log", ["pow", ["abs", b], ex]], sym(), e))


def rtrig():
    f = st.sampled_from(["csc", "sec", "cot"])
    arg = st.one_of(sym(), lin())
    return st.one_of(
        st.builds(lambda f_, a, n: ["pow", [f_, a], I_(n)], f, arg, st.sampled_from([-1, -1, -1, -2, 1, 2])),
        st.builds(lambda f_, a: ["div", I_(1), [f_, a]], f, arg),
        st.builds(lambda f_, a, g, b: ["mul", ["pow", [f_, a], I_(-1)], [g, b]], f, arg, st.sampled_from(["sin", "cos", "tan", "csc", "sec", "cot"]), arg),
        st.builds(lambda f_, a, k: ["mul", k, ["pow", [f_, a], I_(-1)]], f, arg, st.one_of(smallnum(), sym())),
        st.builds(lambda f_, a, s: ["add", ["pow", [f_, a], I_(-1)], s], f, arg, sym()))


def expression(tier):
    arg = st.one_of(sym(), sym(), lin(), lin(), nested_pow(), smallnum(),
                    st.builds(lambda b, e: ["pow", b, e], base(), st.one_of(exp_inner(), exp_outer())),
                    st.builds(lambda a: ["neg", ["abs", a]], sym()))
    piece = gen.weighted([(6, nested_pow()), (6, kink(arg)), (3, maxmin(st.one_of(sym(), sym(), smallnum(), lin(), kink(sym())))),
                          (5, logs()), (3, rtrig()), (1, kink(kink(arg))), (1, kink(maxmin(st.one_of(sym(), smallnum()))))])

    def comb(ch):
        return st.one_of(st.builds(lambda a, b: ["add", a, b], ch, ch), st.builds(lambda a, b: ["mul", a, b], ch, ch),
                         st.builds(lambda a, e: ["pow", a, e], ch, st.one_of(exp_outer(), exp_inner())),
                         st.builds(lambda f, a: [f, a], st.sampled_from(["abs", "sign", "floor", "ceiling", "conjugate", "log", "sin", "exp", "neg"]), ch),
                         st.builds(lambda a, s: ["mul", a, s], ch, st.one_of(sym(), smallnum())),
                         st.builds(lambda a, s: ["sub", s, a], ch, st.one_of(sym(), smallnum())))
    return st.recursive(piece, comb, max_leaves=3 if tier == "quick" else 4)


# ------------------------------------------------------------------------------------------ known findings
def _nested_pows(d, out):
    if isinstance(d, list) and d:
        if d[0] == "Pow" and d[1][0] == "Pow":
            out.append((d[1][1], d[1][2], d[2]))
        if d[0] == "Mul":
            for b, e in d[2]:          # a power inside a product is stored as a (base, exponent) pair
                if b[0] == "Pow":
                    out.append((b[1], b[2], e))
        for x in (d[1:] if isinstance(d[0], str) else d):
            if isinstance(x, list):
                _nested_pows(x, out)
    return out


def _contains(d, node):
    if isinstance(d, list):
        return d == node or any(_contains(x, node) for x in d)
    return False


def _is_number(d):
    return d[0] in ("Integer", "Rational", "RealDouble")


def _negative_number(d):
    if d[0] == "Integer":
        return int(d[1]) < 0
    if d[0] == "Rational":
        return int(d[1]) < 0
    if d[0] == "RealDouble":
        return engine.hexf(d[1]) < 0
    return False


def m_refine_pow_abs(case, v):
    """KF-C35-01: refine((b**k)**n) with b real (by the assumptions, or a real number / constant expression), numeric
    k, n -> |b|**(k*n) although k is not an even integer; the result shows Abs(b), or |b| evaluated when b is a number"""
    dt = v.detail or {}
    d = dt.get("dump")
    if not d or dt.get("op") not in ("refine", "simplify"):
        return False
    got = dt.get("result")
    for b, k, n in _nested_pows(d, []):
        if _is_number(k) and _is_number(n) and not (k[0] == "Integer" and int(k[1]) % 2 == 0) and (
                ar.dump_has(got, ("Abs",)) or _negative_number(b)):     # Abs(b) up to the sign abs() normalises
            return True
    return False


def m_pow_reciprocal_base_rewrite(case, v):
    """KF-C35-03: rebuilding a stored power ((b**-1)**e, e not an integer, kept by Mul::power_num) through pow() applies
    pow()'s rewrite (b**-1)**e -> b**(-e) (pow.cpp), which changes the value for b on the negative real axis"""
    dt = v.detail or {}
    d = dt.get("dump")
    if not d:
        return False
    for b, k, n in _nested_pows(d, []):
        if k == ["Integer", "-1"] and not n[0] == "Integer":
            try:
                _, qv = ar.reduce(b, ar.split_env(dt["assign"])[0])
            except ar.Undefined:
                continue
            if qv is None or (qv.im == 0 and qv.re < 0):
                return True
    return False


def _complex_const_add(d):
    return d[0] == "Add" and d[1][0] in ("Complex", "ComplexDouble")


def m_refine_positive_complex_constant(case, v):
    """KF-C35-02 (root cause KF-C34-01): refine trusts is_positive(x + I) = true: sign(x + I) -> 1, abs(x + I) -> x + I,
    max / min drop or keep the wrong arguments, log((x + I)**y) -> y*log(x + I)"""
    dt = v.detail or {}
    d = dt.get("dump")
    if not d or not dt.get("with_asm"):
        return False

    def walk(n):
        if isinstance(n, list) and n:
            if isinstance(n[0], str):
                yield n
            for x in (n[1:] if isinstance(n[0], str) else n):
                if isinstance(x, list):
                    yield from walk(x)
    for n in walk(d):
        if n[0] in ("Abs", "Sign", "Max", "Min") and any(isinstance(c, list) and c and _complex_const_add(c) for c in n[1:]):
            return True
        if n[0] == "Log" and n[1][0] == "Pow" and _complex_const_add(n[1][1]):
            return True
    return False


class C35(ValueCheck):
    pid = "C35"
    timeout = 30.0
    rule = ("one expression per case, built from the shapes refine / simplify rewrite: nested powers (b**k)**n with b a "
            "symbol / linear form / |x| / constant, k, n integers (even, odd, negative), fractions, a few doubles and symbols; "
            "abs sign floor ceiling conjugate of symbols, linear forms, products, powers, x+I*y; max / min of symbols, numbers, "
            "linear forms; log of powers, products, perfect powers, rationals, exp/log pairs, log(n**x); reciprocal trigonometric "
            "functions csc sec cot to the powers -1, -2 inside products and sums; up to three such pieces combined by add mul pow "
            "and outer functions; per symbol a witness-first assumption set as in C34. refine(e, A), simplify(e, A), refine(e), "
            "simplify(e) are compared by value with the tree the library built for e: at 4-6 joint satisfying assignments "
            "(results obtained without assumptions also at 3 unconstrained assignments incl. non-real ones). Exactly "
            "computable subtrees (all symbols at integer / rational / Gaussian points) are evaluated in Q(i), so floor, "
            "ceiling, sign, max, min at integer points are decided exactly; everything else with mpmath at 35/70 digits "
            "(1e-25 relative; kappa-scaled double tolerance with floats), 1e-6 away from the jumps of floor / sign / max / min. "
            "Non-trivial: the result differs structurally from e; distinct by (expression, statements, operation).")
    assumptions = ["principal branches (exp(y*log x), arg in (-pi, pi]); exact negative literals are on the cut with arg = pi",
                   "non-literal bases of non-integer powers on / near the negative real axis, points where e is undefined, "
                   "infinite or ill-conditioned are skipped", "the value of the canonical tree of e must agree with the "
                   "recipe's, otherwise the point is left to C07 / C08", "an exception from refine / simplify declines the call"]
    tiers = {"quick": {"examples": 2400}, "thorough": {"examples": 60000}}
    min_nontrivial = 20
    MARGIN = 1e-6

    def setup_worker(self, tier):
        ar.activate_extra_findings(self)

    def strategy(self, tier):
        return st.fixed_dictionaries({"e": expression(tier), "syms": ar.assumption_sets(SYMS, 4), "free": ar.free_sets(SYMS, 3)})

    OPS = [("refine", True), ("simplify", True), ("refine", False), ("simplify", False)]

    def judge(self, case):
        rec, syms = case["e"], case["syms"]
        ar.check_case_syms(syms)
        names = sorted(gen.symbols_in(rec))
        stmts = [["let", rec], ["asm_new", ["list"] + ar.asm_statements(syms)], ["id", R(0)]]
        for op, w in self.OPS:
            stmts.append([op, R(0), R(1)] if w else [op, R(0)])
        res = self.run(stmts)
        if is_exc(res[0]) or is_exc(res[2]):
            self.skip("assert_seen" if is_exc(res[0], "VerifAssertFailure") else "declined:expr")
            return
        dump = B(res[2])
        if ar.dump_has(dump, ("Infty", "NaN")):
            self.skip("nonfinite_expr")
            return
        results = []
        for k, (op, w) in enumerate(self.OPS):
            r = res[3 + k]
            if is_exc(r):
                self.skip(("assert_seen" if r.get("exc") == "VerifAssertFailure" else "declined:%s:%s" % (op, r.get("exc")))
                          if not (w and is_exc(res[1])) else "declined:asm")
                continue
            got = B(r)
            if got == dump:
                self.cls("unchanged:%s%s" % (op, "+A" if w else ""))
                self.count()
                continue
            self.cls("rewritten:%s%s" % (op, "+A" if w else ""))
            results.append((op, w, got))
        if not results:
            return
        sat = ar.assignments(syms, names, 2)
        free = ar.assignments(case["free"], names, 0) if any(not w for _, w, _ in results) else []
        judged = {}
        cache = {}
        for assign, is_sat in [(a, True) for a in sat] + [(a, False) for a in free]:
            todo = [(op, w, got) for (op, w, got) in results if is_sat or not w]
            if not todo:
                continue
            xenv, nenv = ar.split_env(assign)
            ref = self.reference(rec, dump, xenv, nenv)
            if ref is None:
                continue
            for op, w, got in todo:
                self.count()
                key = (engine.json.dumps(got), engine.json.dumps(assign, sort_keys=True))
                if key not in cache:
                    cache[key] = self.agrees(ref, got, xenv, nenv)
                ok, val = cache[key]
                if ok is None:
                    continue
                judged[(op, w)] = judged.get((op, w), 0) + 1
                if not ok:
                    raise Violation("%s(%s%s) = %s has the value %s at %s where the expression has the value %s"
                                    % (op, engine.sx(rec), (", " + ar.asm_str(syms, names)) if w else "", got, val,
                                       ar.assign_str(assign), ref[3]),
                                    {"op": op, "with_asm": w, "expr": rec, "dump": dump, "result": got, "assign": assign,
                                     "asm": ar.asm_str(syms, names) if w else None})
        for (op, w), n in judged.items():
            self.cls("judged:%s%s" % (op, "+A" if w else ""))
            self.nontriv((rec, tuple(engine.sx(s) for s in ar.asm_statements(syms, names)) if w else (), op))
        if judged:
            self.sample({"expr": engine.sx(rec), "assumptions": ar.asm_str(syms, names),
                         "results": {"%s%s" % (op, "+A" if w else ""): got for (op, w, got) in results if (op, w) in judged},
                         "assignments": [ar.assign_str(a) for a in sat]})

    # -- values
    def value_of(self, node, xenv, nenv):
        """('q', GQ) or ('n', mp value); raises Undefined / Unjudgeable"""
        red, qv = ar.reduce(node, xenv)
        if qv is not None:
            return "q", qv, red
        return "n", ar.numeric(red, nenv, margin=self.MARGIN), red

    def reference(self, rec, dump, xenv, nenv):
        """(kind, value, reduced dump, text) of e at the assignment, or None when the point is not judgeable"""
        try:
            kr, vr, _ = self.value_of(rec, xenv, nenv)
            kd, vd, red = self.value_of(dump, xenv, nenv)
        except ar.Undefined:
            self.skip("undefined_at_assignment")
            return None
        except Unjudgeable as u:
            self.skip("ref:" + u.reason.split(":")[0])
            return None
        floaty = on.has_float(rec) or on.has_float(dump)
        a, b = self.to_mp(vr), self.to_mp(vd)
        if not on.close(a, b, 1e-9 if floaty else 1e-25, 1e-30):
            self.skip("canon_value_differs")
            return None
        return kd, vd, red, (repr(vd) if kd == "q" else mpmath_str(vd))

    @staticmethod
    def to_mp(v):
        if isinstance(v, ar.GQ):
            with on.mp.workdps(70):
                re = on.mpf(v.re.numerator) / v.re.denominator
                return re if v.im == 0 else on.mpc(re, on.mpf(v.im.numerator) / v.im.denominator)
        return v

    def agrees(self, ref, got, xenv, nenv):
        """(True / False / None = not judgeable, text of the result's value)"""
        kd, vd, red, _ = ref
        if ar.dump_has(got, ("Infty", "NaN")) and got[0] in ("Infty", "NaN"):
            return False, str(got)
        try:
            kg, vg, gred = self.value_of(got, xenv, nenv)
        except ar.Undefined:
            return False, "undefined (exact pole)"
        except Unjudgeable as u:
            if u.reason.startswith(("pole", "non_finite")):
                return False, "singular (%s)" % u.reason
            self.skip("res:" + u.reason.split(":")[0])
            return None, None
        if kd == "q" and kg == "q":
            return vd == vg, repr(vg)
        a, b = self.to_mp(vd), self.to_mp(vg)
        floaty = on.has_float(red) or on.has_float(gred)
        try:
            if floaty:
                tol = on.float_abs_tol(red, nenv, margin=self.MARGIN, cut_guard=True, mag=100) if on.has_float(red) else 0
                tol2 = on.float_abs_tol(gred, nenv, margin=self.MARGIN, cut_guard=True, mag=100) if on.has_float(gred) else 0
                ok = on.close(a, b, 1e-9, max(tol, tol2))
            else:
                ok = on.close(a, b, self.exact_tol, 1e-30)
        except Unjudgeable as u:
            self.skip("kappa:" + u.reason.split(":")[0])
            return None, None
        return ok, (repr(vg) if kg == "q" else mpmath_str(vg))


C35.matchers = {"refine_pow_abs": m_refine_pow_abs, "pow_reciprocal_base_rewrite": m_pow_reciprocal_base_rewrite, "refine_positive_complex_constant": m_refine_positive_complex_constant}

if __name__ == "__main__":
    sys.exit(engine.main(C35))
