"""C17 The parser implements conventional mathematical syntax."""
import os
import sys

sys.path.insert(0, os.path.join(os.path.dirname(os.path.abspath(__file__)), ".."))
from hypothesis import strategies as st
from pbt import engine, textref as tr
from pbt.engine import Check, Violation, R, B, is_exc

T_OCTAL = "leading_zero_octal"   # KF-C17-01: Parser::parse_numeric uses strtol(..., 0): "010" == 8, "08" == 8.0


def item(s, a, cx=True):
    return {"s": s, "a": a, "cx": cx}


I = lambda t: ["i", t]
F = lambda t: ["f", t]
S = lambda n: ["s", n]
Bn = lambda op, a, b: ["b", op, a, b]


def fixed_items():
    """deterministic table: every literal spelling, every name of every table, textbook precedence cases"""
    out = []
    for t in tr.INT_TEXTS:
        out.append(item(t, I(t)))
        out.append(item(" " + t + "x", ["im", I(t), S("x")]))
        out.append(item("-" + t, ["n", I(t)]))
    for t in tr.FLT_TEXTS:
        out.append(item(t, F(t)))
        out.append(item(t + "y", ["im", F(t), S("y")]))
        out.append(item("x-" + t, Bn("-", S("x"), F(t))))
    x, y, z = S("x"), S("y"), S("z")
    for name in sorted(tr.SINGLE):
        out.append(item("%s(x)" % name, ["call", name, [x]]))
        out.append(item("%s ( 2*x + 1 )" % name, ["call", name, [Bn("+", Bn("*", I("2"), x), I("1"))]]))
    for name in sorted(tr.DOUBLE):
        out.append(item("%s(x, y)" % name, ["call", name, [x, y]]))
        out.append(item("%s(y,x)" % name, ["call", name, [y, x]]))
        out.append(item("%s(2, x)" % name, ["call", name, [I("2"), x]]))
    for name in sorted(tr.MULTI):
        out.append(item("%s(x)" % name, ["call", name, [x]]))
        out.append(item("%s(x, y)" % name, ["call", name, [x, y]]))
        out.append(item("%s(x, 2, z)" % name, ["call", name, [x, I("2"), z]]))
        out.append(item("%s(1, 3, 2)" % name, ["call", name, [I("1"), I("3"), I("2")]]))
    for name in sorted(tr.REL2):
        out.append(item("%s(x, y)" % name, ["call", name, [x, y]]))
        out.append(item("%s(y, x)" % name, ["call", name, [y, x]]))
        out.append(item("%s(1, 2)" % name, ["call", name, [I("1"), I("2")]]))
        out.append(item("%s(2, 2)" % name, ["call", name, [I("2"), I("2")]]))
    for name in sorted(tr.REL1):
        out.append(item("%s(x)" % name, ["call", name, [x]]))
    lt, gt, le = ["rel", "<", x, y], ["rel", ">", y, z], ["rel", "<=", x, z]
    for name in sorted(tr.BOOLSET) + sorted(tr.BOOLVEC):
        out.append(item("%s(x < y, y > z)" % name, ["call", name, [lt, gt]]))
        out.append(item("%s(x < y, y > z, x <= z)" % name, ["call", name, [lt, gt, le]]))
        out.append(item("%s(x < y)" % name, ["call", name, [lt]]))
        out.append(item("%s(x < y, True)" % name, ["call", name, [lt, ["bc", "True"]]]))
    out.append(item("Not(x < y)", ["call", "Not", [lt]]))
    for op in tr.RELOP:
        out.append(item("x %s y" % op, ["rel", op, x, y]))
        out.append(item("x+1%s2*y" % op, ["rel", op, Bn("+", x, I("1")), Bn("*", I("2"), y)]))
        out.append(item("1 %s 2" % op, ["rel", op, I("1"), I("2")]))
    out.append(item("(x < y) & (y > z)", ["lop", "&", lt, gt]))
    out.append(item("(x < y) | (y > z)", ["lop", "|", lt, gt]))
    out.append(item("(x < y) ^ (y > z)", ["lop", "^", lt, gt], False))
    out.append(item("(x < y) | (y > z) & (x <= z)", ["lop", "|", lt, ["lop", "&", gt, le]]))
    out.append(item("(x < y) & (y > z) | (x <= z)", ["lop", "|", ["lop", "&", lt, gt], le]))
    out.append(item("(x < y) ^ (y > z) & (x <= z)", ["lop", "^", lt, ["lop", "&", gt, le]], False))
    out.append(item("(x < y) | (y > z) ^ (x <= z)", ["lop", "|", lt, ["lop", "^", gt, le]], False))
    out.append(item("~(x < y)", ["not", lt]))
    out.append(item("~(x < y) & (y > z)", ["lop", "&", ["not", lt], gt]))
    out.append(item("Piecewise((x, x < y), (y, True))", ["pw", [[x, lt], [y, ["bc", "True"]]]]))
    for n in sorted(tr.CONSTANTS):
        out.append(item(n, ["c", n]))
        out.append(item("2*" + n, Bn("*", I("2"), ["c", n])))
        if n not in ("e", "E"):
            out.append(item("3" + n, ["im", I("3"), ["c", n]]))
    out.append(item("2e", ["im", I("2"), ["c", "e"]]))
    out.append(item("(2E)+1", Bn("+", ["im", I("2"), ["c", "E"]], I("1"))))
    for n in ("True", "False"):
        out.append(item(n, ["bc", n]))
    for n in tr.SYMBOL_NAMES:
        out.append(item(n, S(n)))
        out.append(item("2*%s+1" % n, Bn("+", Bn("*", I("2"), S(n)), I("1"))))
    for f in tr.UNKNOWN_FUNCS:
        out.append(item("%s(x)" % f, ["call", f, [x]]))
        out.append(item("%s(x, y, 2)" % f, ["call", f, [x, y, I("2")]]))
    a, b, c, d = S("a"), S("b"), S("c"), S("d")
    n2, n3 = I("2"), I("3")
    table = [
        ("-x**2", ["n", Bn("**", x, n2)]), ("-x^2", ["n", Bn("**", x, n2)]), ("(-x)**2", Bn("**", ["n", x], n2)),
        ("a**b**c", Bn("**", a, Bn("**", b, c))), ("a^b^c", Bn("**", a, Bn("**", b, c))),
        ("(a**b)**c", Bn("**", Bn("**", a, b), c)), ("a/b*c", Bn("*", Bn("/", a, b), c)),
        ("a/b/c", Bn("/", Bn("/", a, b), c)), ("a/(b*c)", Bn("/", a, Bn("*", b, c))),
        ("a-b-c", Bn("-", Bn("-", a, b), c)), ("a-(b-c)", Bn("-", a, Bn("-", b, c))),
        ("a-b+c", Bn("+", Bn("-", a, b), c)), ("a+b*c", Bn("+", a, Bn("*", b, c))),
        ("a*b+c", Bn("+", Bn("*", a, b), c)), ("a*b**c", Bn("*", a, Bn("**", b, c))),
        ("a**b*c", Bn("*", Bn("**", a, b), c)), ("a/b**c", Bn("/", a, Bn("**", b, c))),
        ("a**b/c", Bn("/", Bn("**", a, b), c)), ("2**3**2", Bn("**", n2, Bn("**", n3, n2))),
        ("-2**2", ["n", Bn("**", n2, n2)]), ("2**-2", Bn("**", n2, ["n", n2])), ("2**-x*y", Bn("*", Bn("**", n2, ["n", x]), y)),
        ("a**-b**c", Bn("**", a, ["n", Bn("**", b, c)])), ("- -x", ["n", ["n", x]]), ("--x", ["n", ["n", x]]),
        ("+x", ["p", x]), ("-+-x", ["n", ["p", ["n", x]]]), ("a - -b", Bn("-", a, ["n", b])), ("a*-b", Bn("*", a, ["n", b])),
        ("a/-b", Bn("/", a, ["n", b])), ("a+-b*c", Bn("+", a, Bn("*", ["n", b], c))), ("-a*b", Bn("*", ["n", a], b)),
        ("-a/b", Bn("/", ["n", a], b)), ("-a+b", Bn("+", ["n", a], b)), ("-a-b", Bn("-", ["n", a], b)),
        ("7/2/2", Bn("/", Bn("/", I("7"), n2), n2)), ("7-2-2", Bn("-", Bn("-", I("7"), n2), n2)),
        ("2x", ["im", n2, x]), ("2x**3", ["ip", n2, x, n3]), ("2x^3", ["ip", n2, x, n3]),
        ("2x**3**2", ["ip", n2, x, Bn("**", n3, n2)]), ("-2x", ["n", ["im", n2, x]]), ("-2x**3", ["n", ["ip", n2, x, n3]]),
        ("(2x)**3", Bn("**", ["im", n2, x], n3)), ("3.5e2y", ["im", F("3.5e2"), y]), ("1.5x**2", ["ip", F("1.5"), x, n2]),
        ("a+2x", Bn("+", a, ["im", n2, x])), ("a-2x**3", Bn("-", a, ["ip", n2, x, n3])), ("a*2x", Bn("*", a, ["im", n2, x])),
        ("2x*a", Bn("*", ["im", n2, x], a)), ("2x/a", Bn("/", ["im", n2, x], a)), ("2x**3*a", Bn("*", ["ip", n2, x, n3], a)),
        ("2x+3y", Bn("+", ["im", n2, x], ["im", n3, y])), ("2pi", ["im", n2, ["c", "pi"]]), ("2I", ["im", n2, ["c", "I"]]),
        ("x**(2y)", Bn("**", x, ["im", n2, y])), ("x/(2y)", Bn("/", x, ["im", n2, y])),
        ("sin(x)**2", Bn("**", ["call", "sin", [x]], n2)), ("-sin(x)", ["n", ["call", "sin", [x]]]),
        ("sin(-x)", ["call", "sin", [["n", x]]]),
        ("1 + 2*3 - 4/5**6", Bn("-", Bn("+", I("1"), Bn("*", n2, n3)), Bn("/", I("4"), Bn("**", I("5"), I("6"))))),
        ("  ( ( x ) )\t+\n1 ", Bn("+", x, I("1"))), ("x +\r\n y", Bn("+", x, y)),
        ("1/3", Bn("/", I("1"), n3)), ("1/3*x", Bn("*", Bn("/", I("1"), n3), x)), ("x**1/2", Bn("/", Bn("**", x, I("1")), n2)),
        ("x**(1/2)", Bn("**", x, Bn("/", I("1"), n2))), ("2**0.5", Bn("**", n2, F("0.5"))), ("1e2**2", Bn("**", F("1e2"), n2)),
        ("1.**2", Bn("**", F("1."), n2)), ("2-.5", Bn("-", n2, F(".5"))), ("a-d*c", Bn("-", a, Bn("*", d, c))),
    ]
    for s, t in table:
        out.append(item(s, t))
        out.append(item(s, t, False) if "^" not in s else item(s.replace("^", "**"), t, False))
    return out


class C17(Check):
    pid = "C17"
    timeout = 60.0
    rule = ("strings printed from a generated abstract syntax tree by a reference printer (pbt/textref.py): operators "
            "+ - * / ** ^(convert_xor=true) with only the parentheses that conventional precedence/associativity requires "
            "plus random redundant ones, unary sign chains, random whitespace (space, tab, CR, LF, VT) between tokens, "
            "integer literals with leading zeros and multi-limb values, float literals in every spelling (1. .5 1e5 1E-3 "
            "012.5, subnormal/overflow/half-way cases), implicit multiplication NUM IDENT and NUM IDENT ** e, constants, "
            "calls of every name of every table of Parser::functionify (single, double, multi, relational, boolean), "
            "unknown names (function symbols), relational operators between arithmetic sides, & | ~ (and ^ with "
            "convert_xor=false) between parenthesised booleans, Piecewise; plus a deterministic table. Oracle: "
            "eq(parse(s), build(tree)) where build constructs the tree bottom-up through the API ops (integer(int(lit,10)), "
            "real_double(float(lit)), add/sub/mul/div/pow/neg, the function constructors); a lone float literal must "
            "equal Python float(lit) bit for bit; an all-integer arithmetic tree must equal its Fraction value. "
            "Non-trivial: tree with >= 3 operators on >= 2 precedence levels, or containing a literal with a leading "
            "zero / an exponent / a bare dot, or implicit multiplication; distinct by string.")
    assumptions = ["spellings whose conventional reading is ambiguous are not generated: implicit multiplication as the right "
                   "operand of / or **, NUM IDENT where IDENT starts with e/E + digit (would lengthen the literal), "
                   "'1.e3', chained relationals, unparenthesised relationals under & | ^",
                   "an expression on which both parse and direct construction throw is skipped; exact sub-results are kept "
                   "below ~700 digits by construction",
                   "Python float() is correctly rounded (IEEE-754 round-half-even)"]
    tiers = {"quick": {"examples": 2400}, "thorough": {"examples": 60000}}
    batch = 8

    def enumerate(self, tier):
        its = fixed_items()
        for k in range(0, len(its), 10):
            yield {"items": its[k:k + 10]}

    def strategy(self, tier):
        return st.fixed_dictionaries({"items": st.lists(tr.c17_item(10), min_size=self.batch, max_size=self.batch)})

    # ------------------------------------------------------------------
    def judge(self, case):
        items = []
        for it in case["items"]:
            if self.tag_active(T_OCTAL) and any(k == "i" and tr.octal_affected(t) for k, t in tr.literals(it["a"])):
                self.skip("known:" + T_OCTAL)
                continue
            items.append(it)
        if not items:
            return
        stmts = []
        for it in items:
            stmts.append(tr.build(it["a"]))
            stmts.append(["parse", it["s"], bool(it["cx"])])
            stmts.append(["eq", R(len(stmts) - 1), R(len(stmts) - 2)])
        res = self.run(stmts)
        for k, it in enumerate(items):
            self.judge_item(it, res[3 * k], res[3 * k + 1], res[3 * k + 2])

    def judge_item(self, it, rb, rp, re_):
        s, a = it["s"], it["a"]
        detail = {"string": s, "tree": a, "convert_xor": it["cx"], "parse": rp, "direct": rb}
        for r in (rb, rp):
            if is_exc(r, "VerifAssertFailure"):
                self.skip("assert_seen")
                return
        if is_exc(rb, "Decline"):
            raise engine.GeneratorDefect("direct construction declined: %s for %r" % (rb.get("what"), s))
        if is_exc(rb) and is_exc(rp):
            self.skip("both_throw:" + rb["exc"])
            return
        self.count()
        stats = tr.tree_stats(a)
        lits = tr.literals(a)
        kinds = set()
        for k, t in lits:
            if k == "i" and len(t) > 1 and t[0] == "0":
                kinds.add("int_leading_zero")
            if k == "f":
                if tr.has_exp(t):
                    kinds.add("float_exponent")
                if t.startswith(".") or t.endswith("."):
                    kinds.add("float_bare_dot")
                if len(t) > 1 and t[0] == "0" and t[1].isdigit():
                    kinds.add("float_leading_zero")
        if stats["imul"]:
            kinds.add("implicit_mul")
        for k in kinds:
            self.cls("lit:" + k)
        for f in stats["fn"]:
            self.cls("fn:" + f)
        for o in set(stats["ops"]):
            self.cls("op:" + o)
        if (len(stats["ops"]) >= 3 and len(stats["levels"]) >= 2) or kinds:
            self.nontriv(s)
        self.sample({"s": s, "parse": rp if is_exc(rp) else "ok"})
        if is_exc(rp):
            raise Violation("parse(%r) throws %s (%s) but the denoted expression can be constructed directly"
                            % (s, rp["exc"], rp.get("what")), detail)
        if is_exc(rb):
            raise Violation("parse(%r) returns %s but constructing the denoted expression directly throws %s"
                            % (s, B(rp), rb["exc"]), detail)
        dp, db = B(rp), B(rb)
        if re_ is not True and dp != db:
            raise Violation("parse(%r) = %s differs from the conventionally denoted expression %s" % (s, dp, db), detail)
        # literal oracles independent of the driver's constructors
        if a[0] == "f":
            want = float(a[1])
            if dp[0] != "RealDouble" or engine.hexf(dp[1]).hex() != want.hex():
                raise Violation("parse(%r) = %s, Python float gives %s" % (s, dp, want.hex()), detail)
        if a[0] == "i":
            if dp != ["Integer", str(int(a[1], 10))]:
                raise Violation("parse(%r) = %s, base-10 value is %d" % (s, dp, int(a[1], 10)), detail)
        v = tr.exact_value(a)
        if v is not None and a[0] != "i":
            self.cls("exact_arith")
            want = ["Integer", str(v.numerator)] if v.denominator == 1 else ["Rational", str(v.numerator), str(v.denominator)]
            if dp != want:
                raise Violation("parse(%r) = %s, exact arithmetic gives %s" % (s, dp, v), detail)


if __name__ == "__main__":
    sys.exit(engine.main(C17))
