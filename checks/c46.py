"""C46 homogeneous_lde returns the Hilbert basis (minimal non-zero non-negative solutions of A x = 0)."""
import itertools
import os
import sys

sys.path.insert(0, os.path.join(os.path.dirname(os.path.abspath(__file__)), ".."))
from hypothesis import strategies as st
from pbt import engine, hilbert
from pbt.engine import Check, Violation, is_exc


def mats(p, q, lo, hi):
    for flat in itertools.product(range(lo, hi + 1), repeat=p * q):
        yield [list(flat[i * q:(i + 1) * q]) for i in range(p)]


entry = st.one_of(st.integers(-2, 2), st.integers(-4, 4))


def matrix(pmin=1, pmax=3, qmin=2, qmax=5):
    return st.integers(qmin, qmax).flatmap(
        lambda q: st.lists(st.lists(entry, min_size=q, max_size=q), min_size=pmin, max_size=pmax))


class C46(Check):
    pid = "C46"
    exe = "driver_nt"
    builds = [("main", ("driver_nt",))]
    timeout = 60.0
    case_timeout = 120
    rule = ("case = batch of integer matrices A (p x q). All 1x2, 1x3 and 2x3 matrices with entries -2..2 are enumerated "
            "(1x2 also -4..4); Hypothesis adds 1-3 x 2-5 matrices with entries -4..4. The basis returned by "
            "homogeneous_lde must equal, as a set and without repeats, the minimal non-zero non-negative solutions found by "
            "complete enumeration of the box [0,B] where B_j bounds every minimal solution (sum of the q-rank largest j-th "
            "coordinates of the extreme rays). Non-trivial: the basis has >=2 elements and a coordinate >=2; distinct by matrix.")
    assumptions = ["extreme rays = minimal-support solutions, Caratheodory bound on minimal solutions (see pbt/hilbert.py)",
                   "systems whose enumeration box exceeds 4e6 points are skipped and counted",
                   "the order of the returned basis is not judged"]
    tiers = {"quick": {"examples": 2000}, "thorough": {"examples": 100000}}
    exhaustive = True
    min_nontrivial = 20

    def setup_worker(self, tier):
        # homogeneous_lde needs tens of seconds (ASan build) on a few 3x4 / 3x5 systems; slowness is not a violation,
        # so the quick tier gives up on such a program early
        self.timeout = 25.0 if tier == "quick" else 60.0

    def enumerate(self, tier):
        def batches(it, size):
            buf = []
            for a in it:
                buf.append(a)
                if len(buf) == size:
                    yield {"As": buf}
                    buf = []
            if buf:
                yield {"As": buf}
        yield from batches(mats(1, 2, -4, 4), 27)
        yield from batches(mats(1, 3, -2, 2), 25)
        yield from batches(mats(2, 3, -2, 2), 25)
        if tier == "thorough":
            yield from batches(mats(1, 4, -2, 2), 25)
            yield from batches(mats(1, 3, -4, 4), 27)
            yield from batches(mats(2, 2, -4, 4), 27)

    def strategy(self, tier):
        return st.fixed_dictionaries({"As": st.lists(matrix(), min_size=1, max_size=2)})

    def judge(self, case):
        todo = []
        for A in case["As"]:
            try:
                exp = hilbert.hilbert_basis(A)
            except hilbert.TooLarge:
                self.skip("resource:box_too_large")
                continue
            todo.append((A, exp))
        if not todo:
            return
        stmts = [["lde_solve", ["list"] + [["list"] + row for row in A]] for A, _ in todo]
        res = self.run(stmts)
        for (A, exp), r in zip(todo, res):
            self.count()
            self.cls("%dx%d" % (len(A), len(A[0])))
            if is_exc(r):
                if r["exc"] == "VerifAssertFailure":
                    self.skip("assert_seen")
                    continue
                if r["exc"] == "std::logic_error":
                    raise Violation("homogeneous_lde(%s): %s" % (A, r["what"]), {"A": A})
                self.skip("declined:" + r["exc"])
                continue
            got = [tuple(x) for x in r]
            if sorted(got) != exp:
                sg, se = set(got), set(exp)
                raise Violation("homogeneous_lde(%s) returned %s; Hilbert basis is %s (extra %s, missing %s%s)"
                                % (A, sorted(got), exp, sorted(sg - se), sorted(se - sg),
                                   ", repeats" if len(sg) != len(got) else ""), {"A": A, "got": r, "expected": exp})
            if len(exp) >= 2 and any(v >= 2 for b in exp for v in b):
                self.nontriv(A)
            self.cls("basis_size_%02d" % min(len(exp), 30))
            self.sample({"A": A, "basis": r})


if __name__ == "__main__":
    sys.exit(engine.main(C46))
