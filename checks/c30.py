"""C30 Equation solving returns exactly the solution set."""
import os
import sys
from fractions import Fraction

sys.path.insert(0, os.path.join(os.path.dirname(os.path.abspath(__file__)), ".."))
import mpmath
from mpmath import mp, mpf, mpc
from hypothesis import strategies as st
from pbt import engine
from pbt.engine import Check, Violation, R, B, is_exc
from pbt import oracle_num as on
from pbt.oracle_num import Unjudgeable
from pbt import solveref as sv
from pbt.solveref import T, F, A, Declined

DPS = 80
X = ["symbol", "x"]


def rat(q):
    q = Fraction(q)
    return ["integer", q.numerator] if q.denominator == 1 else ["rational", q.numerator, q.denominator]


def fr(p):
    return Fraction(p[0], p[1])


def xpow(i):
    return X if i == 1 else ["pow", X, ["integer", i]]


def poly_recipe(p):
    terms = []
    for i, c in enumerate(p):
        if c == 0:
            continue
        if i == 0:
            terms.append(rat(c))
        elif c == 1:
            terms.append(xpow(i))
        else:
            terms.append(["mul", rat(c), xpow(i)])
    if not terms:
        return ["integer", 0]
    if len(terms) == 1:
        return terms[0]
    return ["add_vec", ["list"] + terms]


def product_recipe(factors, lead=Fraction(1)):
    items = [poly_recipe(f) for f in factors]
    if lead != 1 or not items:
        items = [rat(lead)] + items
    if len(items) == 1:
        return items[0]
    return ["mul_vec", ["list"] + items]


def specs_poly(specs, lead=Fraction(1)):
    p = [Fraction(lead)]
    for s in specs:
        p = sv.p_mul(p, sv.spec_factor(s))
    return p


def clamp_specs(specs, maxdeg):
    out, d = [], 0
    for s in specs:
        if d + sv.spec_degree(s) <= maxdeg:
            out.append(s)
            d += sv.spec_degree(s)
    return out


def dom_recipe(dom):
    if dom[0] == "universal":
        return None
    if dom[0] == "reals":
        return ["reals"]
    return ["interval", rat(fr(dom[1])), rat(fr(dom[2])), bool(dom[3]), bool(dom[4])]


def dom_member(dom, v):
    """three-valued membership of a numeric point in the requested domain"""
    if dom[0] == "universal":
        return T
    if dom[0] == "reals":
        return sv.is_real(v)
    return sv.in_interval(v, on.frac_to_mp(fr(dom[1])), on.frac_to_mp(fr(dom[2])), bool(dom[3]), bool(dom[4]))


def root_in_domain(dom, root, p):
    """exact membership of a reference root (realness known exactly; interval endpoints are rational,
    so a root equals an endpoint only when the endpoint is itself a root of p)"""
    if dom[0] == "universal":
        return T
    if not root.real:
        return F
    if dom[0] == "reals":
        return T
    x = root.v.real if isinstance(root.v, mpc) else root.v
    res = []
    for q, open_, side in ((fr(dom[1]), dom[3], 1), (fr(dom[2]), dom[4], -1)):
        e = on.frac_to_mp(q)
        if p is not None and sv.p_eval(p, q) == 0 and abs(x - e) <= mpf(10) ** -40:
            res.append(F if open_ else T)
        elif abs(x - e) <= mpf(10) ** -20:
            res.append(A)
        else:
            res.append(T if (x - e) * side > 0 else F)
    return sv._and(res)


def lit(d):
    if d is not None and d[0] == "Integer":
        return Fraction(int(d[1]))
    if d is not None and d[0] == "Rational":
        return Fraction(int(d[1]), int(d[2]))
    return None


def special_branch(p):
    """which special-case branch of solve_poly_cubic / solve_poly_quartic (solve.cpp) the polynomial takes:
    the branches that solve an auxiliary equation *with the caller's domain* (KF-C30-06)"""
    p = sv.p_trim(p)
    deg = len(p) - 1
    if deg == 3:
        return "cubic_d0" if p[0] == 0 else None
    if deg != 4:
        return None
    lc = p[4]
    a, b, c, d = p[3] / lc, p[2] / lc, p[1] / lc, p[0] / lc
    if d == 0:
        return "quartic_d0"
    e = b - 3 * a * a / 8
    ff = c + a ** 3 / 8 - a * b / 2
    g = d + a * a * b / 16 - a * c / 4 - 3 * a ** 4 / 256
    if g == 0:
        return "quartic_g0"
    if ff == 0:
        return "quartic_f0"
    return None


PROBES = [Fraction(0), Fraction(1), Fraction(-1), Fraction(1, 2), Fraction(7, 3), Fraction(-5, 2), Fraction(10)]


class C30(Check):
    pid = "C30"
    exe = "driver_solve"
    builds = [("main", ("driver_solve",))]
    timeout = 20.0
    rule = ("(a) polynomials of degree 0-4 over Q built from chosen roots (rational incl. 0, a+-b*sqrt(c), complex pairs "
            "a+-b*sqrt(c)*i, repeated specs) times a rational leading coefficient, random coefficient vectors, or shifted depressed quartics / cubics "
            "q(x - h), q = y^4 + e y^2 + f y + g with f or g often 0 (the special-case branches of the quartic formula) "
            "plus a fixed table of 30 such polynomials x 4 domains x 2 ops; given "
            "expanded, factored or as a product of two expanded parts, optionally as Eq(lhs, rhs); ops solve and "
            "solve_poly; domains UniversalSet, Reals, Interval with rational endpoints (often rational roots, open or "
            "closed). (b) rational equations N1/D1 [+ N2/D2] with common factors between numerators and denominators "
            "(ops solve, solve_rational). (c) alpha*sin(a x)+beta*cos(a x)+gamma, alpha*T(a x)+gamma for T in tan cot "
            "sec csc, small rational parameters, integer a (low weight: a shift b or rational a, which the library "
            "declines). (d) linsolve on n x n (n <= 5) rational systems A = P L U (unit lower L, non-zero diagonal U, "
            "row permutation P), equations given as expressions or Eq. Oracle: the returned set expression is "
            "interpreted semantically (FiniteSet, Union, Intersection, Complement, Interval, Reals, ImageSet over the "
            "integers; three-valued membership at 80 digits, branch cuts refused); every explicit member (FiniteSet "
            "element, ImageSet sample n in -2..2) must satisfy the equation (|residual| <= 1e-40 * scale), lie in the "
            "domain and not be a pole; every reference root (exact by construction, or mpmath.polyroots of the "
            "square-free part with a Sturm count deciding realness) that lies in the domain must be a member "
            "(1e-30); linsolve must satisfy A x = b exactly. ConditionSet / exceptions = declined. Non-trivial: "
            "degree >= 3, or a repeated / zero / non-real root, or a cancelled pole, or a trigonometric equation with "
            "an explicit answer, or a linear system with n >= 3; distinct by case.")
    assumptions = ["principal branches (mpmath) give the value of the radical expressions the library returns",
                   "ImageSet(n, expr, (-oo, oo)) returned by solve_trig means n ranges over the integers (TODO in solve.cpp)",
                   "a removable singularity where the cancelled function vanishes may or may not be reported"]
    tiers = {"quick": {"examples": 4000, "shrink_calls": 100}, "thorough": {"examples": 200000, "shrink_calls": 250}}

    def setup_worker(self, tier):
        # start the driver with a generous time-out: under load the first answer of a freshly started
        # sanitizer build can take seconds, and a timed-out reproducer would look like a repaired finding
        self.run([["integer", 1]], timeout=120)

    # ------------------------------------------------------------------ generation
    def strategy(self, tier):
        small = st.tuples(st.integers(-6, 6), st.integers(1, 4)).map(list)
        nz = st.tuples(st.integers(1, 6), st.integers(1, 4), st.sampled_from([1, -1])).map(lambda t: [t[0] * t[2], t[1]])
        qspec = st.one_of(small.map(lambda q: ["q", q[0], q[1]]), st.just(["q", 0, 1]),
                          st.integers(-4, 4).map(lambda n: ["q", n, 1]))
        sspec = st.builds(lambda a, b, c: ["s", a[0], a[1], b[0], b[1], c], small, nz, st.sampled_from([2, 3, 5, 6, 7]))
        cspec = st.builds(lambda a, b, c: ["c", a[0], a[1], b[0], b[1], c], small, nz, st.sampled_from([1, 1, 2, 3]))
        spec = st.one_of(qspec, qspec, sspec, cspec)
        speclist = st.builds(lambda xs, dup: clamp_specs(([xs[0]] * dup if xs else []) + xs, 4),
                             st.lists(spec, min_size=0, max_size=4), st.sampled_from([0, 0, 1, 1, 2]))
        dom = st.one_of(st.just(["universal"]), st.just(["universal"]), st.just(["reals"]),
                        st.builds(lambda a, b, lo, ro, pick: ["interval", a, b, lo, ro, pick], small, small,
                                  st.booleans(), st.booleans(), st.integers(0, 7)))
        coeffs = st.builds(lambda cs, lead, zero: ([[0, 1]] if zero else []) + cs + [lead],
                           st.lists(small, min_size=0, max_size=3), nz, st.booleans())
        poly = st.one_of(
            st.fixed_dictionaries({"kind": st.just("poly"), "specs": speclist, "lead": nz,
                                   "form": st.sampled_from(["expanded", "expanded", "factored", "mixed"]),
                                   "dom": dom, "op": st.sampled_from(["solve", "solve", "solve", "solve_poly", "solve_poly_heuristics"]),
                                   "eq": st.one_of(st.none(), st.none(), st.lists(small, min_size=1, max_size=3))}),
            st.fixed_dictionaries({"kind": st.just("poly"), "coeffs": coeffs, "dom": dom,
                                   "op": st.sampled_from(["solve", "solve", "solve_poly", "solve_poly_heuristics"]),
                                   "eq": st.one_of(st.none(), st.none(), st.lists(small, min_size=1, max_size=3))}))
        # p(x) = q(x - h), q(y) = y^4 + e y^2 + f y + g (or y^3 + e y + f) with f or g possibly zero: the
        # special-case branches of solve_poly_quartic (g == 0, f == 0) and the zero-discriminant cubic
        shifted = st.fixed_dictionaries({"kind": st.just("poly"), "shifted": st.tuples(small, small, st.one_of(st.just([0, 1]), small),
                                                                                    st.one_of(st.just([0, 1]), small)).map(list),
                                         "deg": st.sampled_from([4, 4, 3]), "lead": nz, "dom": dom,
                                         "op": st.sampled_from(["solve", "solve_poly", "solve_poly_heuristics"]), "eq": st.none()})
        sl2 = st.lists(spec, min_size=0, max_size=2).map(lambda xs: clamp_specs(xs, 2))
        ratl = st.fixed_dictionaries({
            "kind": st.just("rational"), "n1": sl2, "d1": st.lists(spec, min_size=1, max_size=2).map(lambda xs: clamp_specs(xs, 2) or [["q", 1, 1]]),
            "share": st.integers(0, 3), "second": st.booleans(), "n2": sl2,
            "d2": st.lists(qspec, min_size=1, max_size=1), "lead": nz, "lead2": nz,
            "form": st.sampled_from(["expanded", "factored"]), "dom": dom,
            "op": st.sampled_from(["solve", "solve", "solve_rational"])})
        trig = st.fixed_dictionaries({
            "kind": st.just("trig"), "fn": st.sampled_from(["sincos", "sincos", "sin", "cos", "tan", "cot", "sec", "csc"]),
            "alpha": nz, "beta": small, "gamma": st.one_of(small, st.sampled_from([[0, 1], [1, 1], [-1, 1], [1, 2], [-1, 2]])),
            "a": st.sampled_from([[1, 1], [1, 1], [1, 1], [2, 1], [-1, 1], [3, 1], [-2, 1], [1, 2]]),
            "b": st.sampled_from([None, None, None, None, None, None, [1, 1], ["pi", 1, 3]]),
            "dom": st.one_of(st.just(["universal"]), st.just(["universal"]), st.just(["universal"]), dom)})
        n = st.integers(1, 5)
        lin = n.flatmap(lambda k: st.fixed_dictionaries({
            "kind": st.just("linsolve"), "n": st.just(k),
            "L": st.lists(st.lists(st.integers(-3, 3), min_size=k, max_size=k), min_size=k, max_size=k),
            "U": st.lists(st.lists(small, min_size=k, max_size=k), min_size=k, max_size=k),
            "diag": st.lists(nz, min_size=k, max_size=k), "perm": st.permutations(list(range(k))),
            "x": st.lists(small, min_size=k, max_size=k), "eqform": st.lists(st.integers(0, 2), min_size=k, max_size=k),
            "symperm": st.permutations(list(range(k)))}))
        return st.one_of(poly, poly, poly, shifted, ratl, ratl, trig, lin)

    def enumerate(self, tier):
        # the special-case branches of the cubic / quartic formulas, each with the three kinds of domain
        polys = [
            [-2, 0, 0, 1], [2, 0, 0, 1], [0, 2, 0, 1], [0, -2, 0, 1], [0, 0, 1, 1], [-1, 3, -3, 1], [4, 0, -3, 1],
            [-6, 11, -6, 1], [1, 1, 0, 1], [1, 0, 0, 0, 1], [-1, 0, 0, 0, 1], [1, 0, 1, 0, 1], [4, 0, -5, 0, 1],
            [0, 1, 0, 0, 1], [0, 0, 1, 0, 1], [0, 0, 0, 1, 1], [1, 1, 0, 0, 1], [1, -4, 6, -4, 1], [4, 0, 0, 0, 1],
            [3, 2, 1, 2, 1], [2, -3, 0, 1, 1], [24, -50, 35, -10, 1], [0, 0, 0, 0, 1], [0, 0, 0, 1], [0, 0, 1],
            [1, 2, 3, 2, 1], [-4, 0, 0, 0, 1], [1, 0, -2, 0, 1], [5], [],
        ]
        doms = [["universal"], ["reals"], ["interval", [0, 1], [2, 1], False, False, 0], ["interval", [-3, 1], [0, 1], True, True, 0]]
        for p in polys:
            for d in doms:
                for op in ("solve", "solve_poly"):
                    yield {"kind": "poly", "coeffs": [[c, 1] for c in p], "dom": d, "op": op, "eq": None}

    # ------------------------------------------------------------------ helpers
    def call(self, op, expr, dom, timeout=None):
        stmts = [["let", X], ["let", expr]]
        d = dom_recipe(dom)
        if d is None:
            stmts.append([op, R(1), R(0)])
        else:
            stmts.append([op, R(1), R(0), d])
        res = self.run(stmts, timeout)
        return res[-1]

    def declined(self, res):
        if is_exc(res):
            self.skip("assert_seen" if res["exc"] == "VerifAssertFailure" else "declined:" + res["exc"])
            return True
        return False

    def fix_dom(self, dom, rational_roots):
        if dom[0] != "interval":
            return dom
        lo, hi = fr(dom[1]), fr(dom[2])
        pick = dom[5] if len(dom) > 5 else 0
        rr = sorted(set(rational_roots))
        if rr and pick & 1:
            lo = rr[(pick >> 1) % len(rr)]
        if rr and pick & 4:
            hi = rr[(pick >> 1) % len(rr)]
        if lo > hi:
            lo, hi = hi, lo
        if lo == hi:
            hi = lo + 1
        return ["interval", [lo.numerator, lo.denominator], [hi.numerator, hi.denominator], dom[3], dom[4]]

    # ------------------------------------------------------------------ judge
    def judge(self, case):
        with mp.workdps(DPS):
            k = case["kind"]
            if k == "poly":
                self.judge_poly(case)
            elif k == "rational":
                self.judge_rational(case)
            elif k == "trig":
                self.judge_trig(case)
            else:
                self.judge_linsolve(case)

    # ---- (a) polynomials
    def judge_poly(self, case):
        if "specs" in case:
            specs = case["specs"]
            lead = fr(case["lead"])
            p = specs_poly(specs, lead)
            factors = [sv.spec_factor(s) for s in specs]
            form = case["form"]
            if form == "expanded" or not factors:
                expr = poly_recipe(p)
            elif form == "factored":
                expr = product_recipe(factors, lead)
            else:
                h = max(1, len(factors) // 2)
                a, b = [Fraction(1)], [lead]
                for f in factors[:h]:
                    a = sv.p_mul(a, f)
                for f in factors[h:]:
                    b = sv.p_mul(b, f)
                expr = ["mul", poly_recipe(a), poly_recipe(b)]
            roots = sv.roots_of_specs(specs)
            ratroots = [Fraction(s[1], s[2]) for s in specs if s[0] == "q"]
            src = "specs"
        else:
            if "shifted" in case:
                h, e, f_, g = [fr(c) for c in case["shifted"]]
                q = [g, f_, e, Fraction(0), Fraction(1)] if case["deg"] == 4 else [f_, e, Fraction(0), Fraction(1)]
                p, powk = [], [Fraction(1)]
                for c in q:
                    p = sv.p_add(p, sv.p_scale(powk, c))
                    powk = sv.p_mul(powk, [-h, Fraction(1)])
                p = sv.p_scale(p, fr(case["lead"]))
            else:
                p = sv.p_trim([fr(c) for c in case["coeffs"]])
            form = "expanded"
            expr = poly_recipe(p)
            try:
                roots = sv.numeric_roots(p) if len(p) > 1 else []
            except Unjudgeable as u:
                self.skip("ref:" + u.reason)
                return
            ratroots = []
            src = "coeffs"
        deg = len(p) - 1
        dom = self.fix_dom(case["dom"], ratroots)
        if case.get("eq") and case["op"] == "solve":   # solve_poly takes an expression, not an equation
            r = sv.p_trim([fr(c) for c in case["eq"]])
            if form == "expanded":
                expr = ["Eq", poly_recipe(sv.p_add(p, r)), poly_recipe(r)]
            else:
                expr = ["Eq", ["add", expr, poly_recipe(r)], poly_recipe(r)]
        heur = case["op"] == "solve_poly_heuristics"
        if heur:
            if deg < 0:
                self.skip("heuristics:no_coefficients")
                return
            form = "coefficients"
            expr = ["list"] + [rat(c) for c in p]
        desc = "%s(%s, x%s)" % (case["op"], engine.sx(expr), "" if dom[0] == "universal" else ", " + engine.sx(dom_recipe(dom)))
        # the polynomials that actually reach the closed-form formulas: solve() of a product solves the
        # factors one by one, solve_poly / solve_poly_heuristics expand first
        formula_inputs = [p]
        if case["op"] == "solve" and "specs" in case and form == "factored":
            formula_inputs = [sv.spec_factor(sp) for sp in specs]
        elif case["op"] == "solve" and "specs" in case and form == "mixed":
            h = max(1, len(specs) // 2)
            formula_inputs = [specs_poly(specs[:h]), specs_poly(specs[h:])]
        special = next((b for b in (special_branch(q) for q in formula_inputs) if b), None)
        if special:
            self.cls("poly:special:" + special)
        if special and dom[0] != "universal" and self.tag_active("poly_inner_solve_domain"):
            self.skip("known:poly_inner_solve_domain")
            return
        # product forms: solve() unions the per-factor answers; with a restricted domain every factor with
        # irrational / non-real roots contributes an unevaluated Intersection (KF-C30-07 when there are two)
        irr_factors = 0
        if "specs" in case and dom[0] != "universal" and case["op"] == "solve":
            if form == "factored":
                irr_factors = len({tuple(sp) for sp in specs if sp[0] != "q"})
            elif form == "mixed":
                h = max(1, len(specs) // 2)
                irr_factors = sum(1 for part in (specs[:h], specs[h:]) if any(sp[0] != "q" for sp in part))
        if irr_factors >= 2 and self.tag_active("factored_domain_union_recursion"):
            self.skip("known:factored_domain_union_recursion")
            return
        try:
            if heur:
                d = dom_recipe(dom)
                res = self.run([["solve_poly_heuristics", expr] + ([d] if d is not None else [])])[-1]
            else:
                res = self.call(case["op"], expr, dom)
        except engine.DriverTimeout:
            if irr_factors < 2:
                raise
            res = self.call(case["op"], expr, dom, timeout=150)   # let the stack overflow decide, see judge_trig
        if self.declined(res):
            return
        got = B(res)
        self.count()
        self.cls("poly:deg%d" % deg)
        self.cls("dom:" + dom[0])
        self.cls("form:" + form)
        try:
            if deg <= 0:
                self.judge_constant(desc, case, got, dom, identically_zero=(deg < 0))
            else:
                self.judge_finite(desc, case, got, dom, p, roots, poles=None)
        except Declined as d:
            self.skip("declined:" + d.why)
            return
        except Unjudgeable as u:
            self.skip("unjudgeable:" + u.reason.split(":")[0])
            return
        nontriv = (deg >= 3 or any(r.mult > 1 or not r.real for r in roots) or (deg >= 1 and p[0] == 0)
                   or len(sv.p_squarefree(p)) < len(p))
        if nontriv:
            self.nontriv(("poly", [str(c) for c in p], form, dom, case["op"], bool(case.get("eq"))))
            self.cls("nontrivial")
        self.sample({"call": desc, "result": got if len(str(got)) < 600 else str(got)[:600] + "..."})

    def judge_constant(self, desc, case, got, dom, identically_zero):
        sem = sv.SetSem(dps=DPS)
        probes = [on.frac_to_mp(q) for q in PROBES] + [mpc(0, 1), mpc(1, -2)]
        if dom[0] == "interval":
            lo, hi = fr(dom[1]), fr(dom[2])
            probes += [on.frac_to_mp(q) for q in (lo, hi, (lo + hi) / 2, lo - 1, hi + 1)]
        for v in probes:
            exp = dom_member(dom, v) if identically_zero else F
            m = sem.member(v, got)
            if A in (exp, m):
                continue
            if m != exp:
                raise Violation("%s: the equation is %s but %s is %sa member of the returned %s"
                                % (desc, "0 = 0" if identically_zero else "c = 0 with c != 0", mp.nstr(v, 8),
                                   "" if m == T else "not ", got), {"case": case, "result": got})

    def judge_finite(self, desc, case, got, dom, p, roots, poles, required=None, pole_desc=""):
        """got: returned set; p: polynomial whose roots are the solutions (exact, over Q);
        roots: its distinct roots; poles: list of polynomials whose roots are excluded points"""
        sem = sv.SetSem(dps=DPS)
        cands = sem.candidates(got)
        for v, elem in cands:
            m = sem.member(v, got)
            if m != T:
                continue
            resid = abs(sv.p_eval_mp(p, v))
            scale = sv.p_scale_at(p, v)
            if resid > mpf(10) ** -40 * scale:
                near = min([abs(v - r.v) for r in roots] or [mpf(0)])
                what = "not a solution"
                for q in poles or []:
                    if abs(sv.p_eval_mp(q, v)) <= mpf(10) ** -40 * max(1, sv.p_scale_at(q, v)):
                        what = "a zero of the denominator (pole or removable singularity with non-zero limit), not a solution"
                raise Violation("%s: returned member %s = %s is %s (|residual| = %s, distance to the nearest solution %s)"
                                % (desc, elem, mp.nstr(v, 25), what, mp.nstr(resid, 5), mp.nstr(near, 5)),
                                {"case": case, "result": got, "element": elem})
            dm = dom_member(dom, v)
            if dm == F:
                raise Violation("%s: returned member %s = %s lies outside the requested domain" % (desc, elem, mp.nstr(v, 25)),
                                {"case": case, "result": got, "element": elem})
        for r in (roots if required is None else required):
            ind = root_in_domain(dom, r, p)
            if ind != T:
                if ind == A:
                    self.skip("ambiguous:endpoint")
                continue
            m = sem.member(r.v, got)
            if m == A:
                self.skip("ambiguous:cluster")
                continue
            if m == F:
                raise Violation("%s: the solution %s (multiplicity %d) lies in the domain but is not a member of the returned %s"
                                % (desc, mp.nstr(r.v, 25), r.mult, str(got)[:1500]), {"case": case, "result": got})

    # ---- (b) rational equations
    def judge_rational(self, case):
        n1s, d1s = list(case["n1"]), list(case["d1"])
        share = case["share"]
        # common factors: copy up to `share` (bit mask) denominator specs into the numerator
        n1s = clamp_specs([s for i, s in enumerate(d1s) if share >> i & 1] + n1s, 3)
        lead = fr(case["lead"])
        N1, D1 = specs_poly(n1s, lead), specs_poly(d1s)
        form = case["form"]

        def side(specs, ld):
            if form == "expanded" or not specs:
                return poly_recipe(specs_poly(specs, ld))
            return product_recipe([sv.spec_factor(s) for s in specs], ld)
        expr = ["div", side(n1s, lead), side(d1s, Fraction(1))]
        num, den, dens = N1, D1, [D1]
        if case["second"]:
            n2s, d2s = clamp_specs(case["n2"], 1), case["d2"]
            lead2 = fr(case["lead2"])
            N2, D2 = specs_poly(n2s, lead2), specs_poly(d2s)
            expr = ["add", expr, ["div", side(n2s, lead2), side(d2s, Fraction(1))]]
            num = sv.p_add(sv.p_mul(N1, D2), sv.p_mul(N2, D1))
            den = sv.p_mul(D1, D2)
            dens = [D1, D2]
        ratroots = [Fraction(s[1], s[2]) for s in n1s + d1s if s[0] == "q"]
        dom = self.fix_dom(case["dom"], ratroots)
        desc = "%s(%s, x%s)" % (case["op"], engine.sx(expr), "" if dom[0] == "universal" else ", " + engine.sx(dom_recipe(dom)))
        if not num:
            # identically zero away from the poles: the answer is domain minus poles; only probes
            self.skip("rational:identically_zero")
            return
        g = sv.p_gcd(num, den)
        nred = sv.p_divmod(num, g)[0]
        cancelled = len(g) > 1
        alldens = den
        # KF-C30-01 concerns expressions whose canonical form is a product (a single fraction, or a sum of
        # fractions that the library merges into one term)
        canon = B(self.run([["let", X], expr])[1])
        is_product = canon is not None and canon[0] == "Mul"
        if self.tag_active("solve_mul_ignores_poles") and case["op"] == "solve" and is_product and cancelled:
            self.skip("known:solve_mul_ignores_poles")
            return
        if (self.tag_active("rational_domain_complement_demorgan") and dom[0] != "universal"
                and any(sp[0] != "q" for sp in d1s)):
            # solve(den, x, domain) is an unevaluated Intersection(domain, FiniteSet)
            self.skip("known:rational_domain_complement_demorgan")
            return
        if self.tag_active("solve_rational_structural_poles") and cancelled and len(num) - 1 >= 3:
            # (op solve on a sum, or solve_rational): the numerator goes through the cubic / quartic formula
            self.skip("known:solve_rational_structural_poles")
            return
        res = self.call(case["op"], expr, dom)
        if self.declined(res):
            return
        got = B(res)
        self.count()
        self.cls("rational:%s" % ("sum" if case["second"] else "single"))
        self.cls("dom:" + dom[0])
        if cancelled:
            self.cls("rational:cancelled_pole")
        try:
            if len(nred) <= 1:
                roots, required = [], []
            else:
                roots = sv.numeric_roots(nred)
                # a root of the reduced numerator where an original denominator vanishes is a removable
                # singularity with limit 0: neither required nor forbidden
                required = [r for r in roots
                            if abs(sv.p_eval_mp(alldens, r.v)) > mpf(10) ** -30 * max(1, sv.p_scale_at(alldens, r.v))]
            if len(nred) <= 1:
                # no solutions at all
                sem = sv.SetSem(dps=DPS)
                for v, elem in sem.candidates(got):
                    if sem.member(v, got) == T:
                        raise Violation("%s: the equation has no solution but %s = %s is a member of the result"
                                        % (desc, elem, mp.nstr(v, 20)), {"case": case, "result": got})
            else:
                self.judge_finite(desc, case, got, dom, nred, roots, poles=dens, required=required)
        except Declined as d:
            self.skip("declined:" + d.why)
            return
        except Unjudgeable as u:
            self.skip("unjudgeable:" + u.reason.split(":")[0])
            return
        if cancelled or len(nred) - 1 >= 3 or any(not r.real or r.v == 0 for r in roots):
            self.nontriv(("rational", engine.sx(expr), dom, case["op"]))
            self.cls("nontrivial")
        self.sample({"call": desc, "result": got if len(str(got)) < 600 else str(got)[:600] + "..."})

    # ---- (c) linear trigonometric equations
    def judge_trig(self, case):
        al, be, ga = fr(case["alpha"]), fr(case["beta"]), fr(case["gamma"])
        a = fr(case["a"])
        b = case["b"]
        fn = case["fn"]
        arg = X if a == 1 else ["mul", rat(a), X]
        bval = mpf(0)
        if b is not None:
            if b[0] == "pi":
                arg = ["add", arg, ["mul", rat(Fraction(b[1], b[2])), ["constant", "pi"]]]
                bval = mp.pi * b[1] / b[2]
            else:
                arg = ["add", arg, rat(fr(b))]
                bval = on.frac_to_mp(fr(b))
        if fn == "sincos":
            if be == 0:
                be = Fraction(1)
            expr = ["add_vec", ["list", ["mul", rat(al), ["sin", arg]], ["mul", rat(be), ["cos", arg]]] + ([rat(ga)] if ga else [])]
        else:
            be = Fraction(0)
            t = [fn, arg]
            t = t if al == 1 else ["mul", rat(al), t]
            expr = ["add", t, rat(ga)] if ga else t
        dom = self.fix_dom(case["dom"], [])
        if dom[0] != "universal" and self.tag_active("trig_domain_recursion"):
            self.skip("known:trig_domain_recursion")
            return
        desc = "solve(%s, x%s)" % (engine.sx(expr), "" if dom[0] == "universal" else ", " + engine.sx(dom_recipe(dom)))
        # reference solutions theta = a x + b
        thetas = self.trig_reference(fn, al, be, ga)
        if thetas is None:
            self.skip("ref:degenerate")
            return
        am = on.frac_to_mp(a)
        refs = []
        for th in thetas:
            for period, ks in th[1:]:
                for kk in ks:
                    refs.append((th[0] + kk * period - bval) / am)
        if self.tag_active("solve_trig_atan2_quadrant") and atan2_table_risk(fn, al, be, ga, a):
            self.skip("known:solve_trig_atan2_quadrant")
            return
        try:
            res = self.call("solve", expr, dom)
        except engine.DriverTimeout:
            # the unbounded recursion of KF-C30-02 (ImageSet intersected with a domain) can need more than
            # the normal time-out to exhaust the stack of a sanitizer build: this class is re-run once with
            # a long budget so that the crash, not the watchdog, decides
            if dom[0] == "universal":
                raise
            res = self.call("solve", expr, dom, timeout=150)
        if self.declined(res):
            return
        got = B(res)
        self.count()
        self.cls("trig:" + fn)
        self.cls("dom:" + dom[0])

        def f(x):
            return on.Evaluator({"x": x}).value(expr)
        try:
            sem = sv.SetSem(dps=DPS)
            cands = sem.candidates(got)
            for v, elem in cands:
                if sem.member(v, got) != T:
                    continue
                try:
                    val = f(v)
                except Unjudgeable as u:
                    if u.reason.startswith(("pole", "non_finite")):
                        raise Violation("%s: returned member %s = %s is a pole of the equation" % (desc, elem, mp.nstr(v, 25)),
                                        {"case": case, "result": got})
                    raise
                scale = abs(on.frac_to_mp(al)) + abs(on.frac_to_mp(be)) + abs(on.frac_to_mp(ga)) + 1
                # sin/cos grow like exp(|Im|) for complex solutions
                scale = scale * mp.exp(abs(am * (v.imag if isinstance(v, mpc) else 0)))
                if abs(val) > mpf(10) ** -40 * scale:
                    raise Violation("%s: returned member %s = %s does not satisfy the equation (residual %s)"
                                    % (desc, elem, mp.nstr(v, 25), mp.nstr(val, 8)), {"case": case, "result": got, "element": elem})
                if dom_member(dom, v) == F:
                    raise Violation("%s: returned member %s = %s lies outside the requested domain" % (desc, elem, mp.nstr(v, 25)),
                                    {"case": case, "result": got})
            for x in refs:
                dm = dom_member(dom, x)
                if dm != T:
                    continue
                m = sem.member(x, got)
                if m == A:
                    self.skip("ambiguous:cluster")
                elif m == F:
                    raise Violation("%s: the solution %s is not a member of the returned %s" % (desc, mp.nstr(x, 25), str(got)[:1500]),
                                    {"case": case, "result": got})
        except Declined as d:
            self.skip("declined:" + d.why)
            return
        except Unjudgeable as u:
            self.skip("unjudgeable:" + u.reason.split(":")[0])
            return
        self.nontriv(("trig", engine.sx(expr), dom))
        self.cls("nontrivial")
        self.cls("trig:judged")
        self.sample({"call": desc, "result": got if len(str(got)) < 500 else str(got)[:500] + "..."})

    def trig_reference(self, fn, al, be, ga):
        """solutions in theta: list of [theta0, (period, ks)...]; None when there is none / degenerate"""
        alm, bem, gam = on.frac_to_mp(al), on.frac_to_mp(be), on.frac_to_mp(ga)
        two_pi = 2 * mp.pi
        ks = (-1, 0, 2)
        if fn in ("sincos", "sin", "cos"):
            if fn == "cos":
                alm, bem = mpf(0), alm
            Rr = mp.sqrt(alm * alm + bem * bem)
            phi = mp.atan2(bem, alm)
            z = -gam / Rr
            w = mp.asin(z)          # complex when |z| > 1
            return [[-phi + w, (two_pi, ks)], [-phi + mp.pi - w, (two_pi, ks)]]
        if ga == 0 and fn in ("sec", "csc"):
            return []          # alpha * sec(theta) = 0 has no solution
        t = -gam / alm
        if fn == "tan":
            return [[mp.atan(t), (mp.pi, ks)]]
        if fn == "cot":
            if t == 0:
                return [[mp.pi / 2, (mp.pi, ks)]]
            return [[mp.atan(1 / t), (mp.pi, ks)]]
        if fn == "sec":
            w = mp.acos(1 / t)
            return [[w, (two_pi, ks)], [-w, (two_pi, ks)]]
        if fn == "csc":
            w = mp.asin(1 / t)
            return [[w, (two_pi, ks)], [mp.pi - w, (two_pi, ks)]]
        return None

    # ---- (d) linsolve
    def judge_linsolve(self, case):
        n = case["n"]
        L = [[Fraction(case["L"][i][j]) if j < i else Fraction(1 if i == j else 0) for j in range(n)] for i in range(n)]
        U = [[(fr(case["diag"][i]) if i == j else fr(case["U"][i][j]) if j > i else Fraction(0)) for j in range(n)] for i in range(n)]
        LU = [[sum(L[i][k] * U[k][j] for k in range(n)) for j in range(n)] for i in range(n)]
        perm = case["perm"]
        Amat = [LU[perm[i]] for i in range(n)]
        xs = [fr(q) for q in case["x"]]
        bvec = [sum(Amat[i][j] * xs[j] for j in range(n)) for i in range(n)]
        names = ["x%d" % i for i in range(n)]
        syms = [["symbol", nm] for nm in names]
        eqs = []
        for i in range(n):
            terms = [(["mul", rat(Amat[i][j]), syms[j]] if Amat[i][j] != 1 else syms[j]) for j in range(n) if Amat[i][j] != 0]
            lhs = terms[0] if len(terms) == 1 else ["add_vec", ["list"] + terms]
            ef = case["eqform"][i]
            if ef == 0:
                eqs.append(["sub", lhs, rat(bvec[i])])
            elif ef == 1:
                eqs.append(["Eq", lhs, rat(bvec[i])])
            else:
                # move the first term to the right-hand side
                rest = terms[1:]
                l2 = ["integer", 0] if not rest else rest[0] if len(rest) == 1 else ["add_vec", ["list"] + rest]
                eqs.append(["Eq", l2, ["sub", rat(bvec[i]), terms[0]]])
        order = case["symperm"]
        res = self.run([["linsolve", ["list"] + eqs, ["list"] + [syms[j] for j in order]]])[0]
        desc = "linsolve(%s, [%s])" % (engine.sx(["list"] + eqs), " ".join(names[j] for j in order))
        if self.declined(res):
            return
        self.count()
        self.cls("linsolve:n%d" % n)
        if not isinstance(res, list) or len(res) != n:
            raise Violation("%s: expected %d values, got %s" % (desc, n, res), {"case": case})
        sol = {}
        for j, r in zip(order, res):
            d = B(r)
            q = None
            if d[0] == "Integer":
                q = Fraction(int(d[1]))
            elif d[0] == "Rational":
                q = Fraction(int(d[1]), int(d[2]))
            if q is None:
                raise Violation("%s: a uniquely solvable rational system has the non-rational component %s" % (desc, d),
                                {"case": case, "result": res})
            sol[j] = q
        for i in range(n):
            lhs = sum(Amat[i][j] * sol[j] for j in range(n))
            if lhs != bvec[i]:
                raise Violation("%s: returned %s does not satisfy equation %d (lhs %s, rhs %s); the solution is %s"
                                % (desc, [str(sol[j]) for j in range(n)], i, lhs, bvec[i], [str(v) for v in xs]),
                                {"case": case, "result": res})
        # the DenseMatrix overload on the augmented matrix [A | b], and the extraction of (A, b) from the equations
        aug = ["list"] + [["list"] + [rat(v) for v in Amat[i]] + [rat(bvec[i])] for i in range(n)]
        r2 = self.run([["linsolve_aug", aug, ["list"] + syms], ["linear_eqns_to_matrix", ["list"] + eqs, ["list"] + [syms[j] for j in order]]])
        if not is_exc(r2[0]):
            self.cls("linsolve:matrix_form")
            got2 = [lit(B(v)) for v in r2[0]]
            if got2 != xs:
                raise Violation("linsolve(DenseMatrix %s) returned %s, the solution is %s" % (engine.sx(aug), [str(v) for v in got2], [str(v) for v in xs]),
                                {"case": case, "result": r2[0]})
        if not is_exc(r2[1]):
            self.cls("linsolve:eqns_to_matrix")
            A2 = [[lit(B(v)) for v in row] for row in r2[1][0]]
            b2 = [lit(B(v)) for v in r2[1][1]]
            for i in range(n):
                if any(v is None for v in A2[i]) or b2[i] is None or sum(A2[i][k] * xs[order[k]] for k in range(n)) != b2[i]:
                    raise Violation("linear_eqns_to_matrix(%s): row %d of (A, b) = (%s, %s) is not satisfied by the solution %s of the equations"
                                    % (desc, i, [str(v) for v in A2[i]], b2[i], [str(xs[j]) for j in order]), {"case": case, "result": r2[1]})
        if n >= 3 or perm != sorted(perm):
            self.nontriv(("linsolve", [[str(v) for v in row] for row in Amat], [str(v) for v in bvec], case["eqform"], order))
            self.cls("nontrivial")
        self.sample({"call": desc[:600], "result": [str(sol[j]) for j in range(n)]})


def atan2_table_risk(fn, al, be, ga, a=Fraction(1)):
    """KF-C30-03: solve_trig turns each root y = exp(i*theta) of the polynomial in y into atan2(Im y, Re y);
    SymEngine's atan2 ignores the quadrant when its arguments are not both Numbers and Im/Re hits the exact
    tangent table (multiples of pi/12, pi/10, pi/8, pi/5 ...).  True when some root has Re y < 0, is not a
    real number, and arg(y) is a rational multiple of pi with denominator dividing 120 (y = exp(i x) is an
    a-th root of exp(i theta) when the argument is a*x)."""
    with mp.workdps(60):
        alm, bem, gam = on.frac_to_mp(al), on.frac_to_mp(be), on.frac_to_mp(ga)
        ys = []
        if fn in ("sincos", "sin", "cos"):
            if fn == "cos":
                alm, bem = mpf(0), alm
            # alpha (y - 1/y)/(2i) + beta (y + 1/y)/2 + gamma = 0
            A2 = alm / mpc(0, 2) + bem / 2
            C2 = -alm / mpc(0, 2) + bem / 2
            ys = mp.polyroots([A2, gam, C2], maxsteps=200, extraprec=200)
        elif fn in ("sec", "csc", "tan", "cot"):
            if fn == "tan":
                # alpha (y - 1/y)/(i (y + 1/y)) + gamma = 0 -> alpha (y^2 - 1) + i gamma (y^2 + 1) = 0
                ys = mp.polyroots([alm + mpc(0, 1) * gam, 0, -alm + mpc(0, 1) * gam], maxsteps=200, extraprec=200)
            elif fn == "cot":
                ys = mp.polyroots([mpc(0, 1) * alm + gam, 0, mpc(0, 1) * alm - gam], maxsteps=200, extraprec=200)
            elif fn == "sec":
                ys = mp.polyroots([gam, 2 * alm, gam], maxsteps=200, extraprec=200) if gam != 0 else []
            else:
                ys = mp.polyroots([gam, 2 * mpc(0, 1) * alm, -gam], maxsteps=200, extraprec=200) if gam != 0 else []
        if a.denominator != 1:
            return False
        ai = abs(a.numerator)
        for Y in ys:
            Y = mpc(Y)
            if Y == 0:
                continue
            for k in range(ai):
                y = mp.exp((mp.log(Y) + 2 * mp.pi * mpc(0, 1) * k) / ai)
                if y.real >= 0 or abs(y.real) < mpf(10) ** -30 or abs(y.imag) < mpf(10) ** -30 * abs(y.real):
                    continue
                u = mp.atan(y.imag / y.real) * 120 / mp.pi
                if abs(u - mp.nint(u)) < mpf(10) ** -30:
                    return True
    return False


if __name__ == "__main__":
    sys.exit(engine.main(C30))
