"""C42 C API and Expression wrapper agree with the core API.

A case is a program: a list of steps [fn, [ints], string, double].  Every step is
one call of a cwrapper.h function (or a small fixed composite such as
get_mpz+set_mpz, or one Expression operator) executed by drv/ops_capi.cpp on
genuine C handles.  The integers are operand references (resolved by the driver
modulo the number of live handles of the sort the function requires: any sub-list
of a program is a valid program) and scalar arguments.

Oracle (per step): the driver computes the corresponding C++ API result from
copies of the inputs, then calls the C function inside catch(...):
  * an exception leaving an extern "C" function              -> violation
  * C++ result exists: code must be 0 and the C observation must equal it
  * C++ throws: the code must be non-zero and every output handle must still be
    printable (basic_str == __str__) and is freed at the end of the program
Containers are additionally checked against Python list/set/dict models.
"""
import json
import os
import sys

sys.path.insert(0, os.path.join(os.path.dirname(os.path.abspath(__file__)), ".."))
from hypothesis import strategies as st
from pbt import engine
from pbt.engine import Check, Violation, R, is_exc

# ------------------------------------------------------------------ function table
CONSTS = ["basic_const_zero", "basic_const_one", "basic_const_minus_one", "basic_const_I", "basic_const_pi",
          "basic_const_E", "basic_const_EulerGamma", "basic_const_Catalan", "basic_const_GoldenRatio",
          "basic_const_infinity", "basic_const_neginfinity", "basic_const_complex_infinity", "basic_const_nan",
          "bool_set_true", "bool_set_false", "basic_set_emptyset", "basic_set_universalset", "basic_set_complexes",
          "basic_set_reals", "basic_set_rationals", "basic_set_integers"]
NUMSET = ["integer_set_si", "integer_set_ui", "rational_set_si", "rational_set_ui", "complex_set_mpq",
          "ntheory_fibonacci", "ntheory_fibonacci2", "ntheory_lucas", "ntheory_lucas2", "ntheory_factorial",
          "ntheory_binomial"]
NUMOPS = ["rational_set", "complex_set", "complex_set_rat", "integer_mpz", "rational_mpq", "integer_get_si",
          "integer_get_ui", "real_double_get_d", "complex_double_get", "complex_base_real_part",
          "complex_base_imaginary_part", "number_is_zero", "number_is_negative", "number_is_positive",
          "number_is_complex", "ntheory_gcd", "ntheory_lcm", "ntheory_gcd_ext", "ntheory_nextprime", "ntheory_mod",
          "ntheory_quotient", "ntheory_quotient_mod", "ntheory_mod_f", "ntheory_quotient_f",
          "ntheory_quotient_mod_f", "ntheory_mod_inverse"]
ARITH = ["basic_add", "basic_sub", "basic_mul", "basic_div", "basic_pow", "basic_diff", "basic_eq", "basic_assign",
         "basic_neg", "basic_expand", "basic_subs2", "basic_coeff", "basic_evalf", "basic_as_numer_denom",
         "basic_add_as_two_terms", "basic_mul_as_two_terms", "basic_free_heap", "basic_stack"]
FUN1 = ["basic_abs", "basic_erf", "basic_erfc", "basic_sin", "basic_cos", "basic_tan", "basic_csc", "basic_sec",
        "basic_cot", "basic_asin", "basic_acos", "basic_asec", "basic_acsc", "basic_atan", "basic_acot", "basic_sinh",
        "basic_cosh", "basic_tanh", "basic_csch", "basic_sech", "basic_coth", "basic_asinh", "basic_acosh",
        "basic_asech", "basic_acsch", "basic_atanh", "basic_acoth", "basic_lambertw", "basic_zeta",
        "basic_dirichlet_eta", "basic_gamma", "basic_loggamma", "basic_sqrt", "basic_cbrt", "basic_exp", "basic_log",
        "basic_floor", "basic_ceiling", "basic_sign"]
FUN2 = ["basic_atan2", "basic_kronecker_delta", "basic_lowergamma", "basic_uppergamma", "basic_beta",
        "basic_polygamma"]
QUERY = ["is_a_Number", "is_a_Integer", "is_a_Rational", "is_a_Symbol", "is_a_Complex", "is_a_RealDouble",
         "is_a_ComplexDouble", "is_a_RealMPFR", "is_a_ComplexMPC", "is_a_Set", "basic_get_type", "basic_hash",
         "basic_has_symbol", "function_symbol_get_name"]
PRINT = ["basic_str", "basic_str_julia", "basic_str_mathml", "basic_str_latex", "basic_str_ccode",
         "basic_str_cudacode", "basic_str_metalcode", "basic_str_jscode", "basic_str_settings", "basic_dumps_loads"]
SETS = ["basic_set_interval", "basic_set_union", "basic_set_intersection", "basic_set_complement",
        "basic_set_contains", "basic_set_is_subset", "basic_set_is_proper_subset", "basic_set_is_superset",
        "basic_set_is_proper_superset", "basic_set_inf", "basic_set_sup", "basic_set_boundary", "basic_set_interior",
        "basic_set_closure", "basic_set_finiteset"]
VEC = ["vecbasic_new", "vecbasic_push_back", "vecbasic_push_back", "vecbasic_push_back", "vecbasic_get",
       "vecbasic_set", "vecbasic_erase", "vecbasic_size", "basic_get_args", "basic_max", "basic_min",
       "basic_add_vec", "basic_mul_vec", "vecbasic_linsolve", "basic_cse", "lambda_real_double_visitor"]
SETC = ["setbasic_new", "setbasic_insert", "setbasic_insert", "setbasic_insert", "setbasic_find", "setbasic_erase",
        "setbasic_get", "setbasic_size", "basic_free_symbols", "basic_function_symbols", "basic_solve_poly"]
MAPC = ["mapbasicbasic_new", "mapbasicbasic_insert", "mapbasicbasic_insert", "mapbasicbasic_insert",
        "mapbasicbasic_get", "mapbasicbasic_size", "basic_subs"]
VINT = ["vectorint_new", "vectorint_push_back", "vectorint_push_back", "vectorint_get", "vectorint_placement"]
DENSE = ["dense_matrix_new_vec", "dense_matrix_fill", "dense_matrix_fill", "dense_matrix_set", "dense_matrix_str",
         "dense_matrix_get_basic", "dense_matrix_set_basic", "dense_matrix_shape", "dense_matrix_det",
         "dense_matrix_inv", "dense_matrix_transpose", "dense_matrix_FFLU", "dense_matrix_add_matrix",
         "dense_matrix_mul_matrix", "dense_matrix_LU_solve", "dense_matrix_add_scalar", "dense_matrix_mul_scalar",
         "dense_matrix_submatrix", "dense_matrix_row_join", "dense_matrix_col_join", "dense_matrix_row_del",
         "dense_matrix_col_del", "dense_matrix_LU", "dense_matrix_LDL", "dense_matrix_FFLDU", "dense_matrix_ones",
         "dense_matrix_zeros", "dense_matrix_eye", "dense_matrix_diag", "dense_matrix_diff", "dense_matrix_jacobian",
         "dense_matrix_eq"]
SPARSE = ["sparse_matrix_new", "sparse_matrix_set_basic", "sparse_matrix_set_basic", "sparse_matrix_get_basic",
          "sparse_matrix_str", "sparse_matrix_eq"]
EXPR = ["Expression_add", "Expression_sub", "Expression_mul", "Expression_div", "Expression_pow", "Expression_unary",
        "Expression_eq", "Expression_diff", "Expression_subs", "Expression_to_double"]

ALL_FUNCTIONS = sorted(set(CONSTS + NUMSET + NUMOPS + ARITH + FUN1 + FUN2 + QUERY + PRINT + SETS + VEC + SETC + MAPC
                           + VINT + DENSE + SPARSE + EXPR
                           + ["symbol_set", "basic_const_set", "function_symbol_set", "integer_set_str",
                              "real_double_set_d", "basic_parse", "basic_parse2", "symengine_have_component",
                              "Expression_ctor"]))

# ------------------------------------------------------------------ argument strategies
SPECIAL_INTS = [0, 1, -1, 2, 3, 5, 7, 10, 12, 64, 97, 100, 1000, 10000, 10001, 2 ** 31 - 1, 2 ** 31, 2 ** 32,
                2 ** 63 - 1, -2 ** 63, -2 ** 31, -7, -100]
ref = st.integers(-1, 15)
anyint = st.one_of(ref, ref, st.sampled_from(SPECIAL_INTS), st.integers(-2 ** 63, 2 ** 63 - 1),
                   st.integers(-300, 300))
outref = st.one_of(st.just(-1), st.integers(0, 15))
ints = st.tuples(outref, anyint, anyint, anyint, anyint, anyint, anyint, anyint).map(list)
refs_only = st.tuples(outref, ref, ref, ref, ref, ref, ref, ref).map(list)

NAMES = ["x", "y", "z", "t", "f", "g", "pi", "E", "I", "x1", "", "a b", "x+y", "oo", "nan", "alpha", "1", "_", "lambda"]
NUMERALS = ["0", "1", "-1", "7", "-5", "42", "123456789012345678901234567890", "-98765432109876543210", "+7",
            " 12", "12 ", "12abc", "abc", "", "0x10", "010", "1e5", "1.5", "--3", "9" * 60, "-", "1/2"]
COMPONENTS = ["mpfr", "mpc", "flint", "arb", "ecm", "primesieve", "piranha", "boost", "pthread", "llvm",
              "llvm_long_double", "", "MPFR", "gmp"]
DOUBLES = [0.0, -0.0, 1.0, -1.0, 0.5, 1.5, -2.25, 0.1, 3.141592653589793, 1e308, -1e308, 5e-324, 1e-300,
           float("inf"), float("-inf"), float("nan"), 2.0, 1e16, 123456.789]
dbl = st.one_of(st.sampled_from(DOUBLES), st.floats(allow_nan=True, allow_infinity=True))

ATOMS = ["x", "y", "z", "0", "1", "2", "3", "7", "10", "20", "pi", "E", "I", "1.5", "2.0", "0.5", "1e2", "t"]
FUNS = ["sin", "cos", "tan", "log", "exp", "sqrt", "abs", "gamma", "f", "g", "atan", "erf", "floor", "sign"]


@st.composite
def parse_expr(draw, depth=0, allow_pow=True):
    k = draw(st.integers(0, 9 if depth < 3 else 2))
    if k <= 2:
        return draw(st.sampled_from(ATOMS))
    if k <= 5:
        op = draw(st.sampled_from(["+", "-", "*", "/", " + ", "*"]))
        a = draw(parse_expr(depth + 1, False))
        b = draw(parse_expr(depth + 1, False))
        return a + op + b
    if k == 6:
        return "(" + draw(parse_expr(depth + 1, allow_pow)) + ")"
    if k == 7:
        f = draw(st.sampled_from(FUNS))
        n = 2 if f in ("f", "g") and draw(st.booleans()) else 1
        return f + "(" + ", ".join(draw(parse_expr(depth + 1, False)) for _ in range(n)) + ")"
    if k == 8 and allow_pow and depth == 0:
        base = draw(st.sampled_from(["x", "y", "2", "3", "10", "(x+1)", "(x+y)", "1.5", "I", "(1/2)"]))
        e = draw(st.sampled_from(["2", "3", "4", "0", "-1", "-2", "(1/2)", "x", "0.5", "12"]))
        return base + draw(st.sampled_from(["^", "**"])) + e
    return "-" + draw(parse_expr(depth + 1, False))


@st.composite
def parse_text(draw):
    t = draw(parse_expr())
    m = draw(st.integers(0, 5))
    if m == 0 and t:  # delete one character
        i = draw(st.integers(0, len(t) - 1))
        t = t[:i] + t[i + 1:]
    elif m == 1:  # insert one non-digit, non-power character
        i = draw(st.integers(0, len(t)))
        t = t[:i] + draw(st.sampled_from(list("+-/(),. xe=<"))) + t[i:]
    elif m == 2:  # truncate
        t = t[:draw(st.integers(0, len(t)))]
    return t


name = st.sampled_from(NAMES)
nostr = st.just("")
nodbl = st.just(0.0)


def group(fns, iv=ints, s=nostr, d=nodbl):
    return st.tuples(st.sampled_from(fns), iv, s, d).map(list)


def step_strategy():
    return st.one_of(
        group(CONSTS, refs_only),
        group(NUMSET), group(NUMSET),
        group(NUMOPS, refs_only), group(NUMOPS, refs_only),
        group(ARITH), group(ARITH), group(ARITH),
        group(FUN1, refs_only), group(FUN1, refs_only),
        group(FUN2, refs_only),
        group(QUERY, refs_only),
        group(PRINT),
        group(SETS), group(SETS),
        group(VEC), group(VEC), group(VEC),
        group(SETC), group(SETC),
        group(MAPC), group(MAPC),
        group(VINT),
        group(DENSE), group(DENSE), group(DENSE),
        group(SPARSE),
        group(EXPR), group(EXPR),
        group(["symbol_set", "basic_const_set", "function_symbol_set"], s=name),
        group(["integer_set_str"], s=st.sampled_from(NUMERALS)),
        group(["real_double_set_d"], d=dbl),
        group(["basic_parse", "basic_parse2"], s=parse_text()), group(["basic_parse", "basic_parse2"], s=parse_text()),
        group(["symengine_have_component"], s=st.sampled_from(COMPONENTS)),
        group(["Expression_ctor"], s=parse_text(), d=dbl),
    )


# ---- blocks: short sequences that build something and then use it.  Negative references count
# from the end (-2 = the newest container / handle, -1 = a fresh output), so a block works wherever
# it is placed and every sub-list of it is still a valid program.
blk_int = st.sampled_from([-2, -2, -2, -2, -3, -1, 0, 1, 2, 3, 5])
blk_ints = st.lists(blk_int, min_size=8, max_size=8)
FRESH = [-1] * 8


def cont_block(new_step, fns, lo=3, hi=8):
    body = st.lists(st.tuples(st.sampled_from(fns), blk_ints, nostr, nodbl).map(list), min_size=lo, max_size=hi)
    return st.tuples(new_step, body).map(lambda t: [t[0]] + t[1])


def just_step(fn):
    return st.just([fn, FRESH, "", 0.0])


EQS = ["x+y-3", "x-y-1", "2*x+3*y", "x", "y-2", "x+y", "2*x+2*y-6", "x*y-1", "x+z", "0", "x**2-1", "x/2+y/3-1",
       "a*x+y", "x+1.5*y"]
POLYS = ["x**2-1", "x**2+1", "x**3-x", "x**4-1", "x**5+x+1", "x**2-2*x+1", "2*x-3", "y*x-1", "x**3-2", "0", "1",
         "x**4+x+1", "x**2+x*y+1", "sin(x)", "x**3+x**2+x+1", "x**4-5*x**2+4", "1/x", "x**6-1"]
LAMBDAS = ["x+y", "sin(x)*y", "x/y", "z+1", "x**y", "I*x", "f(x)", "exp(x)-2", "sqrt(x)+abs(y)", "x**2+2*x*y",
           "gamma(x)", "floor(x)+y", "sin(x+y)+cos(x+y)", "(x+y)**2+(x+y)", "log(x)/y", "x>y", "pi*x", "1/(x-y)"]


@st.composite
def linsolve_block(draw):
    steps = [["vecbasic_new", FRESH, "", 0.0]]
    for e in draw(st.lists(st.sampled_from(EQS), min_size=1, max_size=3)):
        steps.append(["basic_parse", FRESH, e, 0.0])
        steps.append(["vecbasic_push_back", [-2, -2, 0, 0, 0, 0, 0, 0], "", 0.0])
    steps.append(["vecbasic_linsolve", [-2] + draw(st.lists(st.integers(0, 6), min_size=7, max_size=7)), "", 0.0])
    steps.append([draw(st.sampled_from(["vecbasic_get", "basic_add_vec", "basic_max", "vecbasic_size"])),
                  draw(blk_ints), "", 0.0])
    return steps


@st.composite
def poly_block(draw):
    return [["basic_parse", FRESH, draw(st.sampled_from(POLYS)), 0.0],
            ["basic_solve_poly", [-2, draw(st.integers(0, 3)), draw(st.sampled_from([-1, -2])), 0, 0, 0, 0, 0], "", 0.0],
            [draw(st.sampled_from(["setbasic_get", "setbasic_size", "basic_set_finiteset", "setbasic_erase"])),
             draw(blk_ints), "", 0.0]]


@st.composite
def exprvec_block(draw):
    """two vectors (symbols, expressions) then lambda / cse / function_symbol / dense_matrix_new_vec on them"""
    steps = [["vecbasic_new", FRESH, "", 0.0]]
    for nm in draw(st.sampled_from([["x", "y"], ["x"], ["x", "y", "z"], ["y", "x"], []])):
        steps.append(["symbol_set", FRESH, nm, 0.0])
        steps.append(["vecbasic_push_back", [-2, -2, 0, 0, 0, 0, 0, 0], "", 0.0])
    steps.append(["vecbasic_new", FRESH, "", 0.0])
    for e in draw(st.lists(st.sampled_from(LAMBDAS), min_size=1, max_size=4)):
        steps.append(["basic_parse", FRESH, e, 0.0])
        steps.append(["vecbasic_push_back", [-2, -2, 0, 0, 0, 0, 0, 0], "", 0.0])
    for _ in range(draw(st.integers(1, 3))):
        fn = draw(st.sampled_from(["lambda_real_double_visitor", "lambda_real_double_visitor", "basic_cse",
                                   "function_symbol_set", "dense_matrix_new_vec", "dense_matrix_diag",
                                   "basic_mul_vec", "basic_min"]))
        iv = {"lambda_real_double_visitor": [-3, -2], "basic_cse": [-2], "function_symbol_set": [-1, -2],
              "dense_matrix_new_vec": [-2], "dense_matrix_diag": [-1, -2], "basic_mul_vec": [-1, -2],
              "basic_min": [-1, -2]}[fn]
        steps.append([fn, iv + draw(st.lists(st.integers(0, 7), min_size=6, max_size=6)), "h", 0.0])
    return steps


def matrix_block():
    fill = st.tuples(st.just("dense_matrix_fill"), ints, nostr, nodbl).map(list)
    return st.tuples(fill, fill, st.lists(st.tuples(st.sampled_from(DENSE), blk_ints, nostr, nodbl).map(list),
                                          min_size=3, max_size=8)).map(lambda t: [t[0], t[1]] + t[2])


def block_strategy():
    single = step_strategy().map(lambda s: [s])
    return st.one_of(
        single, single, single, single, single, single, single, single,
        cont_block(just_step("vecbasic_new"), VEC[:8] + ["vecbasic_get", "vecbasic_set", "vecbasic_erase"]),
        cont_block(just_step("setbasic_new"), SETC[:8] + ["basic_free_symbols", "basic_set_finiteset"]),
        cont_block(just_step("mapbasicbasic_new"), MAPC),
        cont_block(just_step("vectorint_new"), VINT[1:4]),
        cont_block(st.tuples(st.just("sparse_matrix_new"), ints, nostr, nodbl).map(list), SPARSE),
        matrix_block(), matrix_block(),
        linsolve_block(), poly_block(), exprvec_block(),
    )


PRELUDE = [
    ["symbol_set", [-1], "x", 0.0],
    ["symbol_set", [-1], "y", 0.0],
    ["integer_set_si", [-1, 0], "", 0.0],
    ["integer_set_si", [-1, 2], "", 0.0],
    ["integer_set_si", [-1, -3], "", 0.0],
    ["rational_set_si", [-1, 1, 2], "", 0.0],
    ["basic_const_I", [-1], "", 0.0],
    ["real_double_set_d", [-1], "", 1.5],
    ["basic_parse", [-1], "x**2 + 2*x*y + f(x)", 0.0],
    ["basic_set_interval", [-1, 0, 1, 0], "", 0.0],
    ["basic_mul", [-1, 7, 6], "", 0.0],
    # one container of every kind
    ["vecbasic_push_back", [-1, 0], "", 0.0],
    ["vecbasic_push_back", [-2, 3], "", 0.0],
    ["function_symbol_set", [-1, -2], "g", 0.0],
    ["setbasic_insert", [-1, 1], "", 0.0],
    ["mapbasicbasic_insert", [-1, 0, 3], "", 0.0],
    ["dense_matrix_fill", [1, 1, 1, 0, 1, 3, 8], "", 0.0],
    ["sparse_matrix_new", [2, 2, 1], "", 0.0],
    ["vectorint_new", FRESH, "", 0.0],
    ["vectorint_push_back", [-2, 7], "", 0.0],
]
NPRELUDE = len(PRELUDE)


# ------------------------------------------------------------------ canonical comparison
def canon(d):
    """raw dump -> comparable form: Add/Mul term lists are unordered_map iterations, sort them;
    the sign of a NaN is not an observable"""
    if isinstance(d, list):
        if d and d[0] in ("Add", "Mul") and len(d) == 3 and isinstance(d[2], list):
            return [d[0], canon(d[1]), sorted((canon(p) for p in d[2]), key=lambda p: json.dumps(p, sort_keys=True))]
        if d and d[0] in ("RealDouble", "ComplexDouble"):
            return [d[0]] + ["nan" if x == "-nan" else x for x in d[1:]]
        return [canon(x) for x in d]
    if isinstance(d, dict):
        if "f" in d and len(d) == 1:
            return {"f": "nan" if d["f"] == "-nan" else d["f"]}
        return {k: canon(v) for k, v in d.items()}
    return d


def key(v):
    return json.dumps(canon(v), sort_keys=True)


def has_nan(d):
    if isinstance(d, list):
        if d and d[0] in ("RealDouble", "ComplexDouble") and any(x in ("nan", "-nan") for x in d[1:]):
            return True
        return any(has_nan(x) for x in d)
    if isinstance(d, dict):
        return any(has_nan(v) for v in d.values())
    return False


def is_cpp_exc(v):
    return isinstance(v, dict) and "exc" in v and "ecode" in v


# tags (= "matcher" names of the C42 entries of known_findings.json) the driver knows how to
# exclude by construction; see Step::known() / Step::tag() in drv/ops_capi.cpp and drv/capi_*.inc
KNOWN_TAGS = [
    "universalset",                      # basic_set_universalset assigns the empty set
    "ntheory_zero_divisor",              # ntheory_mod/quotient/... with divisor 0: SIGFPE
    "rational_set_zero_den",             # rational_set_si/ui(s, a, 0): SIGFPE
    "lambda_visitor_init_throws",        # lambda_real_double_visitor_init lets exceptions out of extern "C"
    "ffldu_non_square",                  # dense_matrix_FFLDU on a non-square / 0x0 matrix: out-of-bounds
    "det_empty_matrix",                  # dense_matrix_det of a 0x0 matrix: out-of-bounds read
    "parser_boolean_operator_downcast",  # basic_parse2(.., convert_xor<=0) with ^ | & ~ on non-booleans
    # ("gamma_half_integer_int_overflow", int overflow in gamma_multiple_2 from gamma(23/2) on, is
    #  fixed in the library (34b184b): regression replay replays/fixed/C42-gamma-...json; the driver
    #  still understands the tag but nothing activates it)
]

MUTATORS = {"vecbasic_push_back", "vecbasic_set", "vecbasic_erase", "basic_get_args", "setbasic_insert",
            "setbasic_erase", "basic_free_symbols", "basic_function_symbols", "basic_solve_poly",
            "mapbasicbasic_insert", "vectorint_push_back"}


class C42(Check):
    pid = "C42"
    exe = "driver_capi"
    builds = [("main", ("driver_capi",))]
    rule = ("Hypothesis programs (2-14 blocks, at most 40 steps, after a fixed 20-step prelude that is judged but not "
            "counted) of C API calls / Expression operators on live C handles; a block is a single random call or a "
            "short build-then-use sequence (container history, matrix algebra, linsolve, solve_poly, lambda/cse); "
            "operand references are resolved modulo the live handles of the required "
            "sort, output handles may alias inputs or be fresh; arguments deliberately include parse errors, "
            "non-integers where integers are required, non-symbols for diff, singular/mismatching matrices, empty "
            "vectors, unsupported evalf precisions, truncated serialisations. Non-trivial = a step that ends in a "
            "non-zero error code (distinct by function+arguments) or a container whose model-checked history has "
            ">= 3 mutations (distinct by history).")
    assumptions = [
        "the raw dump (drv/dump.cpp) is a faithful observation; Add/Mul term order is not an observable",
        "sort/shape/index preconditions stated by SYMENGINE_ASSERT in cwrapper.cpp and in the matrix classes are "
        "preconditions of the C functions (arguments are generated inside them); all other values are arbitrary",
        "the C++ counterpart named in each binding of drv/capi_*.inc is the 'corresponding C++ API call'",
        "a step whose C++ side trips a SYMENGINE_ASSERT is not judged (reported by C03)",
        "container keys containing a NaN double are not model-checked (no strict weak order)",
    ]
    tiers = {"quick": {"examples": 4000, "shrink_calls": 400}, "thorough": {"examples": 120000, "shrink_calls": 800}}
    timeout = 60.0
    case_timeout = 25

    def strategy(self, tier):
        blocks = st.lists(block_strategy(), min_size=3, max_size=16)
        return st.fixed_dictionaries({"steps": blocks.map(lambda bs: [s for b in bs for s in b][:40])})

    def enumerate(self, tier):
        # every bound function at least once, on the prelude environment
        for i in range(0, len(ALL_FUNCTIONS), 6):
            steps = []
            for fn in ALL_FUNCTIONS[i:i + 6]:
                s = {"basic_parse": "x+1", "basic_parse2": "x^2", "integer_set_str": "12", "symbol_set": "w",
                     "basic_const_set": "c", "function_symbol_set": "h", "symengine_have_component": "mpfr",
                     "Expression_ctor": "x*y"}.get(fn, "")
                steps.append([fn, [-1, 3, 1, 2, 0, 1, 2, 3], s, 0.5])
                steps.append([fn, [0, 1, 2, 3, 4, 5, 6, 7], s, 2.0])
            yield {"steps": steps}

    # -------------------------------------------------------------- judge
    def judge(self, case):
        # known findings (pbt/GUIDE.md, "Known findings protocol"): the driver excludes a recorded
        # defect by construction iff its tag is active; it answers Decline("known:<tag>"), which
        # judge_step counts as skip("known:<tag>").  With no tag active everything is executed.
        tags = ",".join(t for t in KNOWN_TAGS if self.tag_active(t))
        steps = (PRELUDE if not case.get("noprelude") else []) + [list(s) for s in case["steps"]]
        stmts = [["capi_env", tags]]
        for fn, iv, s, d in steps:
            stmts.append(["capi", R(0), fn, ",".join(str(int(v)) for v in iv), s, float(d)])
        res = self.run(stmts)
        models = {}
        npre = NPRELUDE if not case.get("noprelude") else 0
        for i, ((fn, iv, s, d), r) in enumerate(zip(steps, res[1:])):
            self.judge_step(fn, iv, s, d, r, models, i >= npre)

    def judge_step(self, fn, iv, s, d, r, models, counted=True):
        if not counted:
            # the fixed prelude is judged like every other step but not counted as coverage
            saved = (self.evals, dict(self.classes), dict(self.skipped))
            try:
                self.judge_step(fn, iv, s, d, r, models, True)
            finally:
                self.evals, self.classes, self.skipped = saved
            return
        if is_exc(r):
            what = r.get("what", "")
            if r["exc"] == "Decline":
                tag = what.split(":")[0] if not what.startswith("known:") else what.split(" ")[0]
                self.skip(tag[:40])
            elif r["exc"] == "VerifAssertFailure":
                self.skip("assert_seen")
            elif r["exc"] == "Dep":
                self.skip("dep")
            else:
                raise RuntimeError("binding of %s raised outside the call protocol: %r" % (fn, r))
            return
        self.count()
        self.cls(fn)
        desc = "%s(%s, %r, %r)" % (fn, iv, s, d)
        if "escaped" in r:
            raise Violation("C++ exception escaped from extern \"C\" %s: %s" % (fn, r["escaped"]),
                            {"step": [fn, iv, s, d], "obs": r})
        cpp = r.get("cpp")
        code = r.get("code", 0)
        if r.get("assert"):
            self.skip("assert_seen")
            self.drop_model(r, models)
            return
        if is_cpp_exc(cpp):
            if code == 0:
                raise Violation("%s returned SYMENGINE_NO_EXCEPTION but the C++ API throws %s (%s)"
                                % (desc, cpp["exc"], cpp.get("what", "")), {"obs": r})
            if r.get("post"):
                raise Violation("after error code %d of %s an output handle is no longer valid: %s"
                                % (code, desc, r["post"]), {"obs": r})
            if code != cpp["ecode"]:
                self.cls("~code_differs_from_exception_class")
            self.cls("~error_code")
            self.nontriv(("err", fn, code, iv, s, d))
            if self.rng.random() < 0.02:
                self.sample({"step": [fn, iv, s, d], "code": code, "cpp": cpp["exc"]})
            self.drop_model(r, models)
            return
        if code != 0:
            raise Violation("%s returned error code %d but the C++ API succeeds" % (desc, code), {"obs": r})
        if "c" not in r:
            raise RuntimeError("no observation for %s: %r" % (fn, r))
        if key(r["c"]) != key(cpp):
            who = ("Expression wrapper", "core function") if r.get("expr") else ("C", "C++ API")
            raise Violation("%s: %s result differs from the %s result\n %s: %s\n %s: %s"
                            % (desc, who[0], who[1], who[0], json.dumps(r["c"])[:1500], who[1],
                               json.dumps(cpp)[:1500]), {"obs": r})
        # (the serialised bytes embed object addresses as cereal ids, so basic_dumps and
        # Basic::dumps need not agree byte for byte; the loads round trip above is the observable)
        if "kind" in r and r["kind"] in ("vec", "set", "map", "vi"):
            self.model_step(fn, r, models, desc)

    # -------------------------------------------------------------- container models
    def drop_model(self, r, models):
        if "id" in r:
            models.pop((r.get("kind"), r["id"]), None)

    def model_step(self, fn, r, models, desc):
        kind, cid = r["kind"], r["id"]
        mk = (kind, cid)
        if mk not in models:
            if r.get("new") or fn.endswith("_new"):
                models[mk] = {"data": {"vec": [], "set": set(), "map": {}, "vi": []}[kind], "hist": [], "taint": False}
            else:
                # container created by an unjudged step (e.g. declined half-way): adopt the read-out
                return
        m = models[mk]

        def bad(msg):
            raise Violation("%s: %s container %d does not behave like the Python model: %s\n model: %s\n read-out: %s"
                            % (desc, kind, cid, msg, str(m["data"])[:800], json.dumps(r.get("ro"))[:800]),
                            {"obs": r, "history": m["hist"]})

        if kind == "vi":
            if fn == "vectorint_push_back":
                m["data"].append(r["val"])
            elif fn == "vectorint_get":
                if r["c"] != m["data"][r["n"]]:
                    bad("get(%d)" % r["n"])
        elif kind == "vec":
            data = m["data"]
            if fn == "vecbasic_push_back":
                data.append(key(r["val"]))
            elif fn == "vecbasic_set":
                data[r["n"]] = key(r["val"])
            elif fn == "vecbasic_erase":
                del data[r["n"]]
            elif fn == "vecbasic_get":
                if key(r["c"][0]) != data[r["n"]]:
                    bad("get(%d)" % r["n"])
            elif fn == "vecbasic_size":
                if r["c"] != len(data):
                    bad("size")
            elif fn == "basic_get_args":
                m["data"] = data = [key(x) for x in r["cpp"]]
            elif fn in ("vecbasic_linsolve",):
                m["data"] = data = [key(x) for x in r["cpp"]]
            elif fn == "basic_cse":
                m["data"] = data = [key(x) for x in r["cpp"][2]]
            if [key(x) for x in r["ro"]] != data:
                bad("content")
        elif kind == "set":
            data = m["data"]
            v = key(r["val"]) if "val" in r else None
            if "val" in r and has_nan(r["val"]):
                m["taint"] = True
            if m["taint"]:
                self.skip("tainted_nan_key")
                return
            if fn == "setbasic_insert":
                if r["ret"] != (0 if v in data else 1):
                    bad("insert returned %d" % r["ret"])
                data.add(v)
            elif fn == "setbasic_erase":
                if r["ret"] != (1 if v in data else 0):
                    bad("erase returned %d" % r["ret"])
                data.discard(v)
            elif fn == "setbasic_find":
                if r["ret"] != (1 if v in data else 0):
                    bad("find returned %d" % r["ret"])
            elif fn == "setbasic_get":
                if key(r["c"][0]) not in data:
                    bad("get(%d) returned a non-member" % r["n"])
            elif fn == "setbasic_size":
                if r["c"] != len(data):
                    bad("size")
            elif fn in ("basic_free_symbols", "basic_function_symbols", "basic_solve_poly"):
                m["data"] = data = set(key(x) for x in r["cpp"])
            ro = [key(x) for x in r["ro"]]
            if len(set(ro)) != len(ro) or set(ro) != data:
                bad("content")
        elif kind == "map":
            data = m["data"]
            k = key(r["key"]) if "key" in r else None
            if "key" in r and has_nan(r["key"]):
                m["taint"] = True
            if m["taint"]:
                self.skip("tainted_nan_key")
                return
            if fn == "mapbasicbasic_insert":
                data[k] = key(r["val"])  # std::map operator[] semantics: overwrite
            elif fn == "mapbasicbasic_get":
                if r["ret"] != (1 if k in data else 0):
                    bad("get returned %d" % r["ret"])
                if k in data and key(r["c"][1]) != data[k]:
                    bad("get returned another value")
            elif fn == "mapbasicbasic_size":
                if r["c"] != len(data):
                    bad("size")
            ro = r["ro"]
            if ro["size"] != len(data):
                bad("size %d" % ro["size"])
            for pk, found, pv in ro["probes"]:
                kk = key(pk)
                if found != (1 if kk in data else 0) or (found and key(pv) != data[kk]):
                    bad("probe of %s" % kk[:100])
        if fn in MUTATORS:
            m["hist"].append(fn)
            if len(m["hist"]) >= 3:
                self.cls("~container_history>=3")
                self.nontriv(("hist", kind, tuple(m["hist"]), str(sorted(m["data"]) if kind == "set" else m["data"])[:300]))
                if self.rng.random() < 0.01:
                    self.sample({"container": kind, "history": list(m["hist"])})


if __name__ == "__main__":
    sys.exit(engine.main(C42))
