"""C01 Equal expressions always have equal hashes (and hash containers hold no two equal keys)."""
import os
import sys

sys.path.insert(0, os.path.join(os.path.dirname(os.path.abspath(__file__)), ".."))
from hypothesis import strategies as st
from pbt import engine, gen, pools
from pbt.engine import Check, Violation, R, B, is_exc


class PoolCheck(Check):
    """shared by C01/C02: builds the pool, fetches the relation matrices"""
    timeout = 60.0
    exe = "driver"

    def relations(self, case, containers=True):
        stmts, ci, origin = pools.program(case)
        pool = ["field", R(ci), "v"]
        stmts.append(["let", ["field", R(ci), "kept"]])
        stmts[-1] = ["field", R(ci), "kept"]
        ik = len(stmts) - 1
        stmts.append(["pool_relations", pool])
        ir = len(stmts) - 1
        ic = None
        if containers:
            stmts.append(["pool_containers", pool, case["order"] % 1000003])
            stmts.append(["pool_containers", pool, (case["order"] // 7) % 1000003 + 1])
            ic = len(stmts) - 2
        res = self.run(stmts)
        for k, r in enumerate(res[:ci]):
            if is_exc(r):
                self.skip("assert_seen" if r["exc"] == "VerifAssertFailure" else "declined:" + r["exc"])
        if is_exc(res[ir]):
            self.skip("pool:" + res[ir]["exc"])
            return None
        kept = res[ik]
        org = [origin[k] for k in kept]
        return stmts, res[ir], (res[ic], res[ic + 1]) if containers else None, org, ci

    def describe(self, stmts, ci, idxs):
        """dumps/strs of the pool members idxs (re-runs the program with pool_obs)"""
        st2 = stmts[:ci + 1] + [["pool_obs", ["field", R(ci), "v"]]]
        try:
            obs = self.run(st2)[-1]
            return {str(i): obs[i] for i in idxs}
        except Exception as e:  # describing must never mask the violation
            return {"describe_failed": str(e)}


class C01(PoolCheck):
    pid = "C01"
    rule = ("pools of 20-150 expressions: 6-14 Hypothesis-generated base expressions over every kind the core API builds "
            "(all number kinds incl. +-0.0/nan/inf doubles and integers colliding modulo 2^64, symbols, dummies, constants, "
            "Add/Mul/Pow, all function classes, relationals, logic, Piecewise, sets, Derivative/Subs), each together with "
            "re-constructions of the same value along other API paths (commuted and re-associated operands, flipped sign "
            "of floating zeros, loads(dumps), parse(str), identity subs/xreplace, +0, *1, **1, double negation, +0.0, "
            "expand). For every ordered pair of the pool eq(a,b) => hash(a) == hash(b); inserting the pool into "
            "unordered_set / umap_basic_num (Add dictionary) / std::set / std::map in two different orders gives containers "
            "whose members are pairwise non-eq and which cover the pool. Non-trivial: an eq pair of distinct objects built "
            "along different paths; distinct by (base recipe, variant, variant).")
    assumptions = ["eq() itself is the library's; only its consistency with hash and containers is judged",
                   "members whose construction throws are dropped from the pool"]
    tiers = {"quick": {"examples": 400}, "thorough": {"examples": 40000}}

    def enumerate(self, tier):
        return pools.structured_pools()

    def strategy(self, tier):
        return pools.pool_cases()

    def judge(self, case):
        out = self.relations(case)
        if out is None:
            return
        stmts, rel, conts, org, ci = out
        n = rel["n"]
        eqm, hs, ptr = rel["eq"], rel["hash"], rel["ptr"]
        self.count(n * n)
        if rel["errs"]:
            self.skip("relation_exception", len(rel["errs"]))
        for i in range(n):
            row = eqm[i]
            for j in range(n):
                if row[j] == "1" and i != j:
                    if hs[i] != hs[j]:
                        raise Violation("eq(a,b) is true but hash(a)=%d != hash(b)=%d; a from %s, b from %s"
                                        % (hs[i], hs[j], org[i], org[j]),
                                        {"members": self.describe(stmts, ci, [i, j]), "origin": [org[i], org[j]]})
                    if ptr[i] != ptr[j] and org[i] != org[j]:
                        self.nontriv((case["base"][org[i][0]], org[i][1], org[j][1]))
                        self.cls("eqpair:" + org[i][1] + "/" + org[j][1])
        # container consequences
        for which, c in enumerate(conts):
            if is_exc(c):
                self.skip("containers:" + c["exc"])
                continue
            for name in ("uset", "set", "map"):
                mem = c[name]
                self.check_members(name, mem, eqm, n, stmts, ci, org, hasnan=rel["hasnan"])
            mem = [p[0] for p in c["umap"]]
            self.check_members("umap", mem, eqm, n, stmts, ci, org, numbers_excluded=True, hasnan=rel["hasnan"])
        if not is_exc(conts[0]) and not is_exc(conts[1]):
            for name in ("uset", "set", "map"):
                if any(rel["hasnan"]):
                    continue
                if len(conts[0][name]) != len(conts[1][name]):
                    raise Violation("%s built from the same pool in two insertion orders has sizes %d and %d"
                                    % (name, len(conts[0][name]), len(conts[1][name])),
                                    {"orders": [conts[0][name], conts[1][name]]})
        self.sample({"pool_size": n, "base": [engine.sx(b)[:200] for b in case["base"][:3]],
                     "eq_pairs": sum(r.count("1") for r in eqm) - n})

    def check_members(self, name, mem, eqm, n, stmts, ci, org, numbers_excluded=False, hasnan=None):
        if any(m < 0 for m in mem):
            raise Violation("%s contains an object that is not a pool member" % name, {"members": mem})
        for a in range(len(mem)):
            for b in range(a + 1, len(mem)):
                if eqm[mem[a]][mem[b]] == "1":
                    raise Violation("%s holds two keys that the library considers equal (pool members %d and %d, from %s and %s)"
                                    % (name, mem[a], mem[b], org[mem[a]], org[mem[b]]),
                                    {"members": self.describe(stmts, ci, [mem[a], mem[b]])})
        if not numbers_excluded:
            ms = set(mem)
            for i in range(n):
                if i not in ms and not any(eqm[i][m] == "1" for m in mem):
                    if eqm[i][i] != "1" or hasnan[i]:
                        continue  # an object containing a NaN double is equal to nothing but the same pointer
                    raise Violation("%s lost pool member %d (%s): no equal key present" % (name, i, org[i]),
                                    {"members": self.describe(stmts, ci, [i])})


if __name__ == "__main__":
    sys.exit(engine.main(C01))
