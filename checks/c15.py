"""C15 Generated C code computes the expression's value (ccode at double / float precision, c89code, c99code;
symengine/printers/codegen.cpp, codegen.h, strprinter.cpp)."""
import json
import os
import sys

sys.path.insert(0, os.path.join(os.path.dirname(os.path.abspath(__file__)), ".."))
from hypothesis import strategies as st
from mpmath import mpf
import mpmath
from pbt import engine, gen
from pbt.engine import Check, Violation, B, R, is_exc
from pbt import oracle_num as on
from pbt import evalnum as en
from pbt import cgen
from pbt.cgen import I, Q, L, S
from pbt.oracle_num import Unjudgeable

# ---- node types the C printers accept (symengine/printers/codegen.cpp)
# CodePrinter bvisit overloads, lines 99-384: Dummy Interval Contains Piecewise BooleanAtom Integer And Or Xor Not Rational
#   Abs Ceiling Truncate Max Min Constant NaN Equality Unequality LessThan StrictLessThan Sign UnevaluatedExpr Function
#   RealDouble (throwing: Basic Complex Reals Rationals Integers EmptySet FiniteSet UniversalSet UnivariateSeries
#   Derivative Subs GaloisField); inherited from StrPrinter: Symbol Add Mul Pow (through the virtual _print_pow)
# C89CodePrinter lines 400-425: Infty, _print_pow (exp, 1/x, sqrt, pow); C99CodePrinter lines 432-474: Infty, _print_pow
#   (+ cbrt), Gamma -> tgamma, LogGamma -> lgamma
# RewriteTrigVisitor (visitor.h:364-418): Cot Csc Sec ACot ACsc ASec Coth Csch Sech ACoth ACsch ASech are rewritten
# generic Function path (codegen.cpp:357-365, names from init_str_printer_names()): the name is emitted as it is;
#   the ones that are <math.h> names: sin cos tan asin acos atan atan2 sinh cosh tanh asinh acosh atanh log floor erf erfc
NODES = ["Symbol", "Integer", "Rational", "RealDouble", "Constant", "Add", "Mul", "Pow", "Sin", "Cos", "Tan", "Cot", "Csc",
         "Sec", "ASin", "ACos", "ATan", "ACot", "ACsc", "ASec", "Sinh", "Cosh", "Tanh", "Coth", "Csch", "Sech", "ASinh",
         "ACosh", "ATanh", "ACoth", "ACsch", "ASech", "Log", "ATan2", "Abs", "Sign", "Floor", "Ceiling", "Truncate", "Erf",
         "Erfc", "Gamma", "LogGamma", "Max", "Min", "Piecewise", "Equality", "Unequality", "LessThan", "StrictLessThan",
         "And", "Or", "Xor", "Not", "Contains", "Interval", "BooleanAtom", "Infty", "UnevaluatedExpr"]
PRINTERS = [("ccode_double", ["ccode", None, "double"], False), ("ccode_float", ["ccode", None, "float"], True),
            ("c89code", ["c89code", None], False), ("c99code", ["c99code", None], False)]
BATCH = 28

TAG_INT = "ccode_integer_literal_has_c_integer_type"
TAG_PAREN = "ccode_composite_text_without_parentheses"


def mk_expr(e, x):
    env = dict(zip(cgen.SYMS, x[0]))
    return {"e": en.repair(e, False, env, True)[0], "x": x}


def finite(x):
    return x == x and x not in (float("inf"), float("-inf"))


def nontrivial(d):
    """an integer literal next to '/', a rational power or a Piecewise (DESIGN C15)"""
    if not isinstance(d, list) or not d:
        return False
    if isinstance(d[0], str):
        if d[0] in ("Rational", "Piecewise"):
            return True
        if d[0] == "Pow" and d[2][0] in ("Rational", "Integer") and (d[2][0] == "Rational" or d[2][1].startswith("-")):
            return True
        if d[0] == "Mul" and any(ex[0] in ("Rational", "Integer") and ex[1].startswith("-") or ex[0] == "Rational"
                                 for _, ex in d[2]):
            return True
        return any(nontrivial(x) for x in d[1:])
    return any(nontrivial(x) for x in d)


class C15(Check):
    pid = "C15"
    exe = "driver"
    builds = [("main", ("driver",))]
    rule = ("")
    assumptions = ["mpmath principal branches are the reference (DESIGN 3.5)",
                   "glibc libm (double and float functions) is accurate to a few ulp (factor 64)",
                   "gcc -O0 -std=gnu99 -fno-builtin implements C arithmetic on IEEE doubles / floats",
                   "a printer that throws declines; emitted code that uses an identifier which is neither a bound symbol "
                   "nor an ISO C99 <math.h> name is the user's to complete and is declined"]
    tiers = {"quick": {"examples": 88, "shrink_calls": 40}, "thorough": {"examples": 4800, "shrink_calls": 80}}
    case_timeout = 600
    timeout = 120.0

    # ------------------------------------------------------------------ generation
    def enumerate(self, tier):
        return []

    def strategy(self, tier):
        n = 7 if tier == "quick" else 10
        elem = st.builds(mk_expr, cgen.tree(n), cgen.input_vectors())
        slot = en.weighted([(1, st.none()), (9, elem)])
        return st.lists(slot, min_size=BATCH, max_size=BATCH).map(lambda xs: {"exprs": xs})

    # ------------------------------------------------------------------ judging
    def judge(self, case):
        exprs = [e for e in case["exprs"] if e is not None]
        if not exprs:
            return
        stmts = []
        pos = []
        for ex in exprs:
            k = len(stmts)
            stmts.append(ex["e"])
            for _, op, _ in PRINTERS:
                stmts.append([op[0], R(k)] + op[2:])
            pos.append(k)
        res = self.run(stmts)
        funcs = []          # (code, vectors)
        owner = []          # (expression index, [printer names]) per function
        dumps = {}
        for i, ex in enumerate(exprs):
            k = pos[i]
            if is_exc(res[k]):
                self.skip("assert_seen" if res[k]["exc"] == "VerifAssertFailure" else "construct:" + res[k]["exc"])
                continue
            dumps[i] = B(res[k])
            bycode = {}
            for pi, (pname, _, flt) in enumerate(PRINTERS):
                r = res[k + 1 + pi]
                if is_exc(r):
                    self.skip("assert_seen" if r["exc"] == "VerifAssertFailure" else "declined:%s:%s" % (pname, r["exc"]))
                    continue
                foreign = cgen.foreign_identifiers(r)
                if foreign:
                    self.skip("foreign_identifier:%s:%s" % (pname, foreign[0]))
                    continue
                bycode.setdefault((r, flt), []).append(pname)
            for (code, flt), names in bycode.items():
                funcs.append((code, ex["x"]))
                owner.append((i, names, flt))
        if not funcs:
            return
        self.stats = getattr(self, "stats", {})
        out = cgen.compile_run(funcs, "m", self.stats)
        self.cls("batches")
        refs = {}
        judged = {}
        for (code, xs), (i, names, flt), (status, vals) in zip(funcs, owner, out):
            ex = exprs[i]
            if status == "rejected":
                self.count()
                raise Violation("%s(e) = %r uses only the bound symbols and <math.h> but gcc rejects it: %s; e = %s"
                                % ("/".join(names), code, vals, engine.sx(ex["e"])[:800]),
                                {"minimal_case": {"exprs": [ex]}})
            for j, x in enumerate(xs):
                if (i, j) not in refs:
                    refs[(i, j)] = cgen.stable_reference(dumps[i], dict(zip(cgen.SYMS, x)))
                ref = refs[(i, j)][flt]
                if isinstance(ref, Unjudgeable):
                    self.skip("ref:" + ":".join(ref.reason.split(":")[:2]), len(names))
                    continue
                got = vals[j]
                self.count(len(names))
                bad = None
                if got == "fpe":
                    bad = "raises SIGFPE (integer division by zero)"
                elif not mpmath.isfinite(ref.value):
                    if got != float(ref.value):
                        bad = "evaluates to %r" % got
                elif not finite(got):
                    bad = "evaluates to %r" % got
                else:
                    tol = ref.tol_abs(64) + mpf(10) ** -40 * max(1, abs(ref.value))
                    if not on.close(mpf(got), ref.value, 0, tol):
                        bad = "evaluates to %r (|diff| %.3g > tol %.3g)" % (got, float(abs(mpf(got) - ref.value)), float(tol))
                if bad:
                    raise Violation("%s(e) = %r at %s %s but e has the value %s (kappa %.3g); e = %s"
                                    % ("/".join(names), code, dict(zip(cgen.SYMS, x)), bad, mpmath.nstr(ref.value, 20),
                                       float(ref.kappa), engine.sx(ex["e"])[:800]),
                                    {"minimal_case": {"exprs": [ex]}, "dump": dumps[i]})
                for nm in names:
                    self.cls("judged:" + nm)
                judged.setdefault(i, set()).update(names)
        for i, names in judged.items():
            d = dumps[i]
            heads = en.dump_heads(d)
            for h in heads:
                self.cls("node:" + h)
            if nontrivial(d):
                self.nontriv(exprs[i]["e"])
            self.sample({"recipe": engine.sx(exprs[i]["e"])[:300], "printers": sorted(names)})


def main():
    cgen.install_extra_findings()
    return engine.main(C15)


if __name__ == "__main__":
    sys.exit(main())
