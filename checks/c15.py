"""C15 Generated C code computes the expression's value (ccode at double / float precision, c89code, c99code;
symengine/printers/codegen.cpp, codegen.h, strprinter.cpp)."""
import json
import os
import sys

sys.path.insert(0, os.path.join(os.path.dirname(os.path.abspath(__file__)), ".."))
from hypothesis import strategies as st
from mpmath import mpf
import mpmath
from pbt import engine, gen
from pbt.engine import Check, Violation, B, R, is_exc
from pbt import oracle_num as on
from pbt import evalnum as en
from pbt import cgen
from pbt.cgen import I, Q, L, S
from pbt.oracle_num import Unjudgeable

# ---- node types the C printers accept (symengine/printers/codegen.cpp)
# CodePrinter bvisit overloads, lines 99-384: Dummy Interval Contains Piecewise BooleanAtom Integer And Or Xor Not Rational
#   Abs Ceiling Truncate Max Min Constant NaN Equality Unequality LessThan StrictLessThan Sign UnevaluatedExpr Function
#   RealDouble (throwing: Basic Complex Reals Rationals Integers EmptySet FiniteSet UniversalSet UnivariateSeries
#   Derivative Subs GaloisField); inherited from StrPrinter: Symbol Add Mul Pow (through the virtual _print_pow)
# C89CodePrinter lines 400-425: Infty, _print_pow (exp, 1/x, sqrt, pow); C99CodePrinter lines 432-474: Infty, _print_pow
#   (+ cbrt), Gamma -> tgamma, LogGamma -> lgamma
# RewriteTrigVisitor (visitor.h:364-418): Cot Csc Sec ACot ACsc ASec Coth Csch Sech ACoth ACsch ASech are rewritten
# generic Function path (codegen.cpp:357-365, names from init_str_printer_names()): the name is emitted as it is; the
#   ones that are <math.h> names: sin cos tan asin acos atan atan2 sinh cosh tanh asinh acosh atanh log floor erf erfc
# not generated: Dummy (name carries a process-global counter), NaN (no value to compare)
NODES = ["Symbol", "Integer", "Rational", "RealDouble", "Constant", "Add", "Mul", "Pow", "Sin", "Cos", "Tan", "Cot", "Csc",
         "Sec", "ASin", "ACos", "ATan", "ACot", "ACsc", "ASec", "Sinh", "Cosh", "Tanh", "Coth", "Csch", "Sech", "ASinh",
         "ACosh", "ATanh", "ACoth", "ACsch", "ASech", "Log", "ATan2", "Abs", "Sign", "Floor", "Ceiling", "Truncate", "Erf",
         "Erfc", "Gamma", "LogGamma", "Max", "Min", "Piecewise", "Equality", "Unequality", "LessThan", "StrictLessThan",
         "And", "Or", "Xor", "Not", "Contains", "Interval", "BooleanAtom", "Infty", "UnevaluatedExpr"]
PRINTERS = [("ccode_double", ["ccode", None, "double"], False), ("ccode_float", ["ccode", None, "float"], True),
            ("c89code", ["c89code", None], False), ("c99code", ["c99code", None], False)]
BATCH = 28           # slots of a generated batch (bounded by Hypothesis' choice-sequence budget)
TABLE_BATCH = 96     # expressions per batch of the deterministic table (gcc's start-up cost dominates a compilation)

# known-finding tags (GUIDE "Known findings protocol"); an exclusion is applied iff self.tag_active(tag)
TAG_INT = "ccode_integer_literals_make_integer_arithmetic"       # KF-C15-01: 1/Piecewise((2,c),(3,True)) -> 1/((c)?(2):(3)) == 0
TAG_BIGINT = "ccode_integer_literal_exceeds_long_long"            # KF-C15-02: 18446744073709551621*x
TAG_PAREN = "ccode_composite_text_without_parentheses"            # KF-C15-03: y/cot(x) -> y/1/tan(x)
TAG_EMPTY = "ccode_contains_unbounded_interval_prints_nothing"    # KF-C15-04: Contains(x, (-oo, oo)) -> ""

RECIP6 = ("Cot", "Csc", "Sec", "Coth", "Csch", "Sech")
RINV6 = ("ACot", "ACsc", "ASec", "ACoth", "ACsch", "ASech")      # printed as f(div(one, arg)): the printer inverts arg
RELHEADS = ("Equality", "Unequality", "LessThan", "StrictLessThan")


def text_level(d):
    """top-level operator class of the C text emitted for d: atom / muldiv / add / rel / bool"""
    t = d[0]
    if t == "UnevaluatedExpr":
        return text_level(d[1])
    if t in RECIP6 or t == "Mul" or t == "Rational":
        return "muldiv"
    if t in ("Integer", "RealDouble"):
        return "muldiv" if d[1].startswith("-") else "atom"
    if t == "Pow":
        return "muldiv" if d[2] == ["Integer", "-1"] and d[1] != ["Constant", "E"] else "atom"
    if t == "Add":
        return "add"
    if t in RELHEADS:
        return "rel"
    if t == "Contains":
        return "bool"
    return "atom"


def paren_risk(d, ctx=None):
    """KF-C15-03 by construction: does the dump contain a node for which Precedence answers Atom although its emitted
    text is composite (the six reciprocal functions RewriteTrigVisitor turns into 1/f(x), UnevaluatedExpr, Contains),
    in a position where StrPrinter decides about parentheses by precedence?  ctx: add1 (Add term, coefficient 1),
    addc (other coefficient), num / den (Mul factor with exponent 1 / -1, base of x**-1), cmp (side of a relational,
    argument of sign, element of Contains)"""
    if not isinstance(d, list) or not d or not isinstance(d[0], str):
        return False
    t = d[0]
    if ctx is not None and t in RECIP6 + ("UnevaluatedExpr", "Contains"):
        lv = text_level(d)
        if ctx == "add1" and lv in ("rel", "bool"):
            return True
        if ctx in ("addc", "num") and lv in ("add", "rel", "bool"):
            return True
        if ctx == "den" and lv != "atom":
            return True
        if ctx == "cmp" and lv == "bool":
            return True
    if t == "Add":
        return any(paren_risk(term, "add1" if coef == ["Integer", "1"] else "addc") or paren_risk(coef) for term, coef in d[2])
    if t == "Mul":
        for base, ex in d[2]:
            c = "num" if ex == ["Integer", "1"] else "den" if ex == ["Integer", "-1"] else None
            if paren_risk(base, c) or paren_risk(ex):
                return True
        return False
    if t == "Pow":
        return paren_risk(d[1], "den" if d[2] == ["Integer", "-1"] else None) or paren_risk(d[2])
    if t in RELHEADS or t == "Sign":
        return any(paren_risk(x, "cmp") for x in d[1:])
    if t in RINV6:
        a = d[1]
        if a[0] == "Mul":
            # 1/(c * prod b_i**e_i) = (1/c) * prod b_i**(-e_i): numerators and denominators change places
            return any(paren_risk(base, "den" if ex == ["Integer", "1"] else "num" if ex == ["Integer", "-1"] else None)
                       or paren_risk(ex) for base, ex in a[2])
        if a[0] == "Pow" and a[2] == ["Integer", "-1"]:
            return paren_risk(a[1])
        return paren_risk(a, "den")
    if t == "Contains":
        return paren_risk(d[1], "cmp") or paren_risk(d[2])
    if t == "UnevaluatedExpr":
        return paren_risk(d[1], ctx)
    if t == "Piecewise":
        return any(paren_risk(e) or paren_risk(c) for e, c in d[1])
    if t in ("And", "Or", "Xor"):
        return any(paren_risk(x) for x in d[1])
    return any(paren_risk(x) for x in d[1:] if isinstance(x, list))


BOOLHEADS = RELHEADS + ("And", "Or", "Xor", "Not", "Contains")


def ibound(d):
    """C type of the double-precision text of d: None = floating, else d is computed in C *integer* arithmetic and the
    result is a bound on its magnitude.  Integer -> literal without a decimal point (codegen.cpp bvisit(Integer)),
    relationals and logic -> int, Piecewise / UnevaluatedExpr / Add / Mul / x**-1 of integer-typed operands -> int"""
    t = d[0]
    if t == "Integer":
        n = abs(int(d[1]))
        return n if n < 2 ** 63 else None
    if t in BOOLHEADS:
        return 1
    if t == "UnevaluatedExpr":
        return ibound(d[1])
    if t == "Piecewise":
        bs = [ibound(e) for e, _ in d[1]]
        return None if any(b is None for b in bs) else max(bs)
    if t == "Add":
        tot = ibound(d[1])
        if tot is None:
            return None
        for term, coef in d[2]:
            b, c = ibound(term), ibound(coef)
            if b is None or c is None:
                return None
            tot += b * c
        return tot
    if t == "Mul":
        tot = ibound(d[1])
        if tot is None:
            return None
        for base, ex in d[2]:
            b = ibound(base)
            if b is None or ex not in (["Integer", "1"], ["Integer", "-1"]):
                return None
            if ex == ["Integer", "1"]:
                tot *= b
        return tot
    if t == "Pow" and d[2] == ["Integer", "-1"]:
        return None if ibound(d[1]) is None else 1
    return None


def int_arith_risk(d):
    """KF-C15-01 by construction: does the double-precision text of the dump contain a division whose operands all
    have a C integer type (a quotient n/d of integer-typed numerators and denominators, 1/b, the 1/arg the printer
    builds for acot/acsc/asec/acoth/acsch/asech), or integer-typed arithmetic that can leave the int range?"""
    if not isinstance(d, list) or not d:
        return False
    if not isinstance(d[0], str):
        return any(int_arith_risk(x) for x in d)
    t = d[0]
    if t == "Mul" and any(ex == ["Integer", "-1"] for _, ex in d[2]):
        num = [d[1]] + [b for b, ex in d[2] if ex != ["Integer", "-1"]]
        den = [b for b, ex in d[2] if ex == ["Integer", "-1"]]
        if all(ex in (["Integer", "1"], ["Integer", "-1"]) for _, ex in d[2]) \
                and all(ibound(x) is not None for x in num) and all(ibound(x) is not None for x in den):
            return True
    if t == "Pow" and d[2] == ["Integer", "-1"] and ibound(d[1]) is not None:
        return True
    if t in RINV6 and d[1][0] != "Integer" and ibound(d[1]) is not None:
        return True
    if t in ("Add", "Mul"):
        b = ibound(d)
        if b is not None and b >= 2 ** 31:
            return True
    return any(int_arith_risk(x) for x in d[1:] if isinstance(x, list))


def unbounded_interval(d):
    if not isinstance(d, list) or not d:
        return False
    if d[0] == "Interval" and d[1][0] == "Infty" and d[2][0] == "Infty":
        return True
    return any(unbounded_interval(x) for x in d if isinstance(x, list))


def has_huge_int_literal(code):
    return any(k == "num" and tok.isdigit() and int(tok) >= 2 ** 63 for k, tok in cgen.tokens(code))


FALLBACK = ["add", S("x"), Q(1, 3)]


def unsech(r):
    """evalnum.repair moves the argument of asech into (0, 1] as sech(atan(a)); the same value written as
    1/cosh(atan(a)) keeps asech out of the by-construction exclusion of KF-C15-03 (asech(sech(u)) is printed
    acosh(1/1/cosh(u)))"""
    if not isinstance(r, list):
        return r
    if len(r) == 2 and r[0] == "asech" and isinstance(r[1], list) and r[1][0] == "sech" and r[1][1][0] == "atan":
        return ["asech", ["div", I(1), ["cosh", unsech(r[1][1])]]]
    return [unsech(x) for x in r]


def mk_expr(e, x):
    env = dict(zip(cgen.SYMS, x[0]))
    try:
        r = unsech(en.repair(e, False, env, True)[0])
    except (en._Bad, ValueError, OverflowError, ZeroDivisionError, TypeError):
        r = FALLBACK       # the repair pass itself left the domain (rare): a fixed tame expression instead
    return {"e": r, "x": x}


def finite(x):
    return x == x and x not in (float("inf"), float("-inf"))


def nontrivial(d):
    """an integer literal next to '/', a rational power or a Piecewise (DESIGN C15)"""
    if not isinstance(d, list) or not d:
        return False
    if isinstance(d[0], str):
        if d[0] in ("Rational", "Piecewise"):
            return True
        if d[0] == "Pow" and d[2][0] in ("Rational", "Integer") and (d[2][0] == "Rational" or d[2][1].startswith("-")):
            return True
        if d[0] == "Mul" and any(ex[0] == "Rational" or (ex[0] == "Integer" and ex[1].startswith("-")) for _, ex in d[2]):
            return True
        return any(nontrivial(x) for x in d[1:])
    return any(nontrivial(x) for x in d)


V = [[0.640625, -1.296875, 2.015625, 0.328125], [1.828125, 0.421875, -0.734375, 3.015625],
     [-2.484375, 1.515625, 1.515625, 0.984375], [0.265625, 2.984375, -1.015625, -0.515625],
     [1.015625, 1.015625, 2.484375, -1.015625], [3.265625, -0.109375, 0.890625, 0.890625]]


def table(full=True):
    """deterministic table: every supported node type in several argument shapes and printing contexts
    (term of a sum, numerator, denominator, negated, function argument), integer literals around 2^31, 2^53, 2^63,
    2^64, rational and integer powers of every base shape, Max/Min of 2-5, logic, nested Piecewise"""
    x, y, z, t = [S(n) for n in cgen.SYMS]
    args = [x, ["add", x, y], ["mul", Q(2, 3), y], ["sub", z, ["real_double", 0.25]], ["div", x, t], ["neg", z],
            ["mul", x, y], ["add", ["sin", x], I(2)], ["pow", y, I(2)], ["abs", t], Q(5, 7), I(3)]
    out = []
    uargs = args if full else [args[0], args[1], args[4], args[7]]
    for f in cgen.UNARY_C99:
        for k, a in enumerate(uargs):
            out.append([f, a])
            out.append([["add", [f, a], Q(1, 7)], ["div", t, [f, a]], ["mul", I(-3), [f, a]], ["sub", y, [f, a]],
                        ["mul", [f, a], ["add", x, I(1)]], ["pow", [f, a], I(-2)]][k % 6])
    for i, a in enumerate(args):
        if not full and i % 3 != 1:
            continue
        b = args[(i + 5) % len(args)]
        c = args[(i + 7) % len(args)]
        for o in cgen.BINARY + ["atan2"] + cgen.RELS:
            out.append([o, a, b])
            out.append(["mul", I(2), [o, b, ["sin", a]]])
        for n in range(2, 6):
            pool = [a, b, c, ["sin", a], ["cos", b], I(1), Q(1, 2)]
            out.append(["max", L(*pool[:n])])
            out.append(["add", ["min", L(*pool[7 - n:])], x])
        for o in cgen.RELS:
            out.append(["piecewise", L(L(a, [o, b, c]), L(["sin", c], ["true"]))])
            out.append(["piecewise", L(L(a, [o, ["sin", b], ["sin", c]]), L(b, [o, a, ["cos", c]]), L(c, ["true"]))])
            out.append(["div", I(1), ["piecewise", L(L(I(2), [o, a, b]), L(I(3), ["true"]))]])
        for n in range(-4, 6):
            out.append(["pow", a, I(n)])
        for q in cgen.RAT_EXPS:
            out.append(["pow", a, q])
            out.append(["div", y, ["pow", a, q]])
        out.append(["pow", I(2), a])
        out.append(["pow", Q(-1, 2), ["floor", a]])
        out.append(["pow", I(-2), ["ceiling", a]])
        out.append(["pow", a, b])
        out.append(["exp", a])
        out.append(["pow", ["constant", "pi"], a])
    for n in cgen.BIG_INTS:
        ctx = [["mul", I(n), x], ["add", I(n), y], ["div", z, I(n)], ["Lt", x, I(n)], ["max", L(I(n), t)],
               ["mul", Q(n, 7), x], ["atan", ["mul", I(n), x]], ["mul", I(-n), ["sin", x]]]
        out += ctx if full else ctx[:3] + ctx[6:]
    for v in cgen.DOUBLES:
        out += [["mul", ["real_double", v], x], ["add", ["real_double", -v], y], ["pow", ["real_double", abs(v)], z],
                ["div", t, ["real_double", v]]]
    c1, c2 = ["Lt", x, y], ["Ge", ["add", x, z], I(0)]
    c3 = ["contains", x, ["interval", Q(-1, 2), ["oo"], True, False]]
    c4 = ["contains", ["mul", x, y], ["interval", ["noo"], Q(3, 2), False, True]]
    c5 = ["contains", ["sin", z], ["interval", Q(-1, 2), Q(1, 2), False, False]]
    c6 = ["contains", t, ["interval", I(0), I(1), True, True]]
    c7 = ["Eq", ["floor", x], I(1)]
    c8 = ["Ne", ["sign", y], ["sign", z]]
    c9 = ["Le", ["ceiling", z], ["floor", t]]
    c10 = ["contains", y, ["interval", ["noo"], ["oo"], True, True]]
    logic = [c1, c2, c3, c4, c5, c6, c7, c8, c9, c10, ["and", L(c1, c2)], ["or", L(c1, c2)], ["xor", L(c1, c2, c3)],
             ["not", c2], ["and", L(c1, c3, c4)], ["or", L(c4, ["not", c1])], ["xor", L(c1, c4)], ["not", c3], ["not", c5],
             ["and", L(c7, c8)], ["or", L(c9, c6)], ["xor", L(c7, c1)], ["not", ["xor", L(c1, c2)]], ["true"], ["false"],
             ["Eq", x, y], ["Ne", x, y], ["Le", x, y], ["Ge", x, y], ["Eq", ["abs", x], ["abs", y]]]
    for k, c in enumerate(logic):
        if not full and k % 2 == 1 and k > 10:
            continue
        out += [c, ["mul", I(2), c], ["add", c, x], ["sub", x, c], ["div", y, ["add", c, I(2)]],
                ["piecewise", L(L(["sin", x], c), L(["cos", y], ["true"]))],
                ["piecewise", L(L(I(1), c), L(I(2), ["not", c]), L(z, ["true"]))],
                ["mul", ["piecewise", L(L(["oo"], c), L(y, ["true"]))], I(1)],
                ["max", L(["piecewise", L(L(x, c), L(["noo"], ["true"]))], y)], ["sign", ["sub", c, Q(1, 2)]],
                ["Lt", ["piecewise", L(L(x, c), L(y, ["true"]))], z],
                ["piecewise", L(L(["piecewise", L(L(x, c1), L(y, ["true"]))], c),
                                L(["piecewise", L(L(z, c2), L(t, c), L(I(0), ["true"]))], ["true"]))]]
    for cn in ("pi", "E", "EulerGamma", "Catalan", "GoldenRatio"):
        k = ["constant", cn]
        out += [k, ["mul", I(2), k], ["add", k, x], ["pow", k, x], ["pow", x, k], ["div", x, k], ["sin", ["mul", k, x]],
                ["div", k, I(4)], ["pow", k, I(2)], ["pow", k, Q(1, 2)], ["Lt", x, k]]
    for a in (x, ["add", x, I(1)], ["mul", x, y], ["neg", x], Q(1, 3), I(3), I(-3), ["div", I(1), y], ["Lt", x, y], ["cot", x]):
        u = ["unevaluated_expr", a]
        out += [u, ["mul", u, y], ["div", y, ["add", ["abs", u], I(1)]], ["add", u, z], ["sub", z, u], ["mul", I(2), u],
                ["pow", u, I(2)], ["sin", u], ["div", u, ["unevaluated_expr", I(2)]], ["div", t, u]]
    out += [["piecewise", L(L(x, c1), L(y, c2))], ["add", ["piecewise", L(L(x, c1))], z]]     # no default: must throw
    out += [["oo"], ["noo"], ["Lt", x, ["oo"]], ["Gt", x, ["noo"]], ["max", L(x, ["noo"])], ["min", L(x, ["oo"], y)],
            ["constant", "I"], ["function_symbol", "f", L(x)], ["zeta", x], ["lambertw", x], ["conjugate", x],
            ["kronecker_delta", x, y], ["beta", x, y], ["digamma", x]]
    return out


class C15(Check):
    pid = "C15"
    exe = "driver"
    builds = [("main", ("driver",))]
    rule = ("batches of %d (table) / %d (generated) expressions over x, y, z, t: a deterministic table (every node type the printers accept, "
            "codegen.cpp bvisit list, in several argument shapes and printing contexts: term of a sum, numerator, "
            "denominator, negated, argument; integer literals around 2^31 2^53 2^63 2^64 and beyond; integer -4..5 and "
            "rational powers; Max/Min of 2-5; relationals / And / Or / Xor / Not / Contains(Interval) in arithmetic "
            "context and as Piecewise conditions; nested Piecewise; infinities; pi / E) plus Hypothesis recursive trees "
            "(<= 7 leaves quick, 10 thorough).  Arguments are moved into each function's real domain at the first input "
            "vector by evalnum.repair.  Each expression is printed by ccode(Double), ccode(Float), C89CodePrinter, "
            "C99CodePrinter; every distinct text becomes `double f_k(double x, double y, double z, double t) { return "
            "<text>; }` in one translation unit with <math.h>, compiled by gcc -O0 -std=gnu99 -fno-builtin -lm and "
            "evaluated at 4 input vectors (odd multiples of 1/64, so exact in float; symbols tie with some "
            "probability).  Oracle: mpmath value of the constructed expression at the vector (50/70 digits), tolerance "
            "64*u*E with u = 2^-53 (2^-24 for Float) and E the first-order error mass over all rounding points (evalnum "
            "model; a literal is a rounding point unless its 15-digit print converts back exactly in the target type); "
            "kappa > 1e4, values within 1e-9 (1e-3 for Float) of a discontinuity and Float magnitudes outside 1e+-30 are "
            "skipped; (in)equalities of exactly computed operands (integer-valued functions, symbols, small integer "
            "combinations) are judged at ties.  Infinite reference values must be reproduced exactly.  A printer that "
            "throws declines; text using an identifier that is neither a bound symbol nor an ISO C99 <math.h> name is "
            "declined (EulerGamma, gamma, f, ...); a batch that gcc rejects is bisected and the rejected text is a "
            "violation.  Known findings are excluded by construction only while their tag is active (skipped['known:*']): "
            "KF-C15-01 double-precision texts with a division / overflow among C-integer-typed operands (type inference over "
            "the tree: Integer, relationals, logic, Piecewise / UnevaluatedExpr / Add / Mul of those), KF-C15-02 texts with "
            "an integer literal >= 2^63, KF-C15-03 trees with cot/csc/sec/coth/csch/sech, UnevaluatedExpr or Contains in a "
            "position where StrPrinter parenthesizes by precedence, KF-C15-04 Contains(., (-oo, oo)).  "
            "Non-trivial: expression whose tree has a Rational, a negative or rational power, or a Piecewise; distinct by "
            "recipe.  classes: judged:<printer> = judged (text, vector) pairs, node:<T> = judged expressions containing T."
            % (TABLE_BATCH, BATCH))
    assumptions = ["mpmath principal branches are the reference (DESIGN 3.5)",
                   "glibc libm (double and float functions) is accurate to a few ulp (factor 64)",
                   "gcc -O0 -std=gnu99 -fno-builtin implements C arithmetic on IEEE doubles / floats",
                   "a printer that throws declines; emitted code that uses an identifier which is neither a bound symbol "
                   "nor an ISO C99 <math.h> name is the user's to complete and is declined"]
    tiers = {"quick": {"examples": 48, "shrink_calls": 24}, "thorough": {"examples": 3200, "shrink_calls": 60}}
    case_timeout = 900
    timeout = 120.0

    # ------------------------------------------------------------------ generation
    def enumerate(self, tier):
        tb = table(tier != "quick")
        exprs = [mk_expr(e, [V[(i + j) % len(V)] for j in range(cgen.NVEC)]) for i, e in enumerate(tb)]
        for i in range(0, len(exprs), TABLE_BATCH):
            yield {"exprs": exprs[i:i + TABLE_BATCH]}

    def strategy(self, tier):
        n = 7 if tier == "quick" else 10
        elem = st.builds(mk_expr, cgen.tree(n), cgen.input_vectors())
        # fixed number of slots; a slot shrinks to None, which removes the expression from the batch
        slot = en.weighted([(1, st.none()), (9, elem)])
        return st.lists(slot, min_size=BATCH, max_size=BATCH).map(lambda xs: {"exprs": xs})

    # ------------------------------------------------------------------ judging
    def _compare(self, vals, refs, flt):
        """-> (judged, skipped reasons, first failure (j, text) or None)"""
        judged, skipped, fail = 0, [], None
        for j in range(cgen.NVEC):
            ref = refs[j][flt]
            if isinstance(ref, Unjudgeable):
                skipped.append("ref:" + ":".join(ref.reason.split(":")[:2]))
                continue
            got = vals[j]
            judged += 1
            bad = None
            if got == "fpe":
                bad = "raises SIGFPE (integer division by zero)"
            elif not mpmath.isfinite(ref.value):
                if got != float(ref.value):
                    bad = "evaluates to %r" % got
            elif not finite(got):
                bad = "evaluates to %r" % got
            else:
                tol = ref.tol_abs(64) + mpf(10) ** -40 * max(1, abs(ref.value))
                if not on.close(mpf(got), ref.value, 0, tol):
                    bad = "evaluates to %r (|diff| %.3g > tol %.3g)" % (got, float(abs(mpf(got) - ref.value)), float(tol))
            if bad and fail is None:
                fail = (j, "%s but e has the value %s (kappa %.3g)" % (bad, mpmath.nstr(ref.value, 20), float(ref.kappa)))
        return judged, skipped, fail

    def judge(self, case):
        exprs = [e for e in case["exprs"] if e is not None]
        if not exprs:
            return
        stmts = []
        pos = []
        for ex in exprs:
            k = len(stmts)
            stmts.append(ex["e"])
            for _, op, _ in PRINTERS:
                stmts.append([op[0], R(k)] + op[2:])
            pos.append(k)
        res = self.run(stmts)
        funcs = []          # (code, vectors)
        owner = []          # (expression index, [printer names], float?) per function
        dumps = {}
        for i, ex in enumerate(exprs):
            k = pos[i]
            if is_exc(res[k]):
                self.skip("assert_seen" if res[k]["exc"] == "VerifAssertFailure" else "construct:" + res[k]["exc"])
                continue
            d = dumps[i] = B(res[k])
            if self.tag_active(TAG_PAREN) and paren_risk(d):
                self.skip("known:" + TAG_PAREN)
                continue
            if self.tag_active(TAG_EMPTY) and unbounded_interval(d):
                self.skip("known:" + TAG_EMPTY)
                continue
            bycode = {}
            for pi, (pname, _, flt) in enumerate(PRINTERS):
                r = res[k + 1 + pi]
                if is_exc(r):
                    self.skip("assert_seen" if r["exc"] == "VerifAssertFailure" else "declined:%s:%s" % (pname, r["exc"]))
                    continue
                foreign = cgen.foreign_identifiers(r)
                if foreign:
                    self.skip("foreign_identifier:%s:%s" % (pname, foreign[0]))
                    continue
                if not flt and self.tag_active(TAG_BIGINT) and has_huge_int_literal(r):
                    self.skip("known:" + TAG_BIGINT)
                    continue
                if not flt and self.tag_active(TAG_INT) and int_arith_risk(d):
                    self.skip("known:" + TAG_INT)
                    continue
                if flt:
                    # evidence only (the value does not depend on it): does the Float text use f-suffixed calls / literals
                    for kind, tok in cgen.tokens(r):
                        if kind == "id" and tok in cgen.MATH_FUNCS:
                            self.cls("float_text:unsuffixed_call:" + tok)
                        elif kind == "num" and not tok.endswith("f") and not tok.isdigit():
                            self.cls("float_text:unsuffixed_literal")
                        elif kind == "num" and tok.isdigit():
                            self.cls("float_text:integer_literal")
                bycode.setdefault((r, flt), []).append(pname)
            for (code, flt), names in bycode.items():
                funcs.append((code, ex["x"]))
                owner.append((i, names, flt))
        if not funcs:
            return
        stats = {}
        out = cgen.compile_run(funcs, "m", stats)
        self.cls("batches")
        self.cls("compilations", stats["compilations"])
        refs = {}
        fails = []
        okfuncs = []
        for fi, ((code, xs), (i, names, flt), (status, vals)) in enumerate(zip(funcs, owner, out)):
            ex = exprs[i]
            if status == "rejected":
                self.count()
                fails.append((fi, "uses only the bound symbols and <math.h> but gcc rejects it: %s" % vals))
                continue
            if i not in refs:
                refs[i] = [cgen.stable_reference(dumps[i], dict(zip(cgen.SYMS, x))) for x in xs]
            judged, skipped, fail = self._compare(vals, refs[i], flt)
            self.count(judged * len(names))
            for s in skipped:
                self.skip(s, len(names))
            if fail is not None:
                fails.append((fi, "at %s %s" % (dict(zip(cgen.SYMS, xs[fail[0]])), fail[1])))
            elif judged:
                okfuncs.append(fi)
        if fails:
            fi, msg = fails[0]
            i, names, flt = owner[fi]
            raise Violation("%s(e) = %r %s; e = %s" % ("/".join(names), funcs[fi][0], msg, engine.sx(exprs[i]["e"])[:800]),
                            {"minimal_case": {"exprs": [exprs[i]]}, "dump": dumps[i]})
        seen = set()
        for fi in okfuncs:
            i, names, flt = owner[fi]
            for nm in names:
                self.cls("judged:" + nm)
            if i in seen:
                continue
            seen.add(i)
            d = dumps[i]
            for h in en.dump_heads(d):
                self.cls("node:" + h)
            if nontrivial(d):
                self.nontriv(exprs[i]["e"])
            self.sample({"recipe": engine.sx(exprs[i]["e"])[:300], "code": funcs[fi][0][:200], "printers": names,
                         "value@x0": mpmath.nstr(refs[i][0][flt].value, 17) if not isinstance(refs[i][0][flt], Unjudgeable) else None})


def main():
    cgen.install_extra_findings()
    rc = engine.main(C15)
    if rc == 0 and "--replay" not in sys.argv and not os.environ.get("VERIF_SCAN"):
        p = os.path.join(engine.VERIF, "evidence", "C15.json")
        if os.environ.get("VERIF_BUILD_TAG") or os.environ.get("VERIF_REPO"):
            p = os.path.join(engine.VERIF, "evidence", "_scratch", "C15.json")
        with open(p) as f:
            ev = json.load(f)
        cl = ev["coverage"]["classes"]
        miss = [n for n in NODES if not cl.get("node:" + n)]
        miss += [pn for pn, _, _ in PRINTERS if not cl.get("judged:" + pn)]
        print("coverage: %d node types, missing: %s" % (len(NODES), miss or "none"))
        if miss:
            print("INTERNAL ERROR in check C15: supported node types never judged: %s (generator defect)" % miss)
            return 2
    return rc


if __name__ == "__main__":
    sys.exit(main())
