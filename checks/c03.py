"""C03 Every expression the API returns is in canonical form (and the assertion build never fires)."""
import json
import os
import re
import sys

sys.path.insert(0, os.path.join(os.path.dirname(os.path.abspath(__file__)), ".."))
from hypothesis import strategies as st
from pbt import engine, gen, pools, oracle_struct
from pbt.engine import Check, Violation, R, B, is_exc

X, Y = ["symbol", "x"], ["symbol", "y"]
SITE = re.compile(r"SYMENGINE_ASSERT failed: (\S*?symengine/[^:]+:\d+): (.*)")


FUNC = re.compile(r"^\s*(?:[A-Za-z_][\w:<>,&*\s]*?\s)?((?:\w+::)+~?\w+)\s*\([^;]*$")
_src = {}


def enclosing(path, line):
    """name of the function that contains path:line in the repository tree being checked (line-shift proof site id)"""
    try:
        if path not in _src:
            _src[path] = open(path, errors="replace").read().splitlines()
        lines = _src[path]
        for k in range(min(line, len(lines)) - 1, -1, -1):
            m = FUNC.match(lines[k])
            if m and not lines[k].lstrip().startswith(("#", "//", "return", "throw")):
                return m.group(1)
    except OSError:
        pass
    return "?"


def site_of(what):
    m = SITE.search(what)
    if not m:
        return "unknown", what[:120]
    f, ln = m.group(1).rsplit(":", 1)
    rel = f[f.index("symengine/"):]
    return "%s:%s" % (rel, enclosing(f, int(ln))), m.group(2)[:140]


class SiteMatchers(dict):
    """matcher names of the form assert@<file>:<line> match violations raised at that assertion site"""

    def __contains__(self, name):
        return isinstance(name, str) and name.startswith("assert@")

    def __getitem__(self, name):
        site = name[len("assert@"):]
        op = None
        if "|" in site:
            site, op = site.split("|", 1)
        return lambda case, v: ("assert at " + site + ":") in v.msg and (op is None or (" fired in %s of " % op) in v.msg)


class C03(Check):
    pid = "C03"
    timeout = 60.0
    rule = ("programs: one generated expression of the broad pool grammar (every number kind, arithmetic, all function "
            "constructors, relationals, logic, Piecewise, sets, undefined functions, Derivative/Subs) followed by the public "
            "transformations expand, diff, subs (symbol -> symbol / 0 / number), xreplace, neg, squares and reciprocals, "
            "as_numer_denom, as_real_imag, rewrite_as_exp/sin/cos, conjugate, simplify, series, loads(dumps), parse(str), "
            "free_symbols, str. Judged on every instruction: (a) no VerifAssertFailure (the build turns every SYMENGINE_ASSERT "
            "into an attributable exception; the replay is the instruction with its operands); (b) every node of every "
            "returned tree satisfies an independent Python re-statement of the canonical-form rules of Rational, Complex, "
            "Add, Mul, Pow and the container classes (DESIGN Appendix E). Non-trivial: an instruction that returned a "
            "non-atomic object; distinct by (instruction, recipe). Recorded assertion sites are listed as known findings, one "
            "entry per site, matched by file:line.")
    assumptions = ["the canonical-form rules are transcribed from the class documentation and is_canonical bodies",
                   "library exceptions other than assertion failures decline an instruction"]
    tiers = {"quick": {"examples": 2500}, "thorough": {"examples": 200000}}
    matchers = SiteMatchers()

    def strategy(self, tier):
        e = pools.expr(max_leaves=8, special=True).filter(lambda r: not pools.blocked(r))
        return st.fixed_dictionaries({"e": e})

    OPS = [("expand", lambda r: ["expand", r]), ("diff_x", lambda r: ["diff", r, X]), ("diff_y", lambda r: ["diff", r, Y]),
           ("subs_xy", lambda r: ["subs", r, ["list", ["list", X, Y]]]), ("subs_x0", lambda r: ["subs", r, ["list", ["list", X, ["integer", 0]]]]),
           ("subs_xhalf", lambda r: ["subs", r, ["list", ["list", X, ["rational", 1, 2]], ["list", Y, ["integer", -1]]]]),
           ("xreplace", lambda r: ["xreplace", r, ["list", ["list", X, ["add", Y, ["integer", 1]]]]]),
           ("neg", lambda r: ["neg", r]), ("square", lambda r: ["pow", r, ["integer", 2]]), ("recip", lambda r: ["pow", r, ["integer", -1]]),
           ("sqrt", lambda r: ["sqrt", r]), ("plus_self", lambda r: ["add", r, r]), ("times_self", lambda r: ["mul", r, ["mul", ["integer", 2], r]]),
           ("as_numer_denom", lambda r: ["as_numer_denom", r]), ("as_real_imag", lambda r: ["as_real_imag", r]),
           ("rewrite_as_exp", lambda r: ["rewrite_as_exp", r]), ("rewrite_as_sin", lambda r: ["rewrite_as_sin", r]),
           ("rewrite_as_cos", lambda r: ["rewrite_as_cos", r]), ("conjugate", lambda r: ["conjugate", r]),
           ("simplify", lambda r: ["simplify", r, None]), ("abs", lambda r: ["abs", r]), ("sign", lambda r: ["sign", r]),
           ("series", lambda r: ["series", r, X, 4]), ("loads_dumps", lambda r: ["loads", ["dumps", r]]),
           ("parse_str", lambda r: ["parse", ["str", r]]), ("free_symbols", lambda r: ["free_symbols", r]), ("str", lambda r: ["str", r])]

    def judge(self, case):
        rec = case["e"]
        stmts = [rec] + [f(R(0)) for _, f in self.OPS]
        res = self.run(stmts)
        names = ["construct"] + [n for n, _ in self.OPS]
        for name, r in zip(names, res):
            self.count()
            if is_exc(r):
                if r["exc"] == "VerifAssertFailure":
                    site, cond = site_of(r["what"])
                    self.cls("assert@" + site)
                    raise Violation("assert at %s: %s fired in %s of %s" % (site, cond, name, engine.sx(rec)[:400]),
                                    {"op": name, "recipe": rec, "site": site, "what": r["what"]})
                self.skip("declined:" + r["exc"]) if r["exc"] != "Dep" else None
                continue
            bad = oracle_struct.check(json.loads(json.dumps(r)))
            if bad:
                raise Violation("non-canonical result of %s of %s: %s" % (name, engine.sx(rec)[:400], bad),
                                {"op": name, "recipe": rec, "result": r})
            self.cls(name)
            if isinstance(r, dict) and "B" in r and len(json.dumps(r)) > 60:
                self.nontriv((name, rec))
        self.sample({"e": engine.sx(rec)[:200]})


if __name__ == "__main__":
    sys.exit(engine.main(C03))
