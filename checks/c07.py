"""C07 Arithmetic construction preserves mathematical value."""
import os
import sys

sys.path.insert(0, os.path.join(os.path.dirname(os.path.abspath(__file__)), ".."))
from hypothesis import strategies as st
from pbt import engine, gen
from pbt.engine import Check, Violation, B, is_exc
from pbt import oracle_num as on
from pbt.oracle_num import Unjudgeable
from pbt.valuecheck import ValueCheck


def leaf_sig(d, out):
    """multiset of leaves; implicit unit coefficients are omitted so that an
    un-rewritten tree has the same signature as its recipe"""
    t = d[0]
    if t in ("Integer", "integer"):
        out.append("i%s" % d[1])
    elif t in ("Rational", "rational"):
        out.append("q%s/%s" % (d[1], d[2]))
    elif t in ("RealDouble",):
        out.append("f%s" % engine.hexf(d[1]).hex())
    elif t == "real_double":
        out.append("f%s" % d[1].hex())
    elif t in ("Symbol", "symbol", "Constant", "constant"):
        out.append("s%s" % d[1])
    elif t == "Add":
        if d[1] != ["Integer", "0"]:
            leaf_sig(d[1], out)
        for term, coef in d[2]:
            leaf_sig(term, out)
            if coef != ["Integer", "1"]:
                leaf_sig(coef, out)
        out.append("+%d" % len(d[2]))
    elif t == "Mul":
        if d[1] != ["Integer", "1"]:
            leaf_sig(d[1], out)
        for b, e in d[2]:
            leaf_sig(b, out)
            if e != ["Integer", "1"]:
                leaf_sig(e, out)
        out.append("*%d" % len(d[2]))
    else:
        for x in d[1:]:
            if isinstance(x, list):
                leaf_sig(x, out)
        out.append(t.lower())
    return out


class C07(ValueCheck):
    pid = "C07"
    rule = ("recipes over add sub mul div neg pow sqrt cbrt with exact/floating numbers, pi, E, I, symbols "
            "x,y,z (Hypothesis recursive trees, <= 14 leaves), each evaluated at 3 generated generic complex "
            "points; value(result dump) must equal value(recipe) (mpmath, 35/70 digits, 1e-25 relative for "
            "exact trees, kappa-scaled double tolerance with floats). Non-literal bases of non-integer powers "
            "on/near the negative real axis or zero are out of domain. Non-trivial: the leaf/operator "
            "signature of the result differs from the recipe's (some rewrite or folding happened); distinct by recipe.")
    assumptions = ["mpmath principal branches are the reference (exp(y*log x), arg in (-pi, pi])",
                   "library exceptions decline a case; a crash is a violation"]
    tiers = {"quick": {"examples": 24000}, "thorough": {"examples": 600000}}

    def strategy(self, tier):
        num = gen.weighted([(6, gen.integer()), (4, gen.rational()), (2, gen.gaussian()),
                            (2, gen.real_double()), (1, gen.complex_double())])
        leaves = gen.weighted([(5, num), (4, gen.sym()), (2, gen.constant())])
        expo = st.one_of(st.integers(-6, 6).map(lambda n: ["integer", n]),
                         st.builds(gen._rat, st.integers(-9, 9), st.integers(2, 6)),
                         gen.sym(), gen.rational(big=False))

        def special(ch):
            return st.one_of(st.builds(lambda b, e: ["pow", b, e], ch, expo),
                             st.builds(lambda b, e1, e2: ["pow", ["pow", b, e1], e2], ch, expo, expo),
                             st.builds(lambda xs: ["mul_vec", ["list"] + xs], st.lists(ch, min_size=2, max_size=4)),
                             st.builds(lambda xs: ["add_vec", ["list"] + xs], st.lists(ch, min_size=2, max_size=4)))
        t = gen.tree(leaves, unary=("neg", "sqrt", "cbrt"), binary=("add", "sub", "mul", "div", "pow"),
                     max_leaves=10 if tier == "quick" else 14, special=special)
        # number (op) number over every ordered pair of kinds: the double-dispatch tables
        # (pow/rpow, div/rdiv ...) have one entry per pair and each is reached only this way
        snum = st.one_of(st.integers(-5, 5).map(lambda n: ["integer", n]),
                         st.builds(gen._rat, st.integers(-9, 9), st.integers(2, 5)),
                         gen.gaussian(), gen.real_double(), gen.complex_double(),
                         st.sampled_from([2.0, -2.0, 3.0, 0.5, -0.5, 1.5, -1.5]).map(lambda f: ["real_double", f]))
        pair = st.builds(lambda o, a, b: [o, a, b], st.sampled_from(["pow", "pow", "div", "mul", "add", "sub"]), snum, snum)
        pair2 = st.builds(lambda o, p, c: [o, p, c], st.sampled_from(["mul", "add", "pow"]), pair, st.one_of(snum, gen.sym()))
        return st.fixed_dictionaries({"e": st.one_of(t, t, t, pair, pair2), "envs": gen.envs(n=3)})

    def judge(self, case):
        rec = case["e"]
        refs, blocked = self.references(rec, case["envs"])
        if blocked:
            self.skip("ref:overflow")
            return
        res = self.run([rec])[0]
        if is_exc(res):
            self.skip("assert_seen" if res["exc"] == "VerifAssertFailure" else "declined:" + res["exc"])
            return
        got = B(res)
        hasf = on.has_float(rec)
        judged = self.compare(rec, got, case["envs"], refs)
        if judged:
            self.cls("float" if hasf else "exact")
            if sorted(leaf_sig(rec, [])) != sorted(leaf_sig(got, [])):
                self.nontriv(rec)
                self.cls("rewritten")
            self.sample({"recipe": engine.sx(rec), "result": got})


if __name__ == "__main__":
    sys.exit(engine.main(C07))
