"""C07 Arithmetic construction preserves mathematical value."""
import os
import sys

sys.path.insert(0, os.path.join(os.path.dirname(os.path.abspath(__file__)), ".."))
from hypothesis import strategies as st
from pbt import engine, gen
from pbt.engine import Check, Violation, B, is_exc
from pbt import oracle_num as on
from pbt.oracle_num import Unjudgeable


def leaf_sig(d, out):
    """multiset of leaves; implicit unit coefficients are omitted so that an
    un-rewritten tree has the same signature as its recipe"""
    t = d[0]
    if t in ("Integer", "integer"):
        out.append("i%s" % d[1])
    elif t in ("Rational", "rational"):
        out.append("q%s/%s" % (d[1], d[2]))
    elif t in ("RealDouble",):
        out.append("f%s" % engine.hexf(d[1]).hex())
    elif t == "real_double":
        out.append("f%s" % d[1].hex())
    elif t in ("Symbol", "symbol", "Constant", "constant"):
        out.append("s%s" % d[1])
    elif t == "Add":
        if d[1] != ["Integer", "0"]:
            leaf_sig(d[1], out)
        for term, coef in d[2]:
            leaf_sig(term, out)
            if coef != ["Integer", "1"]:
                leaf_sig(coef, out)
        out.append("+%d" % len(d[2]))
    elif t == "Mul":
        if d[1] != ["Integer", "1"]:
            leaf_sig(d[1], out)
        for b, e in d[2]:
            leaf_sig(b, out)
            if e != ["Integer", "1"]:
                leaf_sig(e, out)
        out.append("*%d" % len(d[2]))
    else:
        for x in d[1:]:
            if isinstance(x, list):
                leaf_sig(x, out)
        out.append(t.lower())
    return out


class C07(Check):
    pid = "C07"
    rule = ("recipes over add sub mul div neg pow sqrt cbrt with exact/floating numbers, pi, E, I, symbols "
            "x,y,z (Hypothesis recursive trees, <= 14 leaves), each evaluated at 3 generated generic complex "
            "points; value(result dump) must equal value(recipe) (mpmath, 35/70 digits, 1e-25 relative for "
            "exact trees, kappa-scaled double tolerance with floats). Non-literal bases of non-integer powers "
            "on/near the negative real axis or zero are out of domain. Non-trivial: the leaf/operator "
            "signature of the result differs from the recipe's (some rewrite or folding happened); distinct by recipe.")
    assumptions = ["mpmath principal branches are the reference (exp(y*log x), arg in (-pi, pi])",
                   "library exceptions decline a case; a crash is a violation"]
    tiers = {"quick": {"examples": 6000}, "thorough": {"examples": 400000}}

    def strategy(self, tier):
        num = gen.weighted([(6, gen.integer()), (4, gen.rational()), (2, gen.gaussian()),
                            (2, gen.real_double()), (1, gen.complex_double())])
        leaves = gen.weighted([(5, num), (4, gen.sym()), (2, gen.constant())])
        expo = st.one_of(st.integers(-6, 6).map(lambda n: ["integer", n]),
                         st.builds(gen._rat, st.integers(-9, 9), st.integers(2, 6)),
                         gen.sym(), gen.rational(big=False))

        def special(ch):
            return st.one_of(st.builds(lambda b, e: ["pow", b, e], ch, expo),
                             st.builds(lambda b, e1, e2: ["pow", ["pow", b, e1], e2], ch, expo, expo),
                             st.builds(lambda xs: ["mul_vec", ["list"] + xs], st.lists(ch, min_size=2, max_size=4)),
                             st.builds(lambda xs: ["add_vec", ["list"] + xs], st.lists(ch, min_size=2, max_size=4)))
        t = gen.tree(leaves, unary=("neg", "sqrt", "cbrt"), binary=("add", "sub", "mul", "div", "pow"),
                     max_leaves=10 if tier == "quick" else 14, special=special)
        return st.fixed_dictionaries({"e": t, "envs": gen.envs(n=3)})

    def judge(self, case):
        rec = case["e"]
        res = self.run([rec])[0]
        if is_exc(res):
            self.skip("declined:" + res["exc"])
            return
        got = B(res)
        hasf = on.has_float(rec)
        judged = 0
        for env in case["envs"]:
            self.count()
            try:
                ref = on.stable_value(rec, env, cut_guard=True)
            except Unjudgeable as u:
                self.skip("ref:" + u.reason.split(":")[0])
                # a zoo/nan result is fine when the reference has a pole; nothing to compare
                continue
            if got[0] in ("Infty", "NaN"):
                raise Violation("result is %s but the recipe has the finite value %s at %s" % (got, ref, env),
                                {"recipe": rec, "result": got, "env": env})
            try:
                val = on.stable_value(got, env, cut_guard=True)
            except Unjudgeable as u:
                if u.reason.startswith(("pole", "non_finite", "overflow")):
                    raise Violation("result %s is singular (%s) where the recipe has the finite value %s at %s"
                                    % (got, u.reason, ref, env), {"recipe": rec, "result": got, "env": env})
                self.skip("res:" + u.reason.split(":")[0])
                continue
            try:
                if hasf:
                    kap = on.float_kappa(rec, env, cut_guard=True)
                    tol = float(64 * 2.0 ** -53 * kap)
                else:
                    tol = 1e-25
            except Unjudgeable as u:
                self.skip("kappa:" + u.reason.split(":")[0])
                continue
            if not on.close(ref, val, tol, 1e-30 if not hasf else 1e-300):
                raise Violation("value mismatch at %s: recipe=%s result=%s (tol %g); result dump %s"
                                % (env, ref, val, tol, got), {"recipe": rec, "result": got, "env": env})
            judged += 1
        if judged:
            self.cls("float" if hasf else "exact")
            if sorted(leaf_sig(rec, [])) != sorted(leaf_sig(got, [])):
                self.nontriv(rec)
                self.cls("rewritten")
            self.sample({"recipe": engine.sx(rec), "result": got})


if __name__ == "__main__":
    sys.exit(engine.main(C07))
