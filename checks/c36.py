"""C36 Algebraic rewriting transformations preserve value."""
import os
import sys

sys.path.insert(0, os.path.join(os.path.dirname(os.path.abspath(__file__)), ".."))
from mpmath import mp
from hypothesis import strategies as st
from pbt import engine, gen
from pbt.engine import Violation, R, B, is_exc
from pbt import oracle_num as on
from pbt.oracle_num import Unjudgeable
from pbt.valuecheck import ValueCheck

SYMS = ["x", "y"]
TRIG = ["sin", "cos", "tan", "cot", "csc", "sec", "sinh", "cosh", "tanh", "coth", "csch", "sech"]
OTHER = ["exp", "log", "sqrt", "abs", "asin", "acos", "atan", "asinh"]
ONE = ["Integer", "1"]


def neg_exponent_on_top(d):
    """a negative numeric exponent left on the top level of a numerator/denominator"""
    def negnum(e):
        return (e[0] == "Integer" and int(e[1]) < 0) or (e[0] == "Rational" and int(e[1]) < 0)
    if d[0] == "Pow" and negnum(d[2]):
        return True
    if d[0] == "Mul":
        return any(negnum(e) for _, e in d[2])
    return False


class C36(ValueCheck):
    pid = "C36"
    timeout = 60.0
    float_rel_floor = 1e-9
    rule = ("expression trees (<= 8 leaves) over arithmetic, integer/rational powers, the 12 trigonometric/hyperbolic functions "
            "and exp/log/sqrt/abs/asin/acos/atan/asinh of x, y with exact (few floating) numbers, I, pi, E. Judged at 3 "
            "generated points: as_numer_denom -> n/d == e and neither n nor d keeps a negative numeric exponent on its top "
            "level; as_real_imag -> re + I*im == e with re, im real-valued (both at positive real symbol values); "
            "rewrite_as_exp / rewrite_as_sin / rewrite_as_cos / expand_as_exp / trig_to_sqrt == e and conjugate(e) == complex "
            "conjugate of value(e) at generic complex points (poles, branch cuts skipped). Non-trivial: the transformation "
            "returned a structurally different tree; distinct by (transformation, recipe).")
    assumptions = ["mpmath principal branches are the reference", "library exceptions decline a transformation"]
    tiers = {"quick": {"examples": 2500}, "thorough": {"examples": 200000}}

    def strategy(self, tier):
        num = gen.weighted([(6, st.integers(-5, 5).map(lambda n: ["integer", n])), (3, st.builds(gen._rat, st.integers(-7, 7), st.integers(2, 4))),
                            (2, gen.gaussian(big=False)), (1, gen.real_double())])
        s = gen.sym(SYMS)
        leaves = gen.weighted([(3, num), (6, s), (1, gen.constant(("pi", "E", "I")))])
        expo = st.one_of(st.integers(-3, 3).map(lambda n: ["integer", n]), st.builds(gen._rat, st.integers(-3, 3), st.integers(2, 3)))

        def special(ch):
            return st.one_of(st.builds(lambda f, a: [f, a], st.sampled_from(TRIG), ch),
                             st.builds(lambda f, a: [f, a], st.sampled_from(TRIG), ch),
                             st.builds(lambda f, a: [f, a], st.sampled_from(OTHER), ch),
                             st.builds(lambda b, e: ["pow", b, e], ch, expo))
        e = gen.tree(leaves, unary=("neg",), binary=("add", "sub", "mul", "div"), max_leaves=7 if tier == "quick" else 10, special=special)
        return st.fixed_dictionaries({"e": e, "envs": gen.envs(names=SYMS, n=3),
                                      "penvs": gen.envs(names=SYMS, n=3, value=gen.pos_env_value())})

    def judge(self, case):
        rec, envs, penvs = case["e"], case["envs"], case["penvs"]
        refs, blocked = self.references(rec, envs)
        prefs, b2 = self.references(rec, penvs)
        if blocked or b2:
            self.skip("ref:overflow")
            return
        stmts = [rec, ["as_numer_denom", R(0)], ["as_real_imag", R(0)], ["rewrite_as_exp", R(0)], ["rewrite_as_sin", R(0)],
                 ["rewrite_as_cos", R(0)], ["expand_as_exp", R(0)], ["trig_to_sqrt", R(0)], ["conjugate", R(0)]]
        first = self.run(stmts[:1])
        if not is_exc(first[0]) and any(t in str(first[0]) for t in ("'Infty'", "'NaN'")):
            self.skip("expression_contains_infinity")   # (conjugate(x*zoo) is a bad downcast: recorded for C40)
            return
        res = self.run(stmts)
        if is_exc(res[0]):
            self.skip("assert_seen" if res[0]["exc"] == "VerifAssertFailure" else "declined:" + res[0]["exc"])
            return
        e0 = B(res[0])
        if any(t in str(e0) for t in ("'Infty'", "'NaN'")):
            self.skip("expression_contains_infinity")
            return
        desc = engine.sx(rec)[:300]
        judged = 0

        def declined(name, r):
            self.skip("assert_seen" if r["exc"] == "VerifAssertFailure" else "declined:%s:%s" % (name, r["exc"]))

        def run(name, got, at, rf, changed):
            nonlocal judged
            try:
                j = self.compare(rec, got, at, rf, what=name)
            except Violation as v:
                raise Violation("%s: %s" % (name, v.msg), v.detail)
            judged += j
            self.cls(name)
            if j and changed:
                self.nontriv((name, rec))
                self.cls("changed:" + name)
        # as_numer_denom
        r = res[1]
        if is_exc(r):
            declined("as_numer_denom", r)
        else:
            n, d = B(r[0]), B(r[1])
            for part, nm in ((n, "numerator"), (d, "denominator")):
                if neg_exponent_on_top(part):
                    raise Violation("%s: as_numer_denom leaves a negative exponent on the top level of the %s: %s" % (desc, nm, part),
                                    {"recipe": rec, "n": n, "d": d})
            run("as_numer_denom", ["Mul", ONE, [[n, ONE], [d, ["Integer", "-1"]]]], penvs, prefs, d != ONE)
        # as_real_imag
        r = res[2]
        if is_exc(r):
            declined("as_real_imag", r)
        else:
            re_, im_ = B(r[0]), B(r[1])
            for env in penvs:
                for part, nm in ((re_, "re"), (im_, "im")):
                    try:
                        v = on.stable_value(part, env, cut_guard=True)
                    except Unjudgeable:
                        continue
                    if abs(getattr(v, "imag", 0)) > 1e-20 * max(1, abs(v)):
                        raise Violation("%s: as_real_imag returned a non-real %s part %s (value %s at %s)" % (desc, nm, part, v, env),
                                        {"recipe": rec, "re": re_, "im": im_})
            run("as_real_imag", ["Add", ["Integer", "0"], [[re_, ONE], [im_, ["Complex", ["Integer", "0"], ONE]]]], penvs, prefs,
                im_ != ["Integer", "0"])
        for i, name in ((3, "rewrite_as_exp"), (4, "rewrite_as_sin"), (5, "rewrite_as_cos"), (6, "expand_as_exp"), (7, "trig_to_sqrt")):
            r = res[i]
            if is_exc(r):
                declined(name, r)
                continue
            run(name, B(r), envs, refs, B(r) != e0)
        r = res[8]
        if is_exc(r):
            declined("conjugate", r)
        else:
            with mp.workdps(80):
                crefs = [x if isinstance(x, Unjudgeable) else mp.mpc(x.real, -x.imag) for x in refs]
            run("conjugate", B(r), envs, crefs, B(r)[0] != "Conjugate")
        if judged:
            self.sample({"e": desc})


def _nodes(r):
    if isinstance(r, list) and r and isinstance(r[0], str):
        yield r
        for x in r[1:]:
            yield from _nodes(x)


def m_real_imag_pow_negative_base(case, v):
    """KF-C36-01: RealImagVisitor::bvisit(Pow) returns the power itself as the real part whenever the base has a zero
    imaginary part, also for negative bases with a non-integer exponent"""
    if "as_real_imag" not in v.msg:
        return False
    for n in _nodes(case["e"]):
        if n[0] == "exp":
            return True
        if n[0] in ("pow", "sqrt", "cbrt"):
            e = n[2] if n[0] == "pow" else ["rational", 1, 2]
            if not (isinstance(e, list) and e[0] == "integer"):
                return True
    return False


def m_real_imag_cot_sign(case, v):
    """KF-C36-02: RealImagVisitor::bvisit(Cot) has the wrong sign of the imaginary part"""
    return "as_real_imag" in v.msg and any(n[0] == "cot" for n in _nodes(case["e"]))


C36.matchers = {"real_imag_pow_negative_base": m_real_imag_pow_negative_base, "real_imag_cot_sign": m_real_imag_cot_sign}


if __name__ == "__main__":
    sys.exit(engine.main(C36))
