"""C32 Number-theoretic functions agree with their definitions.

Every function of ntheory.h / ntheory_funcs.h named in the property is bound as a driver op
(drv/ops_nt.cpp).  A case is a batch of argument tuples for one function.  Small boxes are
enumerated completely and judged by brute force in Python ints; Hypothesis adds multi-limb /
constructed-factorisation arguments judged by defining identities.  Conventions come from the
header comments; where the header leaves a choice open only the defining predicate is judged."""
import itertools
import math
import os
import sys
from fractions import Fraction

sys.path.insert(0, os.path.join(os.path.dirname(os.path.abspath(__file__)), ".."))
from hypothesis import strategies as st
from pbt import engine, ntref
from pbt.engine import Check, Violation, R, B, is_exc

PR = ntref.primes_upto(2000)
ODD_PR_100 = [p for p in PR if 2 < p < 100]
TWO64 = 2 ** 64


def _pool_primes():
    out = []
    for k in (20, 31, 32, 40, 61, 64, 65, 89, 127, 128, 200, 256):
        for off in (0, 12345):
            out.append(ntref.next_prime(2 ** k + off * (k + 1)))
    return out


BIGPR = _pool_primes()                       # large primes (Miller-Rabin certified in Python)
MIDPR = [ntref.next_prime(x) for x in (2100, 5000, 10 ** 4, 65536, 10 ** 5, 3 * 10 ** 5, 10 ** 6 - 100)]
# primes allowed inside numbers < 2^62 whose factorisation the library finds by walking the prime sieve: the walk
# must stay below ~8e5 or the sieve extension crosses a whole segment (heap overflow in Sieve::_extend, see C33)
MIDPR_S = [p for p in MIDPR if p < 400000]
OPR = PR[1:] + MIDPR
PSEUDO = [561, 1105, 1729, 2047, 2465, 2821, 6601, 8911, 1373653, 25326001, 3215031751, 2152302898747,
          3474749660383, 341550071728321, 3825123056546413051, 318665857834031151167461]

# ------------------------------------------------------------------ strategies
sint = st.integers(-40, 40)
big = st.one_of(st.integers(-2 ** 70, 2 ** 70), st.integers(-2 ** 200, 2 ** 200), st.integers(-2 ** 400, 2 ** 400),
                st.sampled_from([s * (2 ** k + d) for k in (31, 32, 63, 64, 65, 128) for d in (-1, 0, 1) for s in (1, -1)]))
anyint = st.one_of(sint, big, big)
bigpos = big.map(lambda v: abs(v) + 1)
nz = anyint.map(lambda v: v if v != 0 else 7)


def _build_fac(items, cap=2 ** 62):
    fac = {}
    n = 1
    for p, e in items:
        for _ in range(e):
            if n * p >= cap:
                break
            n *= p
            fac[p] = fac.get(p, 0) + 1
    return sorted(fac.items())


def fac_strategy(primes, max_e=4, max_len=5, cap=2 ** 62, min_size=1):
    return st.lists(st.tuples(st.sampled_from(primes), st.integers(1, max_e)), min_size=min_size,
                    max_size=max_len).map(lambda it: [list(x) for x in _build_fac(it, cap)])


odd_fac = fac_strategy(PR[1:] + MIDPR + BIGPR, cap=2 ** 700)    # odd n, known factorisation, multi-limb
kron_fac = fac_strategy(PR + BIGPR, cap=2 ** 700, min_size=0)
pp_fac = st.lists(st.sampled_from([(p, e) for p in PR if p < 72 for e in range(1, 13) if p ** e <= 5000]),
                  min_size=1, max_size=3).map(lambda it: [[p, e] for p, e in sorted(dict(it).items())])


def fac_n(fac):
    n = 1
    for p, e in fac:
        n *= p ** e
    return n


def frac_of(b):
    return Fraction(b[0], b[1])


def dump_frac(d):
    if isinstance(d, list) and d and d[0] == "Integer":
        return Fraction(int(d[1]))
    if isinstance(d, list) and d and d[0] == "Rational":
        return Fraction(int(d[1]), int(d[2]))
    return None


class Skip(Exception):
    pass


class OracleDisagreement(Exception):
    pass


def batches(name, it, size=120):
    buf = []
    for t in it:
        buf.append(list(t))
        if len(buf) == size:
            yield {"f": name, "args": buf}
            buf = []
    if buf:
        yield {"f": name, "args": buf}


def rng2(lo, hi, nonzero_second=False):
    for x in range(lo, hi + 1):
        for y in range(lo, hi + 1):
            if nonzero_second and y == 0:
                continue
            yield (x, y)


# ------------------------------------------------------------------ the check
class C32(Check):
    pid = "C32"
    exe = "driver_nt"
    builds = [("main", ("driver_nt",))]
    timeout = 120.0
    case_timeout = 120
    rule = ("case = batch of argument tuples for one ntheory function. Boxes enumerated completely (a,b in "
            "[-40,40] for gcd/lcm/gcd_ext/division conventions/kronecker; all 0<=a<m<=60, 1<=n<=8 for "
            "nthroot_mod(_list)/is_nth_residue; powermod(_list) with all reduced r/s, |r|<=4, s<=4, m<=30; crt for "
            "all modulus pairs <=14 (thorough 24) with all remainders; n<=2500 for factor*/prime_factors/mobius/"
            "nextprime/primepi/perfect powers; n<=300 primitive roots, ...) judged by brute force; Hypothesis adds "
            "multi-limb arguments (to 2^400) and numbers with constructed factorisation judged by defining "
            "identities. Non-trivial: tuple with a composite or prime-power modulus, a negative argument, or a "
            "value > 2^64; distinct by (function, tuple).")
    assumptions = ["Python int / Fraction arithmetic, math.gcd and three-argument pow are the reference",
                   "primality of large numbers: deterministic Miller-Rabin (13 bases) below 3.3e24, 33 fixed bases beyond",
                   "large moduli have factorisations known by construction; CRT reduces root counts to prime powers",
                   "library exceptions (SymEngineException etc.) = declined",
                   "probabilistic/Lehman factor methods are judged only when they claim success",
                   "conventions not fixed by ntheory.h (range of a modular inverse / CRT value / root, order of lists, sign of B1, n<=1 for primitive roots, totient(0)) are not judged"]
    tiers = {"quick": {"examples": 2400}, "thorough": {"examples": 80000}}
    exhaustive = True
    min_nontrivial = 50

    # ---------------------------------------------------------------- known findings (tags of known_findings.json)
    TAG_SIEVE = "ntheory_sieve_overflow"          # KF-C32-01: callers of the prime sieve hit the overflow of Sieve::_extend
    TAG_POLLARD = "pollard_n4"                    # KF-C32-02: Pollard p-1 / rho with n = 4 divide by zero in mpz_urandomm
    TAG_NEG = "nthroot_negative_a_mod4"           # KF-C32-03: nthroot_mod(_list) / is_nth_residue, a < 0 and 4 | m

    def setup_worker(self, tier):
        self.tier = tier

    # ---------------------------------------------------------------- enumeration
    def enumerate(self, tier):
        T = tier == "thorough"
        g = 60 if T else 40
        yield from batches("gcd", rng2(-g, g))
        yield from batches("lcm", rng2(-g, g))
        yield from batches("gcd_ext", rng2(-g, g))
        d = 45 if T else 30
        for f in ("mod", "quotient", "quotient_mod", "mod_f", "quotient_f", "quotient_mod_f", "divides"):
            yield from batches(f, rng2(-d, d, True))
        yield from batches("mod_inverse", ((a, m) for a in range(-d, d + 1) for m in range(-d, d + 1) if m != 0))
        cm = 24 if T else 14
        yield from batches("crt", (([r1, r2], [m1, m2]) for m1 in range(1, cm + 1) for m2 in range(1, cm + 1)
                                   for r1 in range(m1) for r2 in range(m2)))
        yield from batches("crt", (([r1, r2, r3], [m1, m2, m3]) for m1 in (2, 4, 6, 9) for m2 in (3, 4, 10) for m3 in (5, 6, 8)
                                   for r1 in range(-1, m1 + 1) for r2 in range(m2) for r3 in range(m3)))
        nseq = 1500 if T else 300
        for f in ("fibonacci", "lucas"):
            yield from batches(f, ((n,) for n in range(0, nseq)))
        for f in ("fibonacci2", "lucas2"):
            yield from batches(f, ((n,) for n in range(1, nseq)))
        yield from batches("binomial", ((n, k) for n in range(-30, 61) for k in range(0, 41)))
        yield from batches("factorial", ((n,) for n in range(0, 400 if T else 200)))
        nf = 20000 if T else 2500
        yield from batches("factor", ((n,) for n in range(2, nf)))
        yield from batches("factor_trial_division", ((n,) for n in range(2, nf)))
        yield from batches("factor_lehman", ((n,) for n in range(21, nf)))
        lo = 5 if self.tag_active(self.TAG_POLLARD) else 4
        if lo == 5:
            self.skip("known:" + self.TAG_POLLARD, 2)
        yield from batches("factor_pollard_pm1", ((n, b, 5) for n in range(lo, nf if T else 1500) for b in ((3, 10, 50) if n < 400 else (10,))))
        # rho documents n > 4: n = 4 must be declined with an exception (judged as declined), not kill the process
        yield from batches("factor_pollard_rho", ((n, 5) for n in range(lo, nf)))
        npf = nf if T else 1500
        yield from batches("prime_factors", ((n,) for n in range(-npf, npf) if n))
        yield from batches("prime_factor_multiplicities", ((n,) for n in range(-npf, npf) if n))
        yield from batches("bernoulli", ((n,) for n in range(0, 120 if T else 60)), 10)
        yield from batches("harmonic", ((n, m) for n in range(0, 41) for m in range(-3, 6)))
        npr = 700 if T else 300
        yield from batches("primitive_root", ((n,) for n in range(2, npr)), 20)
        yield from batches("primitive_root_list", ((n,) for n in range(2, npr)), 20)
        yield from batches("totient", ((n,) for n in range(1, 5000 if T else 1000)), 50)
        yield from batches("carmichael", ((n,) for n in range(1, 1500 if T else 600)), 20)
        mo = 140 if T else 80
        yield from batches("multiplicative_order", ((a, n) for n in range(1, mo + 1) for a in range(-5, n + 6)), 60)
        yield from batches("legendre", ((a, p) for p in ODD_PR_100 for a in range(-100, 101)))
        yield from batches("jacobi", ((a, n) for n in range(1, 100, 2) for a in range(-100, 101)))
        yield from batches("kronecker", rng2(-g, g))
        rm = 100 if T else 60
        rn = 10 if T else 8
        for f in ("nthroot_mod", "nthroot_mod_list", "is_nth_residue"):
            yield from batches(f, ((a, n, m) for m in range(1, rm + 1) for n in range(1, rn + 1) for a in range(m)))
        # negative a (the in-tree tests call nthroot_mod_list with a = -4); with the known defect present the
        # tuples with 4 | m are excluded
        nm = 60 if T else 40
        for f in ("nthroot_mod", "nthroot_mod_list", "is_nth_residue"):
            neg = [(a, n, m) for m in range(1, nm + 1) for n in range(1, 7) for a in range(-m - 2, 0)]
            if self.tag_active(self.TAG_NEG):
                self.skip("known:" + self.TAG_NEG, sum(1 for t in neg if t[2] % 4 == 0))
                neg = [t for t in neg if t[2] % 4 != 0]
            yield from batches(f, neg)
        bs = sorted({(Fraction(r, s).numerator, Fraction(r, s).denominator) for r in range(-4, 5) for s in range(1, 5)})
        pm = 48 if T else 30
        for f in ("powermod", "powermod_list"):
            yield from batches(f, ((a, [r, s], m) for m in range(1, pm + 1) for (r, s) in bs for a in range(m)))
        yield from batches("quadratic_residues", ((n,) for n in range(1, 1000 if T else 300)), 30)
        qm = 120 if T else 60
        yield from batches("is_quad_residue", ((a, p) for p in range(1, qm + 1) for a in range(-p - 2, 2 * p + 3)))
        yield from batches("mobius", ((n,) for n in range(1, nf)))
        yield from batches("mertens", ((n,) for n in range(0, 500 if T else 200)), 25)
        yield from batches("mp_polygonal_number", ((s, n) for s in range(3, 21) for n in range(1, 61)))
        yield from batches("polygonal_number", ((s, n) for s in range(3, 21) for n in range(1, 61)))
        yield from batches("mp_principal_polygonal_root", ((s, n) for s in range(3, 21) for n in range(1, 61)))
        yield from batches("principal_polygonal_root", ((s, n) for s in range(3, 21) for n in range(1, 61)))
        npp = 40000 if T else 5000
        yield from batches("perfect_power_decomposition", ((n, lw) for n in range(2, npp) for lw in (False, True)))
        yield from batches("perfect_power_p", ((n,) for n in range(2, npp)))
        yield from batches("perfect_square_p", ((n,) for n in range(0, npp)))
        yield from batches("nextprime", ((n,) for n in range(-5, nf)))
        yield from batches("probab_prime_p", ((n, 25) for n in range(0, 2 * nf)))
        yield from batches("probab_prime_p", ((n, 25) for n in PSEUDO + BIGPR + MIDPR))
        yield from batches("primepi", ((n, 1) for n in range(-3, nf if T else 800)), 40)
        yield from batches("primepi", ((n, q) for q in (2, 3, 7) for n in range(-7, 400 if T else 150)), 40)
        yield from batches("primorial", ((n, q) for q in (1, 2, 3) for n in range(1, 300)), 60)

    # ---------------------------------------------------------------- Hypothesis (large arguments)
    def strategy(self, tier):
        # while the sieve overflow is a listed known finding, numbers whose factorisation walks the prime sieve past
        # ~8e5 (and primepi above 1e6) are not generated; otherwise they are generated and judged normally
        sv = self.tag_active(self.TAG_SIEVE)
        if sv:
            self.skip("known:" + self.TAG_SIEVE)
        mid = MIDPR_S if sv else MIDPR
        nmax = 10 ** 12 if sv else 4 * 10 ** 12
        pimax = 10 ** 6 if sv else 2 * 10 ** 6
        smooth_fac = fac_strategy(PR + mid)                   # n < 2^62, every prime factor <= 1e6

        def crt_case(x0, mods, ks, spoil):
            mods = [abs(m) + 1 for m in mods]
            rem = [x0 % m + k * m for m, k in zip(mods, ks + [0] * len(mods))]
            if spoil and len(mods) >= 2:
                gcd = math.gcd(mods[0], mods[1])
                if gcd > 1:
                    rem[1] = rem[0] + 1 + gcd * spoil
            return [rem, mods]
        crt_s = st.builds(crt_case, anyint, st.lists(st.one_of(st.integers(0, 60), big), min_size=1, max_size=4),
                          st.lists(st.integers(-3, 3), max_size=4), st.integers(0, 5))
        pp = st.one_of(st.builds(lambda b, e: b ** e, st.integers(2, 2 ** 18), st.integers(1, 7)),
                       st.builds(lambda b, e: b ** e, st.integers(2, 30), st.integers(1, 25)))
        ppn = st.one_of(pp, pp.map(lambda v: v + 1), st.integers(2, 2 ** 130))
        semiprime = st.builds(lambda p, q: p * q, st.sampled_from(PR + MIDPR), st.sampled_from(PR + MIDPR))
        n12 = st.one_of(st.integers(2, nmax), semiprime, smooth_fac.map(fac_n).filter(lambda v: v > 1))
        pollard_n = st.one_of(n12, st.builds(lambda p, q: p * q, st.sampled_from(PR + MIDPR + BIGPR[:8]),
                                             st.sampled_from(PR + MIDPR + BIGPR[:8])))
        prim_n = st.builds(lambda p, k, two: [p, k, two], st.sampled_from(PR[1:] + MIDPR), st.integers(1, 4), st.booleans())
        root_args = st.builds(lambda fac, x, n, direct, a: [fac, (pow(x, n, fac_n(fac)) if direct else a % fac_n(fac)), n],
                              pp_fac, st.integers(0, 10 ** 12), st.integers(1, 12), st.booleans(), st.integers(0, 10 ** 12))
        bfrac = st.builds(lambda r, s: [Fraction(r, s).numerator, Fraction(r, s).denominator], st.integers(-6, 6), st.integers(1, 6))
        pw_args = st.builds(lambda fac, x, b, direct, a: [fac, (pow(x, b[1], fac_n(fac)) if direct and b[0] == 1 else a % fac_n(fac)), b],
                            pp_fac, st.integers(0, 10 ** 12), bfrac, st.booleans(), st.integers(0, 10 ** 12))
        table = {
            "gcd": st.tuples(anyint, anyint), "lcm": st.tuples(anyint, anyint), "gcd_ext": st.tuples(anyint, anyint),
            "mod": st.tuples(anyint, nz), "quotient": st.tuples(anyint, nz), "quotient_mod": st.tuples(anyint, nz),
            "mod_f": st.tuples(anyint, nz), "quotient_f": st.tuples(anyint, nz), "quotient_mod_f": st.tuples(anyint, nz),
            "divides": st.one_of(st.tuples(anyint, nz), st.builds(lambda a, b: (a * b, b), anyint, nz)),
            "mod_inverse": st.tuples(anyint, nz),
            "crt": crt_s,
            "fibonacci": st.tuples(st.integers(0, 5000)), "lucas": st.tuples(st.integers(0, 5000)),
            "fibonacci2": st.tuples(st.integers(1, 5000)), "lucas2": st.tuples(st.integers(1, 5000)),
            "binomial": st.tuples(st.one_of(st.integers(-200, 400), big), st.integers(0, 60)),
            "factorial": st.tuples(st.integers(0, 3000)),
            "factor": st.tuples(n12), "factor_trial_division": st.tuples(n12),
            "factor_lehman": st.tuples(st.one_of(st.integers(21, 10 ** 8), semiprime.filter(lambda v: 21 <= v < 10 ** 9))),
            "factor_pollard_pm1": st.tuples(pollard_n.filter(lambda v: v > 4), st.sampled_from([3, 10, 100, 1000]), st.integers(1, 6)),
            "factor_pollard_rho": st.tuples(pollard_n.filter(lambda v: v > 4), st.integers(1, 6)),
            "prime_factors": st.tuples(st.one_of(n12, n12.map(lambda v: -v))),
            "prime_factor_multiplicities": st.tuples(st.one_of(n12, n12.map(lambda v: -v))),
            "bernoulli": st.tuples(st.integers(0, 130)),
            "harmonic": st.tuples(st.integers(0, 300), st.integers(-4, 8)),
            "primitive_root_big": prim_n,
            "primitive_root_none": st.tuples(st.one_of(st.builds(lambda i, d, e: OPR[i] ** e * OPR[(i + d) % len(OPR)], st.integers(0, len(OPR) - 1),
                                                                 st.integers(1, len(OPR) - 1), st.integers(1, 2)),
                                                       st.integers(2, 10 ** 6).map(lambda v: 4 * v))),
            "primitive_root_list_big": st.builds(lambda p, k, two: [p, k, two], st.sampled_from(PR[1:60]), st.integers(1, 2), st.booleans()),
            "totient_fac": st.tuples(smooth_fac), "carmichael_fac": st.tuples(smooth_fac), "mobius_fac": st.tuples(fac_strategy(PR + mid, max_e=2)),
            "multiplicative_order_fac": st.tuples(st.one_of(st.integers(-10 ** 6, 10 ** 6), big), smooth_fac),
            "legendre": st.tuples(anyint, st.sampled_from(BIGPR + MIDPR + PR[1:])),
            "jacobi_fac": st.tuples(anyint, odd_fac),
            "kronecker_fac": st.tuples(anyint, kron_fac, st.sampled_from([1, -1, 0])),
            "nthroot_mod_fac": root_args, "nthroot_mod_list_fac": root_args, "is_nth_residue_fac": root_args,
            "powermod_fac": pw_args, "powermod_list_fac": pw_args,
            "powermod_int": st.tuples(anyint, st.one_of(st.integers(-50, 50), big), bigpos),
            "is_quad_residue_fac": st.tuples(anyint, pp_fac),
            "mp_polygonal_number": st.tuples(bigpos.map(lambda v: v + 2), bigpos), "polygonal_number": st.tuples(bigpos.map(lambda v: v + 2), bigpos),
            "mp_principal_polygonal_root": st.tuples(bigpos.map(lambda v: v + 2), bigpos), "principal_polygonal_root": st.tuples(bigpos.map(lambda v: v + 2), bigpos),
            "perfect_power_decomposition": st.tuples(ppn, st.booleans()), "perfect_power_p": st.tuples(ppn),
            "perfect_square_p": st.tuples(st.one_of(bigpos.map(lambda v: v * v), bigpos)),
            "nextprime": st.tuples(st.one_of(st.integers(-10, 10 ** 7), big.map(abs), st.sampled_from(BIGPR).map(lambda p: p - 1))),
            "probab_prime_p": st.tuples(st.one_of(st.sampled_from(BIGPR + MIDPR + PSEUDO), st.integers(0, 10 ** 9),
                                                  st.builds(lambda p, q: p * q, st.sampled_from(BIGPR), st.sampled_from(BIGPR)), bigpos),
                                        st.sampled_from([1, 5, 25])),
            "primepi": st.tuples(st.one_of(st.integers(-10, 10 ** 5), st.integers(-10, pimax)), st.integers(1, 9)),
            "primorial": st.tuples(st.integers(1, 20000), st.integers(1, 9)),
        }
        self.big_names = sorted(table)
        alts = [st.fixed_dictionaries({"f": st.just(name), "args": st.lists(s.map(list), min_size=1, max_size=5)})
                for name, s in sorted(table.items())]
        return st.one_of(alts)

    # ---------------------------------------------------------------- judge
    def run(self, stmts, timeout=None):
        if self.drv is None:
            # a smaller ASan quarantine: the ntheory routines allocate thousands of short-lived mpz temporaries per
            # call and the default 256 MB quarantine makes the driver ~5x slower (page faults), nothing else changes
            self.drv = engine.Driver(self.variant, self.exe, self.timeout,
                                     env={"ASAN_OPTIONS": engine.ASAN_OPTIONS + ":quarantine_size_mb=16"})
        return self.drv.run(stmts, timeout)

    def judge(self, case):
        name = case["f"]
        fn = getattr(self, "f_" + name)
        # Sieve::set_clear(false) keeps the prime cache between the calls of one program (every program starts from
        # the reset state).  With the default (true) each sieve user re-sieves from 29, which costs 10-60 ms per call
        # under ASan.  One batch in eight keeps the default so that both configurations are exercised.
        key = repr(case["args"][0])
        keep_default = (sum(key.encode()) % 8 == 0)
        stmts = [["sieve_set_clear", bool(keep_default)]]
        self.cls("sieve_clear_default" if keep_default else "sieve_clear_off")
        for args in case["args"]:
            stmts.append(fn(args, None))
        res = self.run(stmts)[1:]
        for args, r in zip(case["args"], res):
            self.count()
            self.cls(name)
            if is_exc(r):
                if r["exc"] == "VerifAssertFailure":
                    self.skip("assert_seen")
                else:
                    self.skip("declined:%s:%s" % (name, r["exc"]))
                continue
            try:
                msg = fn(args, r)
            except Skip as s:
                self.skip(str(s))
                continue
            if msg is not None:
                raise Violation("%s%s returned %s: %s" % (name, tuple(args), _short(r), msg),
                                {"function": name, "args": args, "got": r, "why": msg})
            if self.is_nontrivial(name, args):
                self.nontriv((name, args))
            self.sample({"f": name, "args": args, "result": _short(r)})

    def is_nontrivial(self, name, args):
        def ints(x):
            if isinstance(x, bool):
                return
            if isinstance(x, int):
                yield x
            elif isinstance(x, (list, tuple)):
                for y in x:
                    yield from ints(y)
        vals = list(ints(args))
        if any(v < 0 for v in vals) or any(abs(v) > TWO64 for v in vals):
            return True
        if name.endswith("_fac") or name.endswith("_big"):
            return True
        if name in MODULAR:
            m = args[MODULAR[name]]
            if isinstance(m, list):
                return any(not ntref.is_prime(x) for x in m if x > 1)
            return m > 3 and not ntref.is_prime(m)
        return False

    # second opinion: called only when library and reference disagree
    def second(self, what, got, exp, sym):
        """returns a violation message, or raises OracleDisagreement when sympy sides with the library"""
        if sym is not None:
            try:
                import warnings
                with warnings.catch_warnings():
                    warnings.simplefilter("ignore")
                    sv = sym()
            except Exception:
                sv = None
            if sv is not None and sv == got and sv != exp:
                raise OracleDisagreement("%s: reference says %r but sympy and the library say %r" % (what, exp, got))
        return "expected %s" % (_short(exp),)

    def eq(self, what, got, exp, sym=None):
        if got == exp:
            return None
        return self.second(what, got, exp, sym)

    # ---------------------------------------------------------------- gcd & division
    def f_gcd(self, a, r):
        if r is None:
            return ["nt_gcd", a[0], a[1]]
        return self.eq("gcd", r, math.gcd(a[0], a[1]))

    def f_lcm(self, a, r):
        if r is None:
            return ["nt_lcm", a[0], a[1]]
        return self.eq("lcm", r, math.lcm(a[0], a[1]))

    def f_gcd_ext(self, a, r):
        if r is None:
            return ["nt_gcd_ext", a[0], a[1]]
        g, s, t = r
        if g != math.gcd(a[0], a[1]):
            return "g is not the gcd %d" % math.gcd(a[0], a[1])
        if s * a[0] + t * a[1] != g:
            return "s*a + t*b != g"
        return None

    def f_mod(self, a, r):
        if r is None:
            return ["nt_mod", a[0], a[1]]
        return self.eq("mod", r, ntref.tdivmod(a[0], a[1])[1])

    def f_quotient(self, a, r):
        if r is None:
            return ["nt_quotient", a[0], a[1]]
        return self.eq("quotient", r, ntref.tdivmod(a[0], a[1])[0])

    def f_quotient_mod(self, a, r):
        if r is None:
            return ["nt_quotient_mod", a[0], a[1]]
        return self.eq("quotient_mod", r, list(ntref.tdivmod(a[0], a[1])))

    def f_mod_f(self, a, r):
        if r is None:
            return ["nt_mod_f", a[0], a[1]]
        return self.eq("mod_f", r, a[0] % a[1])

    def f_quotient_f(self, a, r):
        if r is None:
            return ["nt_quotient_f", a[0], a[1]]
        return self.eq("quotient_f", r, a[0] // a[1])

    def f_quotient_mod_f(self, a, r):
        if r is None:
            return ["nt_quotient_mod_f", a[0], a[1]]
        return self.eq("quotient_mod_f", r, [a[0] // a[1], a[0] % a[1]])

    def f_divides(self, a, r):
        if r is None:
            return ["nt_divides", a[0], a[1]]
        return self.eq("divides", r, a[0] % a[1] == 0)

    def f_mod_inverse(self, a, r):
        if r is None:
            return ["nt_mod_inverse", a[0], a[1]]
        x, m = a[0], abs(a[1])
        if m == 1:
            raise Skip("unjudged:unit_modulus")
        ret, b = r
        exists = math.gcd(x, m) == 1
        if bool(ret) != exists:
            return "inverse %s but return value %d" % ("exists" if exists else "does not exist", ret)
        if exists and (x * b - 1) % m != 0:
            return "a*b != 1 (mod m)"
        return None

    def f_crt(self, a, r):
        rem, mods = a
        if r is None:
            return ["nt_crt", ["list"] + list(rem), ["list"] + list(mods)]
        ok, x = r
        l = 1
        for m in mods:
            l = math.lcm(l, m)
        solv = ntref.crt_solvable(rem[:len(mods)], mods)
        if l <= 4000 and len(mods) <= 3:
            bx = ntref.crt_brute(rem[:len(mods)], mods)
            if (bx is not None) != solv:
                raise OracleDisagreement("crt brute force vs compatibility theorem on %r" % (a,))
        if ok != solv:
            return "a solution %s" % ("exists" if solv else "does not exist")
        if ok and any((x - ri) % m != 0 for ri, m in zip(rem, mods)):
            return "returned value violates a congruence"
        return None

    # ---------------------------------------------------------------- sequences
    def f_fibonacci(self, a, r):
        if r is None:
            return ["nt_fibonacci", a[0]]
        return self.eq("fibonacci", r, ntref.fib(a[0]))

    def f_fibonacci2(self, a, r):
        if r is None:
            return ["nt_fibonacci2", a[0]]
        return self.eq("fibonacci2", r, [ntref.fib(a[0]), ntref.fib(a[0] - 1)])

    def f_lucas(self, a, r):
        if r is None:
            return ["nt_lucas", a[0]]
        return self.eq("lucas", r, ntref.lucas(a[0]))

    def f_lucas2(self, a, r):
        if r is None:
            return ["nt_lucas2", a[0]]
        return self.eq("lucas2", r, [ntref.lucas(a[0]), ntref.lucas(a[0] - 1)])

    def f_binomial(self, a, r):
        if r is None:
            return ["nt_binomial", a[0], a[1]]
        return self.eq("binomial", r, ntref.binomial(a[0], a[1]), lambda: int(_sympy().binomial(a[0], a[1])))

    def f_factorial(self, a, r):
        if r is None:
            return ["nt_factorial", a[0]]
        return self.eq("factorial", r, math.factorial(a[0]))

    def f_bernoulli(self, a, r):
        if r is None:
            return ["nt_bernoulli", a[0]]
        got = dump_frac(B(r))
        if got is None:
            return "not an exact rational"
        exp = ntref.bernoulli(a[0])
        if a[0] == 1:
            return None if abs(got) == Fraction(1, 2) else "B1 must be +-1/2"
        return self.eq("bernoulli", got, exp, lambda: Fraction(int(_sympy().bernoulli(a[0]).p), int(_sympy().bernoulli(a[0]).q)))

    def f_harmonic(self, a, r):
        if r is None:
            return ["nt_harmonic", a[0], a[1]]
        got = dump_frac(B(r))
        if got is None:
            return "not an exact rational"
        return self.eq("harmonic", got, ntref.harmonic(a[0], a[1]))

    # ---------------------------------------------------------------- factoring
    def _factor_strict(self, a, r):
        n = a[0]
        ret, f = r
        if ret:
            if f is None or not (1 < f < n and n % f == 0):
                return "claims a factor but %r is not a proper divisor" % (f,)
        elif not ntref.is_prime(n):
            return "reports no factor for a composite number"
        return None

    def _factor_claim(self, a, r):
        n = a[0]
        ret, f = r
        if ret:
            if f is None or not (1 < f < n and n % f == 0):
                return "claims a factor but %r is not a proper divisor" % (f,)
            self.cls("factor_claim_ok")
        else:
            self.cls("factor_miss_composite" if not ntref.is_prime(n) else "factor_none_prime")
        return None

    def f_factor(self, a, r):
        if r is None:
            return ["nt_factor", a[0]]
        return self._factor_strict(a, r)

    def f_factor_trial_division(self, a, r):
        if r is None:
            return ["nt_factor_trial_division", a[0]]
        return self._factor_strict(a, r)

    def f_factor_lehman(self, a, r):
        if r is None:
            return ["nt_factor_lehman", a[0]]
        return self._factor_claim(a, r)

    def f_factor_pollard_pm1(self, a, r):
        if r is None:
            return ["nt_factor_pollard_pm1", a[0], a[1], a[2]]
        return self._factor_claim(a, r)

    def f_factor_pollard_rho(self, a, r):
        if r is None:
            return ["nt_factor_pollard_rho", a[0], a[1]]
        return self._factor_claim(a, r)

    def f_prime_factors(self, a, r):
        if r is None:
            return ["nt_prime_factors", a[0]]
        prod = 1
        for p in r:
            prod *= p
            if not ntref.is_prime(p):
                return "%d is not prime" % p
        if prod != abs(a[0]):
            return "product of the list is %d" % prod
        if r != sorted(r):
            self.cls("prime_factors_unsorted")
        return None

    def f_prime_factor_multiplicities(self, a, r):
        if r is None:
            return ["nt_prime_factor_multiplicities", a[0]]
        prod = 1
        seen = set()
        for p, e in r:
            if not ntref.is_prime(p):
                return "%d is not prime" % p
            if e < 1 or p in seen:
                return "bad multiplicity / repeated prime"
            seen.add(p)
            prod *= p ** e
        if prod != abs(a[0]):
            return "product is %d" % prod
        return None

    # ---------------------------------------------------------------- primes
    def f_probab_prime_p(self, a, r):
        if r is None:
            return ["nt_probab_prime_p", a[0], a[1]]
        if r not in (0, 1, 2):
            return "result outside {0,1,2}"
        isp = ntref.is_prime(a[0])
        if a[0] < 200000 and isp != ntref.is_prime_def(a[0]):
            raise OracleDisagreement("is_prime(%d)" % a[0])
        if isp and r == 0:
            return "a prime is reported composite"
        if not isp and r == 2:
            return "a composite is reported as certainly prime"
        if not isp and r == 1:
            # a strong pseudoprime surviving `reps` rounds: possible in principle, never for reps = 25
            if a[1] >= 25:
                return "a composite is reported probably prime after 25 rounds"
            raise Skip("unjudged:probable_prime_composite_few_reps")
        return None

    def f_nextprime(self, a, r):
        if r is None:
            return ["nt_nextprime", a[0]]
        if r <= a[0] or not ntref.is_prime(r):
            return "not a prime greater than the argument"
        lo = max(a[0] + 1, 2)
        if r - lo > 20000:
            return "a prime gap of more than 20000 below 2^400 does not exist (result too large)"
        for x in range(lo, r):
            if ntref.is_prime(x):
                return "skipped the prime %d" % x
        return None

    def f_primepi(self, a, r):
        n, q = a
        if r is None:
            x = Fraction(n, q)
            return ["primepi", ["integer", x.numerator] if x.denominator == 1 else ["rational", x.numerator, x.denominator]]
        got = dump_frac(B(r))
        if got is None:
            return "not an integer"
        x = Fraction(n, q)
        return self.eq("primepi", got, ntref.primepi(math.floor(x)), lambda: int(_sympy().primepi(math.floor(x))) if x >= 0 else 0)

    def f_primorial(self, a, r):
        n, q = a
        if r is None:
            x = Fraction(n, q)
            return ["primorial", ["integer", x.numerator] if x.denominator == 1 else ["rational", x.numerator, x.denominator]]
        got = dump_frac(B(r))
        if got is None:
            return "not an integer"
        x = Fraction(n, q)
        if x <= 0:
            raise Skip("unjudged:nonpositive")
        return self.eq("primorial", got, ntref.primorial(math.floor(x)))

    # ---------------------------------------------------------------- multiplicative group
    def f_primitive_root(self, a, r):
        n = a[0]
        if r is None:
            return ["nt_primitive_root", n]
        ok, g = r
        roots = ntref.primitive_roots_brute(n)
        if ok != bool(roots):
            return "a primitive root %s" % ("exists, e.g. %d" % roots[0] if roots else "does not exist")
        if ok:
            if g % n not in roots:
                return "%d is not a primitive root" % g
            if ntref.is_prime_def(n) and g != roots[0]:
                return self.second("primitive_root", g, roots[0], lambda: int(_snt().primitive_root(n)))
        return None

    def f_primitive_root_big(self, a, r):
        p, k, two = a
        n = p ** k * (2 if two else 1)
        if r is None:
            return ["nt_primitive_root", n]
        ok, g = r
        if not ok:
            return "a primitive root exists modulo p^k and 2p^k (p=%d, k=%d)" % (p, k)
        phi = (p - 1) * p ** (k - 1)
        fac = ntref.factorint(p - 1)
        if k > 1:
            fac[p] = fac.get(p, 0) + k - 1
        if math.gcd(g, n) != 1 or not ntref.order_check(g, n, phi, fac):
            return "%d does not have order phi(n)=%d" % (g, phi)
        if k == 1 and not two:
            for h in range(1, min(g, 5000)):
                if ntref.order_check(h, n, phi, fac):
                    return "%d is a smaller primitive root of the prime" % h
        return None

    def f_primitive_root_none(self, a, r):
        n = a[0]
        if r is None:
            return ["nt_primitive_root", n]
        fac = ntref.factorint(n)
        odd = [p for p in fac if p != 2]
        exists = n in (2, 4) or (len(odd) == 1 and fac.get(2, 0) <= 1)
        if exists:
            raise Skip("unjudged:has_root")
        if r[0]:
            return "no primitive root exists (n is not 2, 4, p^k, 2p^k)"
        return None

    def f_primitive_root_list(self, a, r):
        n = a[0]
        if r is None:
            return ["nt_primitive_root_list", n]
        roots = ntref.primitive_roots_brute(n)
        if sorted(r) != roots:
            extra = sorted(set(r) - set(roots))
            miss = sorted(set(roots) - set(r))
            return "list differs from the primitive roots in [1,n): extra %s missing %s%s" % (
                extra[:5], miss[:5], " (repeats)" if len(set(r)) != len(r) else "")
        if r != roots:
            self.cls("primitive_root_list_unsorted")
        return None

    def f_primitive_root_list_big(self, a, r):
        p, k, two = a
        n = p ** k * (2 if two else 1)
        if r is None:
            return ["nt_primitive_root_list", n]
        phi = (p - 1) * p ** (k - 1)
        fac = ntref.factorint(phi)
        want = ntref.totient_fac(fac)
        if len(set(r)) != len(r):
            return "repeated entries"
        if len(r) != want:
            return "%d roots listed, phi(phi(n)) = %d" % (len(r), want)
        for g in r:
            if not (0 < g < n) or math.gcd(g, n) != 1 or not ntref.order_check(g, n, phi, fac):
                return "%d is not a primitive root below n" % g
        return None

    def f_totient(self, a, r):
        if r is None:
            return ["nt_totient", a[0]]
        return self.eq("totient", r, ntref.phi_brute(a[0]), lambda: int(_sfn().totient(a[0])))

    def f_totient_fac(self, a, r):
        n = fac_n(a[0])
        if r is None:
            return ["nt_totient", n]
        return self.eq("totient", r, ntref.totient_fac(dict(map(tuple, a[0]))))

    def f_carmichael(self, a, r):
        n = a[0]
        if r is None:
            return ["nt_carmichael", n]
        if n <= 150:
            return self.eq("carmichael", r, ntref.carmichael_brute(n), lambda: int(_sfn().reduced_totient(n)))
        if not ntref.is_exponent_of_group(n, r):
            return self.second("carmichael", r, ntref.carmichael_fac(ntref.factorint(n)), lambda: int(_sfn().reduced_totient(n)))
        return None

    def f_carmichael_fac(self, a, r):
        n = fac_n(a[0])
        if r is None:
            return ["nt_carmichael", n]
        return self.eq("carmichael", r, ntref.carmichael_fac(dict(map(tuple, a[0]))))

    def f_mobius_fac(self, a, r):
        n = fac_n(a[0])
        if r is None:
            return ["nt_mobius", n]
        return self.eq("mobius", r, ntref.mobius_fac(dict(map(tuple, a[0]))))

    def f_multiplicative_order(self, a, r):
        x, n = a
        if r is None:
            return ["nt_multiplicative_order", x, n]
        ok, o = r
        exp = ntref.order_brute(x, n)
        if ok != (exp is not None):
            return "order %s" % ("exists" if exp is not None else "does not exist")
        if ok:
            return self.eq("multiplicative_order", o, exp, lambda: int(_snt().n_order(x, n)) if n > 1 else None)
        return None

    def f_multiplicative_order_fac(self, a, r):
        x, fac = a
        n = fac_n(fac)
        if r is None:
            return ["nt_multiplicative_order", x, n]
        ok, o = r
        cop = math.gcd(x, n) == 1
        if ok != cop:
            return "order %s" % ("exists" if cop else "does not exist")
        if ok:
            lam = ntref.carmichael_fac(dict(map(tuple, fac)))
            if o < 1 or lam % o != 0:
                return "order does not divide lambda(n)"
            if not ntref.order_check(x, n, o, ntref.factorint(o)):
                return "a**o != 1 or a smaller exponent works"
        return None

    def f_legendre(self, a, r):
        if r is None:
            return ["nt_legendre", a[0], a[1]]
        exp = ntref.legendre(a[0], a[1])
        if a[1] < 200 and exp != ntref.legendre_def(a[0], a[1]):
            raise OracleDisagreement("legendre%r" % (a,))
        return self.eq("legendre", r, exp, lambda: int(_sfn().legendre_symbol(a[0], a[1])))

    def f_jacobi(self, a, r):
        if r is None:
            return ["nt_jacobi", a[0], a[1]]
        return self.eq("jacobi", r, ntref.jacobi(a[0], a[1]), lambda: int(_sfn().jacobi_symbol(a[0], a[1])))

    def f_jacobi_fac(self, a, r):
        n = fac_n(a[1])
        if r is None:
            return ["nt_jacobi", a[0], n]
        return self.eq("jacobi", r, ntref.jacobi(a[0], n, dict(map(tuple, a[1]))), lambda: int(_sfn().jacobi_symbol(a[0], n)))

    def f_kronecker(self, a, r):
        if r is None:
            return ["nt_kronecker", a[0], a[1]]
        return self.eq("kronecker", r, ntref.kronecker(a[0], a[1]), lambda: int(_sfn().kronecker_symbol(a[0], a[1])))

    def f_kronecker_fac(self, a, r):
        n = fac_n(a[1]) * a[2]
        if r is None:
            return ["nt_kronecker", a[0], n]
        return self.eq("kronecker", r, ntref.kronecker(a[0], n, dict(map(tuple, a[1])) if n else None),
                       lambda: int(_sfn().kronecker_symbol(a[0], n)))

    # ---------------------------------------------------------------- modular roots and powers
    def _roots_sym(self, x, n, m):
        def f():
            if m < 2:
                return None
            sr = _snt().nthroot_mod(x, n, m, all_roots=True)
            return sorted(int(v) for v in (sr or []))
        return f

    def f_nthroot_mod(self, a, r):
        x, n, m = a
        if r is None:
            return ["nt_nthroot_mod", x, n, m]
        ok, root = r
        sols = ntref.nth_roots_brute(x, n, m)
        if ok != bool(sols):
            if ok and pow(root, n, m) == x % m:
                raise OracleDisagreement("nthroot_mod%r" % (a,))
            return self.second("nthroot_mod", ([root % m] if ok else []), sols, self._roots_sym(x, n, m)) + (" (solutions %s)" % sols[:6])
        if ok and root % m not in sols:
            return "%d**%d != %d (mod %d)" % (root, n, x, m)
        return None

    def f_nthroot_mod_list(self, a, r):
        x, n, m = a
        if r is None:
            return ["nt_nthroot_mod_list", x, n, m]
        sols = ntref.nth_roots_brute(x, n, m)
        red = self._residues(r, m)
        if red != sols:
            return self.second("nthroot_mod_list", red, sols, self._roots_sym(x, n, m))
        return None

    def f_is_nth_residue(self, a, r):
        x, n, m = a
        if r is None:
            return ["nt_is_nth_residue", x, n, m]
        exp = (x % m) in {pow(i, n, m) for i in range(m)}
        return self.eq("is_nth_residue", r, exp, lambda: bool(_snt().is_nthpow_residue(x, n, m)))

    def _residues(self, r, m):
        """the listed values as sorted residues; ntheory.h does not fix the representatives (the library returns
        e.g. [-5,-1,1,5] for the square roots of 1 modulo 8), so only the residue classes are judged"""
        if any(not (0 <= v < m) for v in r):
            self.cls("noncanonical_representative_in_list")
        elif list(r) != sorted(r):
            self.cls("root_list_unsorted")
        return sorted(v % m for v in r)

    def _count_fac(self, x, n, fac):
        cnt = 1
        for p, e in fac:
            cnt *= ntref.count_roots_pp(x, n, p ** e)
        return cnt

    def f_nthroot_mod_fac(self, a, r):
        fac, x, n = a
        m = fac_n(fac)
        if r is None:
            return ["nt_nthroot_mod", x, n, m]
        ok, root = r
        cnt = self._count_fac(x, n, fac)
        if ok != (cnt > 0):
            return "%d solutions exist" % cnt
        if ok and pow(root, n, m) != x % m:
            return "root**n != a (mod m)"
        return None

    def f_nthroot_mod_list_fac(self, a, r):
        fac, x, n = a
        m = fac_n(fac)
        if r is None:
            cnt = self._count_fac(x, n, fac)
            if cnt > 20000:
                return ["nt_nthroot_mod", x, n, m]  # would list too many roots: ask for one
            return ["nt_nthroot_mod_list", x, n, m]
        cnt = self._count_fac(x, n, fac)
        if cnt > 20000:
            raise Skip("resource:too_many_roots")
        if len(set(self._residues(r, m))) != len(r):
            return "repeated roots"
        for v in r:
            if pow(v, n, m) != x % m:
                return "%d is not a root" % v
        if len(r) != cnt:
            return "%d roots listed, %d exist (product of prime-power counts)" % (len(r), cnt)
        return None

    def f_is_nth_residue_fac(self, a, r):
        fac, x, n = a
        m = fac_n(fac)
        if r is None:
            return ["nt_is_nth_residue", x, n, m]
        return self.eq("is_nth_residue", r, self._count_fac(x, n, fac) > 0)

    def f_is_quad_residue(self, a, r):
        x, p = a
        if r is None:
            return ["nt_is_quad_residue", x, p]
        exp = (x % p) in {i * i % p for i in range(p)}
        return self.eq("is_quad_residue", r, exp, lambda: bool(_snt().is_quad_residue(x, p)) if p > 1 else None)

    def f_is_quad_residue_fac(self, a, r):
        x, fac = a
        m = fac_n(fac)
        if r is None:
            return ["nt_is_quad_residue", x, m]
        return self.eq("is_quad_residue", r, self._count_fac(x, 2, fac) > 0)

    def f_quadratic_residues(self, a, r):
        n = a[0]
        if r is None:
            return ["nt_quadratic_residues", n]
        return self.eq("quadratic_residues", r, sorted({i * i % n for i in range(n)}))

    def _pow_op(self, op, x, b, m):
        bb = b[0] if b[1] == 1 else ["rational", b[0], b[1]]
        return [op, x, bb, m]

    def _pow_solutions(self, x, b, m):
        """all solutions in [0,m) of y**s == x**r (mod m); None target -> []"""
        t = ntref.modpow_target(x, b[0], m)
        if t is None:
            return []
        return ntref.nth_roots_brute(t, b[1], m)

    def f_powermod(self, a, r):
        x, b, m = a
        if r is None:
            return self._pow_op("nt_powermod", x, b, m)
        ok, v = r
        sols = self._pow_solutions(x, b, m)
        if ok != bool(sols):
            return "%d solutions exist: %s" % (len(sols), sols[:6])
        if ok and v % m not in sols:
            return "value is not a solution of y**s == a**r (mod m)"
        return None

    def f_powermod_list(self, a, r):
        x, b, m = a
        if r is None:
            return self._pow_op("nt_powermod_list", x, b, m)
        sols = self._pow_solutions(x, b, m)
        if self._residues(r, m) != sols:
            return "solutions of y**s == a**r (mod m) in [0,m) are %s" % (sols[:12],)
        return None

    def f_powermod_int(self, a, r):
        x, e, m = a
        if r is None:
            return ["nt_powermod", x, e, m]
        ok, v = r
        t = ntref.modpow_target(x, e, m)
        if ok != (t is not None):
            return "a**b mod m %s" % ("exists" if t is not None else "does not exist")
        if ok and (v - t) % m != 0:
            return "value != a**b (mod m)"
        return None

    def _pow_fac(self, a):
        fac, x, b = a
        m = fac_n(fac)
        t = ntref.modpow_target(x, b[0], m)
        cnt = 0 if t is None else self._count_fac(t, b[1], fac)
        return m, x, b, t, cnt

    def f_powermod_fac(self, a, r):
        m, x, b, t, cnt = self._pow_fac(a)
        if r is None:
            return self._pow_op("nt_powermod", x, b, m)
        ok, v = r
        if ok != (cnt > 0):
            return "%d solutions exist" % cnt
        if ok and pow(v, b[1], m) != t % m:
            return "value**s != a**r (mod m)"
        return None

    def f_powermod_list_fac(self, a, r):
        m, x, b, t, cnt = self._pow_fac(a)
        if r is None:
            if cnt > 20000:
                return self._pow_op("nt_powermod", x, b, m)
            return self._pow_op("nt_powermod_list", x, b, m)
        if cnt > 20000:
            raise Skip("resource:too_many_roots")
        if len(set(self._residues(r, m))) != len(r):
            return "repeated solutions"
        for v in r:
            if pow(v, b[1], m) != t % m:
                return "%d is not a solution" % v
        if len(r) != cnt:
            return "%d solutions listed, %d exist" % (len(r), cnt)
        return None

    # ---------------------------------------------------------------- arithmetic functions
    def f_mobius(self, a, r):
        if r is None:
            return ["nt_mobius", a[0]]
        return self.eq("mobius", r, ntref.mobius_fac(ntref.factorint(a[0])), lambda: int(_sfn().mobius(a[0])))

    def f_mertens(self, a, r):
        if r is None:
            return ["nt_mertens", a[0]]
        return self.eq("mertens", r, sum(ntref.mobius_fac(ntref.factorint(i)) for i in range(1, a[0] + 1)))

    def f_mp_polygonal_number(self, a, r):
        if r is None:
            return ["nt_mp_polygonal_number", a[0], a[1]]
        return self.eq("polygonal_number", r, ntref.polygonal(a[0], a[1]))

    def f_polygonal_number(self, a, r):
        if r is None:
            return ["nt_polygonal_number", ["integer", a[0]], ["integer", a[1]]]
        return self.eq("polygonal_number", dump_frac(B(r)), Fraction(ntref.polygonal(a[0], a[1])))

    def f_mp_principal_polygonal_root(self, a, r):
        if r is None:
            return ["nt_mp_principal_polygonal_root", a[0], ntref.polygonal(a[0], a[1])]
        return self.eq("principal_polygonal_root of the n-th s-gonal number", r, a[1])

    def f_principal_polygonal_root(self, a, r):
        if r is None:
            return ["nt_principal_polygonal_root", ["integer", a[0]], ["integer", ntref.polygonal(a[0], a[1])]]
        return self.eq("principal_polygonal_root of the n-th s-gonal number", dump_frac(B(r)), Fraction(a[1]))

    def f_perfect_power_decomposition(self, a, r):
        n, lowest = a
        if r is None:
            return ["nt_perfect_power_decomposition", n, bool(lowest)]
        pp = ntref.perfect_powers_of(n)
        if not pp:
            exp = [n, 1]
        else:
            e = min(pp) if lowest else max(pp)
            exp = [pp[e], e]
        return self.eq("perfect_power_decomposition", r, exp)

    def f_perfect_power_p(self, a, r):
        if r is None:
            return ["nt_perfect_power_p", a[0]]
        return self.eq("perfect_power_p", r, bool(ntref.perfect_powers_of(a[0])))

    def f_perfect_square_p(self, a, r):
        if r is None:
            return ["nt_perfect_square_p", a[0]]
        return self.eq("perfect_square_p", r, math.isqrt(a[0]) ** 2 == a[0])


MODULAR = {"mod_inverse": 1, "crt": 1, "primitive_root": 0, "primitive_root_list": 0, "totient": 0, "carmichael": 0,
           "multiplicative_order": 1, "jacobi": 1, "kronecker": 1, "nthroot_mod": 2, "nthroot_mod_list": 2,
           "is_nth_residue": 2, "powermod": 2, "powermod_list": 2, "powermod_int": 2, "quadratic_residues": 0,
           "is_quad_residue": 1, "mobius": 0, "factor": 0, "factor_trial_division": 0, "factor_lehman": 0,
           "factor_pollard_pm1": 0, "factor_pollard_rho": 0, "prime_factors": 0, "prime_factor_multiplicities": 0,
           "perfect_power_decomposition": 0, "perfect_power_p": 0, "probab_prime_p": 0}


def _short(x):
    s = repr(x)
    return s if len(s) <= 300 else s[:300] + "..."


def _sympy():
    import sympy
    return sympy


def _snt():
    from sympy import ntheory
    return ntheory


def _sfn():
    from sympy.functions.combinatorial import numbers
    return numbers


if __name__ == "__main__":
    sys.exit(engine.main(C32))
