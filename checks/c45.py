"""C45 Arbitrary-precision evaluation is accurate (eval_mpfr, eval_mpc, evalf at > 53 bits) and arithmetic on
RealMPFR / ComplexMPC numbers is correctly rounded.  Build variant `opt` (MPFR + MPC through the declaration shim)."""
import json
import math
import os
import sys
from fractions import Fraction

sys.path.insert(0, os.path.join(os.path.dirname(os.path.abspath(__file__)), ".."))
from hypothesis import strategies as st
import mpmath
from mpmath import mp, mpf, mpc
from pbt import engine, gen
from pbt.engine import Check, Violation, B, F, R, is_exc
from pbt import oracle_num as on
from pbt import evalnum as en
from pbt import optnum as opn
from pbt.oracle_num import Unjudgeable

# ---- node types with a bvisit in symengine/eval_mpfr.cpp (EvalMPFRVisitor, lines 27-413)
MPFR_NODES = ["Integer", "Rational", "RealDouble", "RealMPFR", "Add", "Mul", "Pow", "Equality", "Unequality", "LessThan",
              "StrictLessThan", "Sin", "Cos", "Tan", "Log", "Cot", "Csc", "Sec", "ASin", "ACos", "ASec", "ACsc", "ATan",
              "ACot", "ATan2", "Sinh", "Csch", "Cosh", "Sech", "Tanh", "Coth", "ASinh", "ACsch", "ACosh", "ATanh", "ACoth",
              "ASech", "Gamma", "UpperGamma", "LowerGamma", "LogGamma", "Beta", "Constant", "Abs", "Erf", "Erfc", "Max",
              "Min", "UnevaluatedExpr"]
# ---- symengine/eval_mpc.cpp (EvalMPCVisitor, lines 27-342); Gamma throws NotImplementedError
MPC_NODES = ["Integer", "Rational", "RealDouble", "Complex", "ComplexDouble", "RealMPFR", "ComplexMPC", "Add", "Mul", "Pow",
             "Sin", "Cos", "Tan", "Log", "Cot", "Csc", "Sec", "ASin", "ACos", "ASec", "ACsc", "ATan", "ACot", "Sinh", "Csch",
             "Cosh", "Sech", "Tanh", "Coth", "ASinh", "ACsch", "ACosh", "ATanh", "ACoth", "ASech", "Constant", "Abs",
             "UnevaluatedExpr"]
# not reachable through public constructors: NumberWrapper, FunctionWrapper (abstract user-extension classes)

UNARY_BASE = ["neg", "sqrt", "cbrt", "exp", "sin", "cos", "tan", "cot", "csc", "sec", "asin", "acos", "asec", "acsc",
              "atan", "acot", "sinh", "csch", "cosh", "sech", "tanh", "coth", "asinh", "acsch", "acosh", "atanh",
              "acoth", "asech", "log", "abs", "unevaluated_expr"]
UNARY_REAL = ["gamma", "loggamma", "erf", "erfc"]
BINARY = ["add", "sub", "mul", "div", "pow"]
RELS = ["Eq", "Ne", "Lt", "Le", "Gt", "Ge"]
CONSTS = ["pi", "E", "EulerGamma", "Catalan", "GoldenRatio"]
TRANSCENDENTAL = {"Sin", "Cos", "Tan", "Cot", "Csc", "Sec", "ASin", "ACos", "ATan", "ACot", "ACsc", "ASec", "Sinh", "Cosh",
                  "Tanh", "Coth", "Csch", "Sech", "ASinh", "ACosh", "ATanh", "ACoth", "ACsch", "ASech", "Log", "Gamma",
                  "LogGamma", "Erf", "Erfc", "ATan2", "Beta", "UpperGamma", "LowerGamma"}

# known-finding tags (GUIDE "Known findings protocol"): an exclusion is applied iff self.tag_active(tag)
TAG_ASEC = "eval_mpfr_asec_acsc_swapped"                       # KF-C45-01
TAG_CSWAP = "realmpfr_complex_operand_order"                   # KF-C45-02
TAG_RPOWD = "realmpfr_rpow_double_negative_base"               # KF-C45-03
TAG_POWPREC = "realmpfr_pow_negative_base_precision"           # KF-C45-04
TAG_BETA = "eval_mpfr_beta_rewrite_folds_floats"               # KF-C45-05
TAG_DIV = "free_div_rounds_reciprocal"                         # KF-C45-06

I = lambda n: ["integer", n]
Q = lambda a, b: gen._rat(a, b)
L = lambda *a: ["list"] + list(a)


def dps_for(bits):
    return int((bits + 64) * 0.30103) + 8


def mant_hex(q, prec):
    """text accepted by mpfr_set_str(base 0) for the p-bit float nearest to the Fraction q"""
    v = opn.round_nearest_even(Fraction(q), prec)
    if v == 0:
        return "0"
    e = 0
    n, d = abs(v.numerator), v.denominator
    e = -(d.bit_length() - 1)
    return "%s0x%xp%d" % ("-" if v < 0 else "", n, e)


# ------------------------------------------------------------------ generators: evaluation
def real_leaves():
    small = st.integers(-12, 12).map(I)
    mid = st.integers(-1000, 1000).map(I)
    big = st.one_of(st.sampled_from(gen.interesting_ints()), st.integers(-2 ** 70, 2 ** 70)).map(I)
    rat = st.builds(Q, st.integers(-30, 30), st.integers(1, 12))
    brat = st.builds(Q, st.integers(-2 ** 70, 2 ** 70), st.integers(1, 2 ** 66))
    dbl = st.one_of(st.sampled_from(gen.FLOAT_POOL),
                    st.floats(-100, 100, allow_nan=False, allow_infinity=False).map(gen._moderate)).map(
        lambda f: ["real_double", f])
    con = st.sampled_from(CONSTS).map(lambda n: ["constant", n])
    return en.weighted([(6, small), (1, mid), (1, big), (5, rat), (1, brat), (3, dbl), (4, con)])


def complex_leaves():
    part = st.builds(Q, st.integers(-12, 12), st.integers(1, 6))
    nz = part.filter(lambda q: q != ["integer", 0])
    cx = st.builds(lambda a, b: ["complex", a, b], part, nz)
    cd = st.builds(lambda a, b: ["complex_double", a, b], st.sampled_from(gen.FLOAT_POOL[:14]),
                   st.sampled_from(gen.FLOAT_POOL[:14]))
    return en.weighted([(3, real_leaves()), (4, cx), (3, cd), (1, st.just(["constant", "I"]))])


def real_tree(max_leaves):
    un = UNARY_BASE + UNARY_REAL * 2

    def ext(ch):
        rel = st.builds(lambda o, a, b: [o, a, b], st.sampled_from(RELS), ch, ch)
        return en.weighted([
            (8, st.builds(lambda o, a: [o, a], st.sampled_from(un), ch)),
            (3, st.builds(lambda o, a, b: [o, a, b], st.sampled_from(BINARY), ch, ch)),
            (1, st.builds(lambda a, n: ["pow", a, I(n)], ch, st.integers(-4, 5))),
            (1, st.builds(lambda a, b: ["atan2", a, b], ch, ch)),
            (2, st.builds(lambda o, xs: [o, L(*xs)], st.sampled_from(["max", "min", "max", "min", "add_vec", "mul_vec"]),
                          st.lists(ch, min_size=2, max_size=4))),
            (1, rel)])
    return st.recursive(real_leaves(), ext, max_leaves=max_leaves)


def complex_tree(max_leaves):
    def ext(ch):
        return en.weighted([
            (6, st.builds(lambda o, a: [o, a], st.sampled_from(UNARY_BASE), ch)),
            (3, st.builds(lambda o, a, b: [o, a, b], st.sampled_from(BINARY), ch, ch)),
            (1, st.builds(lambda a, n: ["pow", a, I(n)], ch, st.integers(-4, 5))),
            (1, st.builds(lambda o, xs: [o, L(*xs)], st.sampled_from(["add_vec", "mul_vec"]),
                          st.lists(ch, min_size=2, max_size=3)))])
    return st.recursive(complex_leaves(), ext, max_leaves=max_leaves)


def bits_strategy():
    odd = st.integers(54, 320).filter(lambda b: b % 64 != 0)
    return en.weighted([(8, odd), (2, st.sampled_from([64, 128, 192, 256, 54, 55, 63, 65, 113])),
                        (2, st.integers(321, 800)), (1, st.integers(801, 2000))])


def positive(a):
    """a strictly positive moderate quantity that keeps a as a sub-tree: |atan(a)| + 1/3 in (1/3, 1.91)"""
    return ["add", ["abs", ["atan", a]], Q(1, 3)]


def with_mp_leaf(r, prec, cmode):
    """replace the first inexact-looking exact leaf (a non-integer rational; complex mode: a complex) by an MPFR/MPC
    number of precision prec holding the nearest prec-bit value (a relative change <= 2^-prec: domains unaffected)"""
    done = [False]

    def walk(d, under_pow_exp=False):
        if not isinstance(d, list) or not d:
            return d
        if not done[0]:
            if d[0] == "rational":
                done[0] = True
                return ["real_mpfr", mant_hex(Fraction(d[1], d[2]), prec), prec]
            if cmode and d[0] == "complex" and all(x[0] in ("integer", "rational") for x in d[1:3]):
                done[0] = True
                fr = lambda x: Fraction(x[1]) if x[0] == "integer" else Fraction(x[1], x[2])
                return ["complex_mpc", mant_hex(fr(d[1]), prec), mant_hex(fr(d[2]), prec), prec]
        if d[0] == "list":
            return ["list"] + [walk(x) for x in d[1:]]
        return [d[0]] + [walk(x) for x in d[1:]]
    return walk(r)


def make_eval(mode, t, bits, mp_leaf, special, rnd):
    cm = mode == "complex"
    e = en.repair(t, cm)[0]
    if special is not None and not cm:
        f2, ta, tb, how = special
        a = positive(en.repair(ta)[0])
        b = positive(en.repair(tb)[0])
        s = [f2, a, b]
        e = s if how == 0 else ["add", s, e] if how == 1 else ["mul", ["atan", e], s]
    if mp_leaf:
        e = with_mp_leaf(e, mp_leaf, cm)
    return {"kind": "eval", "mode": mode, "e": e, "bits": bits, "rnd": rnd if not cm else "N"}


# ------------------------------------------------------------------ generators: arithmetic
def mantissa(prec):
    dense = st.integers(1, 2 ** prec - 1)
    sparse = st.lists(st.integers(0, prec - 1), min_size=1, max_size=4).map(lambda bs: sum(1 << b for b in set(bs)))
    edge = st.sampled_from([1, 2 ** prec - 1, 2 ** (prec - 1), 2 ** (prec - 1) + 1, 3, 5])
    return en.weighted([(3, dense), (3, sparse), (1, edge)])


def mp_real(precs):
    def mk(p, m, e, s):
        return ["real_mpfr", "%s0x%xp%d" % ("-" if s else "", m, e - m.bit_length() + 1), p]
    return precs.flatmap(lambda p: st.builds(mk, st.just(p), mantissa(p), st.integers(-6, 6), st.booleans()))


def mp_complex(precs):
    def mk(p, m1, e1, s1, m2, e2, s2):
        tx = lambda m, e, s: "0" if m == 0 else "%s0x%xp%d" % ("-" if s else "", m, e - m.bit_length() + 1)
        return ["complex_mpc", tx(m1, e1, s1), tx(m2, e2, s2), p]
    return precs.flatmap(lambda p: st.builds(mk, st.just(p), mantissa(p), st.integers(-5, 5), st.booleans(),
                                             mantissa(p), st.integers(-5, 5), st.booleans()))


def arith_precs():
    return en.weighted([(6, st.integers(54, 200)), (2, st.sampled_from([64, 128, 53, 24, 113, 2, 3, 8])),
                        (1, st.integers(201, 1200))])


def other_operand():
    small = st.integers(-12, 12).filter(bool).map(I)
    big = st.one_of(st.sampled_from(gen.interesting_ints()), st.integers(-2 ** 120, 2 ** 120).filter(bool)).map(I)
    rat = st.builds(Q, st.integers(-30, 30).filter(bool), st.integers(1, 12))
    brat = st.builds(Q, st.integers(-2 ** 70, 2 ** 70).filter(bool), st.integers(1, 2 ** 66))
    dbl = st.one_of(st.sampled_from([f for f in gen.FLOAT_POOL]),
                    st.floats(-100, 100, allow_nan=False, allow_infinity=False).map(gen._moderate).filter(bool)).map(
        lambda f: ["real_double", f])
    part = st.builds(Q, st.integers(-12, 12), st.integers(1, 6))
    cx = st.builds(lambda a, b: ["complex", a, b], part, part.filter(lambda q: q != I(0)))
    cd = st.builds(lambda a, b: ["complex_double", a, b], st.sampled_from(gen.FLOAT_POOL[:14]),
                   st.sampled_from(gen.FLOAT_POOL[:14]))
    return en.weighted([(3, small), (1, big), (3, rat), (1, brat), (3, dbl), (2, cx), (2, cd)])


FREE_OPS = ["add", "sub", "mul", "div", "pow"]
NUM_OPS = ["addnum", "subnum", "mulnum", "divnum", "pownum", "num_rsub", "num_rdiv", "num_rpow"]


def small_exponent():
    """exponents for pow: keep |result| moderate"""
    return en.weighted([(3, st.integers(-6, 8).map(I)), (2, st.builds(Q, st.integers(-9, 9), st.integers(2, 5))),
                        (1, st.sampled_from([0.5, -1.5, 2.0, 2.5, 0.1]).map(lambda f: ["real_double", f]))])


def arith_case():
    precs = arith_precs()
    mpnum = en.weighted([(3, mp_real(precs)), (2, mp_complex(precs))])
    pair = en.weighted([(4, st.tuples(mpnum, mpnum)), (3, st.tuples(mpnum, other_operand())),
                        (3, st.tuples(other_operand(), mpnum)), (1, st.tuples(mpnum, small_exponent()))])
    return st.builds(lambda ab, op: {"kind": "arith", "a": ab[0], "b": ab[1], "op": op}, pair,
                     st.sampled_from(FREE_OPS * 2 + NUM_OPS))


# ------------------------------------------------------------------ reference helpers
def cdiv(a, b):
    """exact quotient of Gaussian rationals given as (re, im) Fractions"""
    n = b[0] * b[0] + b[1] * b[1]
    return ((a[0] * b[0] + a[1] * b[1]) / n, (a[1] * b[0] - a[0] * b[1]) / n)


def cmul(a, b):
    return (a[0] * b[0] - a[1] * b[1], a[0] * b[1] + a[1] * b[0])


def cpow_int(a, n):
    r = (Fraction(1), Fraction(0))
    base = a
    k = abs(n)
    while k:
        if k & 1:
            r = cmul(r, base)
        base = cmul(base, base)
        k >>= 1
    if n < 0:
        r = cdiv((Fraction(1), Fraction(0)), r)
    return r


def round_decide(v, p, guard_bits):
    """v: mpf computed with >= p + 64 correct bits.  Returns the Fraction nearest to v with p bits, or None when v is
    too close to a rounding boundary (or to zero) to decide"""
    if v == 0:
        return None
    sign, man, exp, bc = v._mpf_
    q = Fraction(man) * (Fraction(2) ** exp)
    if sign:
        q = -q
    r = opn.round_nearest_even(q, p)
    u = opn.ulp(abs(q), p)
    # distance of q from the nearest tie point (r +- u/2 region boundary)
    m = abs(q) / u
    frac = m - (m.numerator // m.denominator)
    if abs(frac - Fraction(1, 2)) < Fraction(1, 2 ** guard_bits):
        return None
    return r


class C45(Check):
    pid = "C45"
    variant = "opt"
    exe = "driver_opt"
    builds = [("opt", ("driver_opt",))]
    timeout = 60.0
    case_timeout = 60
    rule = ("(1) evaluation: symbol-free recipe trees (Hypothesis recursive, <= 8 leaves quick / 11 thorough, plus a "
            "deterministic table function x argument shape x precision) over every node type with a bvisit in "
            "eval_mpfr.cpp (real mode: 49 node types incl. relationals, Max/Min, ATan2, Gamma/LogGamma/Erf/Erfc, "
            "Beta/UpperGamma/LowerGamma on constructed positive arguments, RealMPFR leaves) and eval_mpc.cpp (complex "
            "mode: 38 node types incl. Complex, ComplexDouble, ComplexMPC leaves); the evalnum repair pass moves every "
            "argument into the function's real domain / off branch cuts.  Precisions 54-2000 bits (mostly 54-320 and not a "
            "multiple of 64).  eval_mpfr(e, bits, rnd in N|Z|U|D), eval_mpc(e, bits), evalf(e, bits, real|complex) are "
            "judged against the mpmath value at bits+64 bits: |result - ref| <= 64 * 2^-bits * E, E = first-order error "
            "mass over all rounding points of a bits-precision node-wise evaluator (kappa > 1e4 skipped); the result must "
            "carry exactly `bits` bits; evalf(real) must equal eval_mpfr and evalf(complex) eval_mpc bit for bit; real "
            "trees are also given to eval_mpc (2 tolerances).  (2) arithmetic: one operation (add sub mul div pow as free "
            "functions and the Number methods addnum subnum mulnum divnum pownum rsub rdiv rpow) on two numbers of which "
            "at least one is a RealMPFR/ComplexMPC (precisions 2-1200, sparse / dense / boundary mantissas) and the other "
            "an MPFR/MPC number of any precision, an Integer, Rational, Complex, RealDouble or ComplexDouble.  Operand "
            "values are read back exactly from their dumps.  Two MPFR/MPC operands, or an exact/double operand that is "
            "representable at the MP operand's precision: the result must be the correctly rounded (nearest-even, per "
            "component) value at the maximum operand precision -- exact Fraction / Gaussian-rational arithmetic with my own "
            "rounding for + - * / and integer powers, mpmath at precision+64 bits with a near-tie guard for other powers "
            "(Integer|Rational|double divided by RealMPFR: 2 ulp, the code inverts a rounded quotient).  An operand that "
            "must be converted first (second rounding): per component 1 ulp + the first-order effect of a relative "
            "2^-prec perturbation of that operand.  Known findings are excluded narrowly only while their tag is active "
            "(skipped['known:*']).  Non-trivial: evaluation with a precision that is not a multiple of 64 and >= 2 "
            "transcendental nodes, or an arithmetic case whose operands have different kinds or precisions; distinct by "
            "case.")
    assumptions = ["mpmath (principal branches) at precision+64 bits is the reference for transcendental values",
                   "MPFR and MPC entry points are correctly rounded as documented; the MPC declaration shim "
                   "(hooks/mpc_shim/mpc.h) matches the installed libmpc.so.3 ABI (the repository's own MPC tests pass)",
                   "library exceptions decline a case"]
    tiers = {"quick": {"examples": 8000}, "thorough": {"examples": 200000}}

    def setup_worker(self, tier):
        opn.activate_extra_findings(self)

    # ------------------------------------------------------------------ generation
    def enumerate(self, tier):
        args = [["add", ["sin", I(1)], Q(1, 3)], ["mul", ["constant", "pi"], Q(2, 7)], ["sub", ["cos", I(2)], ["real_double", 0.25]],
                ["neg", ["exp", Q(1, 2)]], ["div", ["constant", "E"], I(-3)], ["pow", ["constant", "GoldenRatio"], Q(5, 2)],
                ["add", ["constant", "EulerGamma"], ["constant", "Catalan"]], Q(5, 7), I(3), ["real_double", -1.75],
                ["sqrt", I(7)]]
        bits = [54, 77, 100, 128, 163, 250, 333, 517]
        k = 0
        for f in UNARY_BASE + UNARY_REAL:
            for a in args:
                k += 1
                yield make_eval("real", ["add", [f, a], Q(1, 7)], bits[k % len(bits)], 0 if k % 3 else 60 + k % 90, None,
                                "NZUD"[k % 4] if k % 5 == 0 else "N")
        for i, a in enumerate(args):
            b = args[(i + 5) % len(args)]
            c = args[(i + 7) % len(args)]
            for o in BINARY + ["atan2"] + RELS:
                k += 1
                yield make_eval("real", [o, a, b], bits[k % len(bits)], 0, None, "N")
            for o in ("max", "min", "add_vec", "mul_vec"):
                k += 1
                yield make_eval("real", [o, L(a, b, c)], bits[k % len(bits)], 0, None, "N")
            for j, f2 in enumerate(("beta", "lowergamma", "uppergamma")):
                k += 1
                yield make_eval("real", a, bits[k % len(bits)], 0, (f2, b, c, (i + j) % 3), "N")
        cargs = [["complex", Q(1, 3), Q(2, 5)], ["complex_double", 0.5, -1.5], ["add", ["sin", I(1)], ["constant", "I"]],
                 ["mul", ["complex", I(2), I(-1)], ["constant", "pi"]], ["exp", ["complex", Q(1, 2), Q(3, 4)]],
                 ["sub", ["complex_double", -2.5, 0.1], ["sqrt", I(2)]]]
        for f in UNARY_BASE:
            for a in cargs:
                k += 1
                yield make_eval("complex", ["add", [f, a], Q(1, 7)], bits[k % len(bits)], 0 if k % 3 else 60 + k % 90, None,
                                "N")
        for i, a in enumerate(cargs):
            b = cargs[(i + 1) % len(cargs)]
            for o in BINARY:
                k += 1
                yield make_eval("complex", [o, a, b], bits[k % len(bits)], 0, None, "N")
        # arithmetic: every ordered pair of operand kinds x every op on fixed values
        ops = {"mpfr100": ["real_mpfr", "0x1.2345p0", 100], "mpfr61": ["real_mpfr", "-0x1.fffffffp-3", 61],
               "mpc80": ["complex_mpc", "0x1.8p1", "-0x1.4p-1", 80], "mpc131": ["complex_mpc", "-0x1.1p-2", "0x1.cp0", 131],
               "int": I(3), "negint": I(-7), "rat": Q(2, 3), "negrat": Q(-5, 7), "cx": ["complex", Q(1, 2), Q(-3, 4)],
               "dbl": ["real_double", 0.1], "negdbl": ["real_double", -2.5], "cdbl": ["complex_double", 0.3, -1.5]}
        mpk = ("mpfr100", "mpfr61", "mpc80", "mpc131")
        for ka, a in ops.items():
            for kb, b in ops.items():
                if ka not in mpk and kb not in mpk:
                    continue
                for op in FREE_OPS + NUM_OPS:
                    yield {"kind": "arith", "a": a, "b": b, "op": op}

    def strategy(self, tier):
        n = 8 if tier == "quick" else 11
        bits = bits_strategy()
        mpl = en.weighted([(3, st.just(0)), (1, st.integers(30, 400))])
        rnd = en.weighted([(5, st.just("N")), (1, st.sampled_from(["Z", "U", "D"]))])
        special = en.weighted([(6, st.none()),
                               (1, st.tuples(st.sampled_from(["beta", "lowergamma", "uppergamma"]), real_tree(3), real_tree(3),
                                             st.integers(0, 2)))])
        real = st.builds(lambda t, b, m, s, r: make_eval("real", t, b, m, s, r), real_tree(n), bits, mpl, special, rnd)
        cx = st.builds(lambda t, b, m: make_eval("complex", t, b, m, None, "N"), complex_tree(n), bits, mpl)
        return en.weighted([(3, real), (2, cx), (5, arith_case())])

    # ------------------------------------------------------------------ judging: evaluation
    def _skipexc(self, r, tag):
        if r["exc"] == "VerifAssertFailure":
            self.skip("assert_seen")
        else:
            self.skip("declined:%s:%s" % (tag, r["exc"]))

    def _cmp_eval(self, what, d, ref, bits, factor, case, dump, cm):
        """d: dump of the returned number"""
        self.count()
        want = "ComplexMPC" if cm else "RealMPFR"
        if d[0] != want:
            raise Violation("%s returned a %s, not a %s: %s" % (what, d[0], want, d), {"recipe": case["e"]})
        parts = [opn.mpfr_frac(x) for x in d[1:]]
        for pr, v in parts:
            if pr != bits:
                raise Violation("%s returned a number of precision %d" % (what, pr), {"recipe": case["e"], "dump": dump})
        if any(isinstance(v, str) for _, v in parts):
            raise Violation("%s returned %s but the expression has the finite, well-conditioned value %s (kappa %.3g); expr %s"
                            % (what, [v for _, v in parts], mp.nstr(ref.value, 30), float(ref.kappa),
                               engine.sx(case["e"])[:600]), {"recipe": case["e"], "dump": dump})
        with mp.workdps(dps_for(bits)):
            g = mpc(opn.to_mpf(parts[0][1]), opn.to_mpf(parts[1][1])) if cm else opn.to_mpf(parts[0][1])
            tol = factor * opn.tol_abs(ref, bits, 64) + mpf(2) ** -(bits + 48) * abs(ref.value)
            diff = abs(g - ref.value)
            if diff > tol:
                raise Violation("%s = %s but the value is %s (|diff| = %.3g = 2^%.1f * |value| > tol %.3g, kappa %.3g); "
                                "expr %s" % (what, mp.nstr(g, 40), mp.nstr(ref.value, 40), float(diff),
                                             float(mp.log(diff / abs(ref.value), 2)) if ref.value != 0 else 0.0,
                                             float(tol), float(ref.kappa), engine.sx(case["e"])[:600]),
                                {"recipe": case["e"], "dump": dump})

    def judge_eval(self, case):
        rec, mode, bits, rnd = case["e"], case["mode"], case["bits"], case.get("rnd", "N")
        cm = mode == "complex"
        stmts = [rec, ["eval_mpc", R(0), bits], ["evalf", R(0), bits, "complex"]]
        if not cm:
            stmts += [["eval_mpfr", R(0), bits, rnd], ["evalf", R(0), bits, "real"], ["eval_mpfr", R(0), bits, "N"]]
        res = self.run(stmts)
        if is_exc(res[0]):
            self._skipexc(res[0], "construct")
            return
        dump = B(res[0])
        heads = en.dump_heads(dump)
        if "NaN" in heads or "Infty" in heads:
            self.skip("constructor_nonfinite")
            return
        dump_o = beta_as_gamma(dump)
        try:
            ref = opn.reference_p(dump_o, None, opn.exact_leaf_p(bits), cm, margin=1e-9, hi_dps=dps_for(bits))
        except Unjudgeable as u:
            self.skip("ref:" + ":".join(u.reason.split(":")[:2]))
            return
        judged = []
        swapped = not cm and ("ASec" in heads or "ACsc" in heads)
        if not cm and "Beta" in heads and beta_with_float_args(dump):
            # KF-C45-05: Beta is evaluated through the *symbolic* rewrite gamma(x)*gamma(y)/gamma(x+y), whose
            # constructors fold RealDouble / RealMPFR leaves at the leaves' own precision
            swapped = swapped or "beta"
        try:
            if not cm:
                r = res[3]
                if is_exc(r):
                    self._skipexc(r, "eval_mpfr")
                else:
                    self._cmp_eval("eval_mpfr(e, %d, %s)" % (bits, rnd), B(r), ref, bits, 1, case, dump, False)
                    judged.append("mpfr")
                    self.cls("rnd:" + rnd)
                r2, r3 = res[4], res[5]
                if is_exc(r2):
                    self._skipexc(r2, "evalf_real")
                else:
                    self._cmp_eval("evalf(e, %d, Real)" % bits, B(r2), ref, bits, 1, case, dump, False)
                    judged.append("evalf_real")
                    if not is_exc(r3) and B(r3) != B(r2):
                        raise Violation("evalf(e, %d, Real) = %s differs from eval_mpfr(e, %d, MPFR_RNDN) = %s"
                                        % (bits, B(r2), bits, B(r3)), {"recipe": rec, "dump": dump})
        except Violation:
            if swapped == "beta" and self.tag_active(TAG_BETA):
                self.skip("known:" + TAG_BETA)
                self.cls("mpfr_excluded_known:Beta")
            elif swapped is True and self.tag_active(TAG_ASEC):
                self.skip("known:" + TAG_ASEC)
                for h in ("ASec", "ACsc"):
                    if h in heads:
                        self.cls("mpfr_excluded_known:" + h)
            else:
                raise
        fac = 1 if cm else 2
        r = res[1]
        if is_exc(r):
            self._skipexc(r, "eval_mpc")
        else:
            self._cmp_eval("eval_mpc(e, %d)" % bits, B(r), ref, bits, fac, case, dump, True)
            judged.append("mpc")
        r2 = res[2]
        if is_exc(r2):
            self._skipexc(r2, "evalf_complex")
        else:
            self._cmp_eval("evalf(e, %d, Complex)" % bits, B(r2), ref, bits, fac, case, dump, True)
            judged.append("evalf_complex")
            if not is_exc(r) and B(r) != B(r2):
                raise Violation("evalf(e, %d, Complex) = %s differs from eval_mpc(e, %d) = %s" % (bits, B(r2), bits, B(r)),
                                {"recipe": rec, "dump": dump})
        if judged:
            self.cls("mode:" + mode)
            self.cls("bits:%s" % ("54-127" if bits < 128 else "128-320" if bits <= 320 else "321-800" if bits <= 800 else "801-2000"))
            for k in ("mpfr", "mpc"):
                if k in judged:
                    for h in heads:
                        self.cls(k + ":" + h)
            ntr = sum(v for h, v in heads.items() if h in TRANSCENDENTAL)
            if bits % 64 != 0 and ntr >= 2:
                self.nontriv(case)
            self.sample({"recipe": engine.sx(rec)[:300], "bits": bits, "value": mp.nstr(ref.value, 30), "kappa": float(ref.kappa),
                         "judged": judged})

    # ------------------------------------------------------------------ judging: arithmetic
    def judge_arith(self, case):
        op = case["op"]
        res = self.run([case["a"], case["b"], [op, R(0), R(1)]])
        if is_exc(res[0]) or is_exc(res[1]):
            self.skip("construct:operand")
            return
        da, db, rr = B(res[0]), B(res[1]), res[2]
        try:
            ka, pa, ar, ai = opn.number_exact(da)
            kb, pb, br, bi = opn.number_exact(db)
        except Unjudgeable as u:
            self.skip("operand:" + u.reason.split(":")[0])
            return
        base = {"addnum": "add", "subnum": "sub", "mulnum": "mul", "divnum": "div", "pownum": "pow", "num_rsub": "sub",
                "num_rdiv": "div", "num_rpow": "pow"}.get(op, op)
        x, y = (ar, ai), (br, bi)
        kx, ky, px, py = ka, kb, pa, pb
        if op.startswith("num_r"):
            x, y, kx, ky, px, py = y, x, ky, kx, py, px      # a.rsub(b) = b - a
        mpk = ("mpfr", "mpc")
        if kx not in mpk and ky not in mpk:
            self.skip("no_mp_operand")
            return
        desc = "%s(%s, %s)" % (op, engine.sx(case["a"])[:120], engine.sx(case["b"])[:120])
        if is_exc(rr):
            self._skipexc(rr, "op:" + op)
            return
        # ---- operands outside the operation's domain are not judged
        if base == "div" and y == (0, 0):
            self.skip("division_by_zero")
            return
        if base == "pow" and x == (0, 0):
            self.skip("zero_base")
            return
        dr = B(rr)
        try:
            kr, pr, rre, rim = opn.number_exact(dr)
        except Unjudgeable as u:
            if u.reason == "non_finite_number":
                # handled below when a finite reference exists
                kr, pr, rre, rim = "nonfinite", None, None, None
            else:
                self.skip("result:" + u.reason.split(":")[0])
                return
        both_mp = kx in mpk and ky in mpk
        P = max(p for p, k in ((px, kx), (py, ky)) if k in mpk)
        other = None if both_mp else (y if kx in mpk else x)
        other_rep = both_mp or (opn.representable(other[0], P) and opn.representable(other[1], P))
        # ---- known findings (exclusions by construction, only while the tag is active)
        cplx_other = (not both_mp) and (ky if kx in mpk else kx) in ("exact", "double") and other[1] != 0
        mpfr_side = kx if kx in mpk else ky
        okind = ky if kx in mpk else kx
        if self.tag_active(TAG_CSWAP) and cplx_other and mpfr_side == "mpfr" \
                and (base in ("sub", "div") or (base == "pow" and okind == "exact")):
            self.skip("known:" + TAG_CSWAP)
            return
        if self.tag_active(TAG_RPOWD) and base == "pow" and kx == "double" and x[1] == 0 and ky == "mpfr" \
                and x[0] < 0 and y[0] >= 0:
            self.skip("known:" + TAG_RPOWD)
            return
        # ---- reference value
        self.count()
        exact = None
        hp = None
        if base == "add":
            exact = (x[0] + y[0], x[1] + y[1])
        elif base == "sub":
            exact = (x[0] - y[0], x[1] - y[1])
        elif base == "mul":
            exact = cmul(x, y)
        elif base == "div":
            exact = cdiv(x, y)
        else:
            if y[1] == 0 and y[0].denominator == 1 and abs(y[0]) <= 64:
                exact = cpow_int(x, int(y[0]))
            else:
                W = P + 96 + 64
                for attempt in (0, 1):
                    with mp.workprec(W):
                        xb = mpc(opn.to_mpf(x[0]), opn.to_mpf(x[1])) if x[1] != 0 else opn.to_mpf(x[0])
                        ye = mpc(opn.to_mpf(y[0]), opn.to_mpf(y[1])) if y[1] != 0 else opn.to_mpf(y[0])
                        try:
                            if abs(ye * mp.log(xb)) > 2000:
                                self.skip("pow_magnitude")
                                return
                            hp = mpc(mp.exp(ye * mp.log(xb)))
                            lnb = abs(mp.log(xb))
                        except (ValueError, ZeroDivisionError, OverflowError):
                            self.skip("pow_oracle_failed")
                            return
                        # a component much smaller than the modulus is only known to W - log2(|hp|/|component|)
                        # bits: recompute once with that many more
                        lost = 0
                        for v in (hp.real, hp.imag):
                            if v != 0 and abs(hp) > abs(v):
                                lost = max(lost, int(mp.log(abs(hp) / abs(v), 2)) + 1)
                    if lost <= 32 or attempt == 1:
                        break
                    if lost > 4000:
                        break
                    W += lost + 32
                pow_lost = lost if (lost > 32 and W < P + 160 + lost) else 0
        if kr == "nonfinite":
            raise Violation("%s returned the non-finite %s; operands %s, %s" % (desc, dr, da, db), {"case": case})
        complex_result = x[1] != 0 or y[1] != 0 or (base == "pow" and x[0] < 0 and not (y[0].denominator == 1))
        # ---- precision / kind of the result
        if kr in mpk and pr != P:
            if self.tag_active(TAG_POWPREC) and base == "pow" and kx == "mpfr" and ky == "mpfr" and x[0] < 0 and kr == "mpc" \
                    and pr == px:
                self.skip("known:" + TAG_POWPREC)
                return
            raise Violation("%s returned a number of precision %d; the operands' precision is %d; operands %s, %s; result %s"
                            % (desc, pr, P, da, db, dr), {"case": case})
        if kr not in mpk:
            # an exact result is accepted when it is the exact value (the library documents 0 * float = 0)
            if exact is not None and kr == "exact" and (rre, rim) == exact:
                self.cls("exact_result")
                return
            raise Violation("%s returned %s, which is neither an MPFR/MPC number nor the exact value; operands %s, %s"
                            % (desc, dr, da, db), {"case": case})
        got = (rre, rim)
        cls = "%s:%s" % (base, "mp_mp" if both_mp else "mp_rep" if other_rep else "mp_conv")
        if other_rep:
            # correctly rounded per component
            want = []
            for c in (0, 1):
                if exact is not None:
                    want.append(opn.round_nearest_even(exact[c], P))
                else:
                    v = hp.real if c == 0 else hp.imag
                    if v == 0 or abs(v) < abs(hp) * mpf(2) ** -(P + 40) or pow_lost:
                        if not complex_result and c == 1:
                            want.append(Fraction(0))
                            continue
                        self.skip("pow_component_undecidable")
                        return
                    w = round_decide(v, P, 40)
                    if w is None:
                        self.skip("pow_near_tie")
                        return
                    want.append(w)
            ulps_allowed = 0
            if base == "div" and ky == "mpfr" and kx in ("exact", "double") and x[1] == 0:
                ulps_allowed = 2        # RealMPFR::rdivreal(Integer|Rational): (this / other)^-1, two roundings
            if op == "div" and self.tag_active(TAG_DIV):
                # KF-C45-06: the free function div(a, b) is mul(a, pow(b, -1)); the reciprocal is rounded at the
                # divisor's own precision.  While the finding is open: 2 ulp + that rounding's effect
                self._div_composite(desc, got, exact, P, py if ky in mpk else 53 if ky == "double" else P, da, db, case)
                self.skip("known:" + TAG_DIV)
                return
            for c in (0, 1):
                ok = got[c] == want[c] if ulps_allowed == 0 else \
                    (got[c] == want[c] or (want[c] != 0 and abs(got[c] - want[c]) <= ulps_allowed * opn.ulp(want[c], P)))
                if not ok:
                    tv = exact[c] if exact is not None else None
                    raise Violation("%s: %s part is %s, the correctly rounded %d-bit value is %s (off by %s ulp); operands %s, %s"
                                    % (desc, ("real", "imaginary")[c], got[c], P, want[c],
                                       float(abs(got[c] - want[c]) / opn.ulp(want[c], P)) if want[c] != 0 else "inf", da, db),
                                    {"case": case, "exact": str(tv)})
            self.cls(cls)
        elif op == "div" and self.tag_active(TAG_DIV):
            self._div_composite(desc, got, exact, P, py if ky in mpk else 53 if ky == "double" else P, da, db, case)
            self.skip("known:" + TAG_DIV)
            return
        else:
            # the exact/double operand is rounded to P bits first: 1 ulp + first-order effect of that perturbation
            eps = Fraction(1, 2 ** P)
            onorm = max(abs(other[0]), abs(other[1]))
            with mp.workprec(P + 96 + 64):
                if exact is not None:
                    t = exact
                    tn = max(abs(t[0]), abs(t[1]))
                else:
                    t = None
                    tn = None
                if base in ("add", "sub"):
                    conv = [abs(other[0]) * eps, abs(other[1]) * eps]
                elif base in ("mul", "div"):
                    conv = [4 * tn * eps] * 2
                else:
                    if exact is not None:
                        tnm = opn.to_mpf(tn)
                        k = abs(opn.to_mpf(y[0]))      # integer exponent: the base was converted
                        cv = 4 * tnm * (k + 1) * mpf(2) ** -P
                    else:
                        tnm = abs(hp)
                        ye = abs(mpc(opn.to_mpf(y[0]), opn.to_mpf(y[1])))
                        k = ye * (1 + lnb)
                        cv = 4 * tnm * (k + 1) * mpf(2) ** -P
                    if (k + 1) * mpf(2) ** -P > mpf(2) ** -10:
                        # the rounding of the converted operand is not a small perturbation of the power
                        self.skip("pow_conversion_not_first_order")
                        return
                    conv = [cv, cv]
                for c in (0, 1):
                    if exact is not None:
                        tc = opn.to_mpf(exact[c])
                    else:
                        tc = hp.real if c == 0 else hp.imag
                    cvm = opn.to_mpf(conv[c]) if isinstance(conv[c], Fraction) else conv[c]
                    mag = max(abs(tc), cvm)
                    u = mpf(2) ** (mp.floor(mp.log(mag, 2)) - P + 1) if mag != 0 else mpf(0)
                    bound = u + cvm + mpf(2) ** -(P + 60) * abs(tc)
                    diff = abs(opn.to_mpf(got[c]) - tc)
                    if diff > bound:
                        raise Violation("%s: %s part is %s but the value is %s: error %.3g exceeds 1 ulp + conversion effect = "
                                        "%.3g at %d bits; operands %s, %s"
                                        % (desc, ("real", "imaginary")[c], mp.nstr(opn.to_mpf(got[c]), 40), mp.nstr(tc, 40),
                                           float(diff), float(bound), P, da, db), {"case": case})
            self.cls(cls)
        self.cls("api:" + ("free" if op in FREE_OPS else "number_method"))
        self.cls("kinds:%s_%s" % (kx, ky))
        if kx != ky or px != py:
            self.nontriv(case)
        if self.rng.random() < 0.02:
            self.sample({"op": op, "a": engine.sx(case["a"])[:120], "b": engine.sx(case["b"])[:120], "class": cls,
                         "result": str(dr)[:200]})

    def _div_composite(self, desc, got, exact, P, pd, da, db, case):
        tn = max(abs(exact[0]), abs(exact[1]))
        for c in (0, 1):
            bound = 64 * tn * Fraction(1, 2 ** min(pd, P))
            if exact[c] != 0:
                bound += 2 * opn.ulp(exact[c], P)
            if abs(got[c] - exact[c]) > bound:
                raise Violation("%s: %s part is %s but the quotient is %s (error %.3g, more than 2 ulp + the rounding of the "
                                "reciprocal at %d bits); operands %s, %s"
                                % (desc, ("real", "imaginary")[c], float(got[c]), float(exact[c]),
                                   float(abs(got[c] - exact[c])), pd, da, db), {"case": case})

    def judge(self, case):
        if case["kind"] == "eval":
            self.judge_eval(case)
        else:
            self.judge_arith(case)


def beta_with_float_args(d):
    if not isinstance(d, list) or not d:
        return False
    if d[0] == "Beta" and on.has_float(d[1:]):
        return True
    return any(beta_with_float_args(x) for x in d if isinstance(x, list))


def beta_as_gamma(d):
    """Beta(x, y) is evaluated through rewrite_as_gamma() = gamma(x)*gamma(y)/gamma(x+y) (eval_mpfr.cpp:328): for the
    error model the node is replaced by that product (three Gamma rounding points and their amplification)"""
    if not isinstance(d, list) or not d:
        return d
    if d[0] == "Beta" and len(d) == 3:
        x, y = beta_as_gamma(d[1]), beta_as_gamma(d[2])
        one, m1 = ["Integer", "1"], ["Integer", "-1"]
        s = ["Add", ["Integer", "0"], [[x, one], [y, one]]]
        return ["Mul", one, [[["Gamma", x], one], [["Gamma", y], one], [["Gamma", s], m1]]]
    return [beta_as_gamma(x) if isinstance(x, list) else x for x in d]


def main():
    rc = engine.main(C45)
    if rc == 0 and "--replay" not in sys.argv:
        name = os.path.join(engine.VERIF, "evidence", "C45.json")
        if os.environ.get("VERIF_BUILD_TAG") or os.environ.get("VERIF_SCAN") or os.environ.get("VERIF_REPO"):
            name = os.path.join(engine.VERIF, "evidence", "_scratch", "C45.json")
        with open(name) as f:
            ev = json.load(f)
        cl = ev["coverage"]["classes"]
        miss = ["eval_mpfr:" + n for n in MPFR_NODES if not cl.get("mpfr:" + n) and not cl.get("mpfr_excluded_known:" + n)]
        miss += ["eval_mpc:" + n for n in MPC_NODES if not cl.get("mpc:" + n)]
        print("coverage: missing node types: %s" % (miss or "none"))
        if miss:
            print("INTERNAL ERROR in check C45: supported node types never judged: %s (generator defect)" % miss)
            return 2
    return rc


if __name__ == "__main__":
    sys.exit(main())
