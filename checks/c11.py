"""C11 Substitution preserves value and is cache-independent."""
import os
import sys

sys.path.insert(0, os.path.join(os.path.dirname(os.path.abspath(__file__)), ".."))
from hypothesis import strategies as st
from pbt import engine, gen
from pbt.engine import Violation, R, B, is_exc
from pbt import oracle_num as on
from pbt.oracle_num import Unjudgeable
from pbt.valuecheck import ValueCheck

SYMS = ["x", "y", "z"]
FUN = ["sin", "cos", "tan", "exp", "log", "sinh", "cosh", "tanh", "atan", "asinh", "erf", "gamma", "abs", "conjugate", "sqrt"]
SUBS_OPS = ["subs", "xreplace", "msubs", "ssubs"]


def count_sym(r, name):
    if isinstance(r, list):
        if r[:1] == ["symbol"] and r[1] == name:
            return 1
        return sum(count_sym(x, name) for x in r[1:])
    return 0


class C11(ValueCheck):
    pid = "C11"
    timeout = 60.0
    float_rel_floor = 1e-9
    rule = ("expression trees (<= 10 leaves) over arithmetic, integer/rational/symbolic powers and 15 elementary/special "
            "functions of x, y, z with exact and floating numbers; substitution maps with 1-3 symbol keys whose values are "
            "numbers of every kind, symbols (incl. swaps {x:y, y:x}) or expressions mentioning other keys (simultaneous "
            "semantics). For subs, xreplace, msubs, ssubs with the cache on and off: value(result, env) must equal "
            "value(e, env[k -> value(m[k], env)]) at 3 generic complex points (zoo/nan accepted where the reference has a "
            "pole); results with and without cache must be eq; a key that does not occur and the identity map must return an "
            "eq expression. Non-trivial: some key occurs >= 2 times in e and its value is not a symbol; distinct by (e, map).")
    assumptions = ["mpmath principal branches are the reference", "library exceptions decline a case"]
    tiers = {"quick": {"examples": 4000}, "thorough": {"examples": 300000}}

    def strategy(self, tier):
        num = gen.weighted([(6, st.integers(-6, 6).map(lambda n: ["integer", n])), (3, st.builds(gen._rat, st.integers(-9, 9), st.integers(2, 5))),
                            (1, gen.gaussian(big=False)), (2, gen.real_double()), (1, gen.complex_double())])
        s = gen.sym(SYMS)
        leaves = gen.weighted([(4, num), (7, s), (1, gen.constant(("pi", "E", "I")))])
        expo = st.one_of(st.integers(-3, 4).map(lambda n: ["integer", n]), st.builds(gen._rat, st.integers(-5, 5), st.integers(2, 3)), s)

        def special(ch):
            return st.one_of(st.builds(lambda f, a: [f, a], st.sampled_from(FUN), ch),
                             st.builds(lambda b, e: ["pow", b, e], ch, expo),
                             st.builds(lambda xs: ["add_vec", ["list"] + xs], st.lists(ch, min_size=2, max_size=4)),
                             st.builds(lambda xs: ["mul_vec", ["list"] + xs], st.lists(ch, min_size=2, max_size=3)))
        e = gen.tree(leaves, unary=("neg",), binary=("add", "sub", "mul", "div"), max_leaves=8 if tier == "quick" else 12, special=special)
        simple = gen.tree(gen.weighted([(3, num), (4, s)]), binary=("add", "mul"), max_leaves=3,
                          special=lambda ch: st.builds(lambda f, a: [f, a], st.sampled_from(["sin", "exp", "sqrt"]), ch))
        val = gen.weighted([(4, num), (3, s), (3, simple), (1, st.sampled_from([["integer", 0], ["integer", 1], ["integer", -1]]))])
        m = st.lists(st.tuples(st.sampled_from(SYMS), val), min_size=1, max_size=3, unique_by=lambda t: t[0]).map(lambda ps: [list(p) for p in ps])
        general = st.fixed_dictionaries({"e": e, "map": m, "envs": gen.envs(names=SYMS + ["w"], n=3)})

        # expressions that hold a compound subtree T together with its own image sigma(T) under a map whose images
        # mention keys (swap, cycle, shift): the shape on which "an image is final" shortcuts of the cache go wrong
        def rsubst(r, mp):
            if isinstance(r, list):
                if r[:1] == ["symbol"] and r[1] in mp:
                    return mp[r[1]]
                return [rsubst(x, mp) for x in r]
            return r
        X, Y, Z = ["symbol", "x"], ["symbol", "y"], ["symbol", "z"]
        maps = st.sampled_from([[["x", Y], ["y", X]], [["x", Y], ["y", Z], ["z", X]], [["x", ["add", X, ["integer", -1]]]],
                                [["x", ["mul", ["integer", 2], X]]], [["x", ["add", X, Y]], ["y", X]], [["y", ["pow", Y, ["integer", 2]]]]])
        small = gen.tree(gen.weighted([(2, num), (6, gen.sym(["x", "y"]))]), unary=("sin", "cos", "exp"), binary=("add", "mul"), max_leaves=3)
        T = st.builds(lambda f, a: [f, a], st.sampled_from(["sin", "cos", "exp", "tan", "sinh"]), small)

        def mk(t, mp, c1, c2, rest, order):
            img = rsubst(t, {k: v for k, v in mp})
            a, b = ["mul", c1, t], ["mul", c2, img]
            body = ["add", a, b] if order else ["add", b, a]
            return {"e": ["add", body, rest] if rest is not None else body, "map": mp}
        coefs = st.integers(1, 4).map(lambda n: ["integer", n])
        image = st.builds(mk, T, maps, coefs, coefs, st.one_of(st.none(), small), st.booleans()).flatmap(
            lambda d: st.fixed_dictionaries({"e": st.just(d["e"]), "map": st.just(d["map"]), "envs": gen.envs(names=SYMS + ["w"], n=3)}))
        return st.one_of(general, general, general, image)

    def judge(self, case):
        rec, mp_, envs = case["e"], case["map"], case["envs"]
        # reference: e evaluated with every key bound to the value of its image (simultaneous substitution)
        envs2, blocked = [], False
        for env in envs:
            new = dict(env)
            try:
                for k, v in mp_:
                    new[k] = on.stable_value(v, env, cut_guard=True)
            except Unjudgeable as u:
                new = None
            envs2.append(new)
        if any(e2 is None for e2 in envs2):
            self.skip("image_unjudgeable")
            return
        for k, v in mp_:
            if on.resource_blocked(v, envs[0]):
                blocked = True
        refs, b2 = self.references(rec, envs2)
        if blocked or b2:
            self.skip("ref:overflow")
            return
        mapl = ["list"] + [["list", ["symbol", k], v] for k, v in mp_]
        absent = ["list", ["list", ["symbol", "w"], ["integer", 7]]]
        ident = ["list"] + [["list", ["symbol", k], ["symbol", k]] for k, _ in mp_]
        stmts = [rec]
        idx = {}
        for op in SUBS_OPS:
            for cache in (True, False):
                idx[(op, cache)] = len(stmts)
                stmts.append([op, R(0), mapl, cache])
        for op in SUBS_OPS:
            stmts.append(["eq", R(idx[(op, True)]), R(idx[(op, False)])])
            idx[(op, "eq")] = len(stmts) - 1
        stmts.append(["eq", ["subs", R(0), absent], R(0)])
        i_abs = len(stmts) - 1
        stmts.append(["eq", ["subs", R(0), ident], R(0)])
        i_id = len(stmts) - 1
        stmts.append(["eq", ["xreplace", R(0), absent], R(0)])
        i_abs2 = len(stmts) - 1
        res = self.run(stmts)
        if is_exc(res[0]):
            self.skip("assert_seen" if res[0]["exc"] == "VerifAssertFailure" else "declined:" + res[0]["exc"])
            return
        desc = "%s with {%s}" % (engine.sx(rec)[:250], ", ".join("%s: %s" % (k, engine.sx(v)[:60]) for k, v in mp_))
        judged = 0
        for op in SUBS_OPS:
            for cache in (True, False):
                r = res[idx[(op, cache)]]
                if is_exc(r):
                    self.skip("assert_seen" if r["exc"] == "VerifAssertFailure" else "declined:%s:%s" % (op, r["exc"]))
                    continue
                got = B(r)
                self.cls(op)
                if got[0] in ("Infty", "NaN"):
                    if any(not isinstance(x, Unjudgeable) for x in refs):
                        fin = [x for x in refs if not isinstance(x, Unjudgeable)][0]
                        raise Violation("%s(%s, cache=%s) returned %s but the substituted expression has the finite value %s"
                                        % (op, desc, cache, got, fin), {"recipe": rec, "map": mp_, "result": got})
                    self.skip("pole_agrees")
                    continue
                try:
                    judged += self.compare(rec, got, envs, refs, what="%s(e, m, cache=%s)" % (op, cache), kappa_envs=envs2)
                except Violation as v:
                    raise Violation("%s: %s" % (desc, v.msg), v.detail)
            e = res[idx[(op, "eq")]]
            if e is False and str(res[idx[(op, True)]]).replace("-nan", "nan") == str(res[idx[(op, False)]]).replace("-nan", "nan"):
                e = True  # identical trees containing a NaN double are not eq to themselves
            if e is False:
                raise Violation("%s: %s with and without cache give non-eq results: %s vs %s"
                                % (desc, op, B(res[idx[(op, True)]]), B(res[idx[(op, False)]])), {"recipe": rec, "map": mp_})
        for i, what in ((i_abs, "subs of a symbol that does not occur"), (i_id, "subs with the identity map"),
                        (i_abs2, "xreplace of a symbol that does not occur")):
            if res[i] is False:
                raise Violation("%s: %s returned an expression that is not eq to the input" % (engine.sx(rec)[:300], what),
                                {"recipe": rec, "dump": B(res[0])})
        if judged:
            if any(count_sym(rec, k) >= 2 and v[0] != "symbol" for k, v in mp_):
                self.nontriv((rec, mp_))
                self.cls("nontrivial")
            self.sample({"e": engine.sx(rec)[:200], "map": {k: engine.sx(v)[:80] for k, v in mp_}})


def _pow_of_reciprocal(d):
    """a Mul factor (b**-1)**q or a Pow whose base is b**-1: the unevaluated form Mul::power_num leaves behind"""
    if isinstance(d, list):
        if d[:1] == ["Mul"] and len(d) == 3:
            for b, e in d[2]:
                if b[:1] == ["Pow"] and b[2] == ["Integer", "-1"] and e[:1] in (["Rational"], ["RealDouble"], ["Symbol"]):
                    return True
        if d[:1] == ["Pow"] and d[1][:1] == ["Pow"] and d[1][2] == ["Integer", "-1"]:
            return True
        return any(_pow_of_reciprocal(x) for x in d)
    return False


def m_pow_of_reciprocal_rebuilt(case, v):
    """KF-C11-01 (root cause KF-C16-02): Mul::power_num stores (b**-1)**q without passing it through pow(); any
    rebuild of the tree (even an identity / absent-symbol substitution) folds it to b**-q, which is not eq to the input"""
    return "not eq to the input" in v.msg and _pow_of_reciprocal((v.detail or {}).get("dump"))


C11.matchers = {"pow_of_reciprocal_rebuilt": m_pow_of_reciprocal_rebuilt}


if __name__ == "__main__":
    sys.exit(engine.main(C11))
