"""C18 Parsing arbitrary input is safe, and parser reuse is stateless.

Stage 1 (engine fz): libFuzzer target drv/fz_parse.cpp, build variant `fuzz` (ASan+UBSan incl. vptr,
release semantics).  Stage 2 (engine hy): Hypothesis histories of 2-8 strings (valid, invalid, truncated,
byte-damaged) through ONE Parser / SbmlParser object of the driver vs a fresh parser per string."""
import os
import sys

sys.path.insert(0, os.path.join(os.path.dirname(os.path.abspath(__file__)), ".."))
from hypothesis import strategies as st
from pbt import engine, fuzz
from pbt.engine import Check, Violation, R, B, is_exc

# ----------------------------------------------------------------------------- hy stage
ATOMS = ["x", "y", "z1", "2", "0", "10", "3.5", "1e3", ".5", "2x", "3.5y", "pi", "E", "I", "oo", "nan", "True",
         "False", "zoo", "\xfc", "1e999", "007"]
# names of the function tables of parser.cpp:functionify / init_parser_single_arg_functions (lines 43-196)
FUN_PARSE = ["sin", "cos", "atan", "arcsin", "sqrt", "abs", "exp", "log", "ln", "gamma", "erf", "zeta",
             "pow", "beta", "atan2", "polygamma", "kronecker_delta", "max", "min", "levi_civita", "Eq", "Ne", "Ge",
             "Lt", "f", "g"]
FUN_BOOL = ["And", "Or", "Not", "Xor", "Nand", "Xnor"]
# sbml_parser.cpp:functionify (lines 190-330)
FUN_SBML = ["sin", "arccosh", "sqr", "ln", "log10", "factorial", "minus", "divide", "power", "root", "log",
            "max", "min", "plus", "times", "eq", "neq", "geq", "gt", "leq", "lt", "f", "g"]
FUN_SBML_BOOL = ["and", "or", "xor", "not", "piecewise"]


def expr_text(sbml, logic, rounding=True):
    """random source text; `logic` False leaves out the logical operators / boolean-argument functions, `rounding` False
    the functions that round a double to an integer (floor, ceiling; by-construction exclusions of known findings)"""
    ops = ["+", "-", "*", "/", "**", "^", "<", ">", "<=", ">=", "==", "!=", " + ", "*-"]
    if sbml:
        ops += ["%"]
        if logic:
            ops += ["&&", "||"]
    elif logic:
        ops += ["|", "&"]
    names = (FUN_SBML + (FUN_SBML_BOOL if logic else [])) if sbml else (FUN_PARSE + (FUN_BOOL if logic else []))
    if rounding:
        names = names + (["floor", "ceil"] if sbml else ["floor", "ceiling", "primepi"])
    atoms = ATOMS + (["time", "avogadro", "true", "false", "infinity"] if sbml else [])

    def ext(ch):
        opts = [st.builds(lambda a, o, b: a + o + b, ch, st.sampled_from(ops), ch),
                st.builds(lambda a: "(" + a + ")", ch),
                st.builds(lambda o, a: o + a, st.sampled_from(["-", "+"] + ((["!"] if sbml else ["~"]) if logic else [])), ch),
                st.builds(lambda n, xs: n + "(" + ", ".join(xs) + ")", st.sampled_from(names), st.lists(ch, min_size=1, max_size=3))]
        if not sbml:
            opts.append(st.builds(lambda a, b, c, d: "Piecewise((%s, %s<%s), (%s, True))" % (a, b, c, d), ch, ch, ch, ch))
        return st.one_of(opts)
    return st.recursive(st.sampled_from(atoms), ext, max_leaves=6)


def damaged(s):
    """valid text, truncated text, text with one byte changed / inserted"""
    def trunc(t, k):
        return t[:k % (len(t) + 1)]

    def poke(t, k, c):
        if not t:
            return c
        i = k % len(t)
        return t[:i] + c + t[i + 1:]

    def ins(t, k, c):
        i = k % (len(t) + 1)
        return t[:i] + c + t[i:]
    ch = st.sampled_from(list("()+*/^,.<>=!&|~@ e1x\x00\xff\x80") + ["**", "))", "(("])
    return st.one_of(s, s, st.builds(trunc, s, st.integers(0, 60)), st.builds(poke, s, st.integers(0, 60), ch),
                     st.builds(ins, s, st.integers(0, 60), ch))


class C18Seq(Check):
    pid = "C18"
    exe = "driver_ser"
    builds = [("main", ("driver_ser",))]
    timeout = 8.0
    case_timeout = 12
    rule = ("histories of 2-8 source strings (grammar text over the parsers' own function tables; each string valid, "
            "truncated, or with one byte replaced/inserted incl. NUL and bytes >= 0x80) given to ONE Parser object "
            "(convert_xor on or off per string) or ONE SbmlParser object; every string is also parsed by a fresh "
            "parser; outcomes must match position by position (both throw, or same raw dump and same str). "
            "Non-trivial: history with >= 1 failing and >= 1 succeeding non-atom parse; distinct by (kind, strings).")
    assumptions = ["a std::exception of any class is a legitimate outcome of a parse",
                   "driver crash (ASan/UBSan/abort) is a violation (reported by the engine)"]
    tiers = {"quick": {"examples": 800}, "thorough": {"examples": 40000}}

    def strategy(self, tier):
        rounding = not self.tag_active("floor_nonfinite_double")

        def hist(sbml):
            logic = not self.tag_active("sbml_logic_nonboolean" if sbml else "parse_logic_op_nonboolean")
            item = damaged(expr_text(sbml, logic, rounding))
            if not logic:
                bad = set("|&!~") if sbml else set("|&~")
                words = ("not", "and", "or", "piecewise") if sbml else ()

                def clean(t):
                    if bad & set(t.replace("!=", "")):
                        return False
                    tl = t.lower()
                    return not any(w in tl for w in words)
                item = item.filter(clean)
            if sbml:
                return st.lists(item, min_size=2, max_size=8).map(lambda xs: {"kind": "sbml", "items": [[x, True] for x in xs]})
            flag = st.booleans() if logic else st.just(True)
            return st.lists(st.tuples(item, flag).map(list), min_size=2, max_size=8).map(lambda xs: {"kind": "parse", "items": xs})
        return st.one_of(hist(False), hist(False), hist(True))

    def judge(self, case):
        try:
            self._judge(case)
        except engine.DriverCrash as e:
            # "10**10**10": GMP aborts when a number does not fit in memory -- resource exhaustion, never reported (DESIGN 3.4)
            if any(sig in e.stderr for sig in ("GNU MP: Cannot allocate memory", "gmp: overflow in mpz type")):
                self.skip("resource:gmp_alloc")
                return
            raise

    def _judge(self, case):
        sb = case["kind"] == "sbml"
        if self.tag_active("sbml_logic_nonboolean" if sb else "parse_logic_op_nonboolean"):
            for s, cx in case["items"]:
                t = s.replace("!=", "")
                if (set("|&!~") & set(t)) or (not sb and not cx and "^" in t) or \
                        (sb and any(w in s.lower() for w in ("not", "and", "or", "piecewise"))):
                    self.skip("known:" + ("sbml_logic_nonboolean" if sb else "parse_logic_op_nonboolean"))
                    return
        if self.tag_active("floor_nonfinite_double"):
            for s, cx in case["items"]:
                if any(w in s.lower() for w in ("floor", "ceil", "primepi", "primorial")):
                    self.skip("known:floor_nonfinite_double")
                    return
        stmts = [["sbml_parser_new"] if sb else ["parser_new"]]
        idx = []
        for s, cx in case["items"]:
            a = len(stmts)
            if sb:
                stmts.append(["sbml_parser_parse", R(0), s])
                stmts.append(["parse_sbml", s])
            else:
                stmts.append(["parser_parse", R(0), s, bool(cx)])
                stmts.append(["parse", s, bool(cx)])
            stmts.append(["str", R(a)])
            stmts.append(["str", R(a + 1)])
            idx.append(a)
        res = self.run(stmts)
        nfail = nok = 0
        for (s, cx), a in zip(case["items"], idx):
            self.count()
            reused, fresh = res[a], res[a + 1]
            if is_exc(reused, "VerifAssertFailure") or is_exc(fresh, "VerifAssertFailure"):
                self.skip("assert_seen")
                continue
            if is_exc(reused) != is_exc(fresh):
                raise Violation("reused %s differs from a fresh parser on %r after history %r: reused=%s fresh=%s"
                                % ("SbmlParser" if sb else "Parser", s, [x[0] for x in case["items"]],
                                   str(reused)[:300], str(fresh)[:300]))
            if is_exc(fresh):
                nfail += 1
                self.cls("throws:" + fresh["exc"])
                continue
            if B(reused) != B(fresh) or res[a + 2] != res[a + 3]:
                raise Violation("reused parser returns a different expression for %r after history %r: reused=%s fresh=%s"
                                % (s, [x[0] for x in case["items"]], str(res[a + 2])[:300], str(res[a + 3])[:300]))
            d = B(fresh)
            if isinstance(d, list) and len(d) > 1 and any(isinstance(x, list) for x in d[1:]):
                nok += 1
                self.cls("ok_compound")
            else:
                self.cls("ok_atom")
        if nfail and nok:
            self.nontriv([case["kind"], case["items"]])
            self.sample(case)


SPEC = {
    "pid": "C18",
    "target": "fz_parse",
    "corpus": "corpus/C18",
    "dict": "corpus/C18.dict",
    "rule": ("coverage-guided byte strings (libFuzzer, ASan+UBSan+vptr build without SYMENGINE_ASSERT) seeded with every "
             "string literal of test_parser.cpp / test_sbml_parser.cpp, grammar-generated strings, truncations and a token "
             "dictionary, plus workers starting from an empty corpus; byte 0 of a unit selects parse(convert_xor on/off) / "
             "parse_sbml and single-string or history mode (<= 8 strings through one parser object). In-target oracle: return "
             "or std::exception; process-lifetime and per-unit reused Parser/SbmlParser must give the fresh parser's outcome "
             "(both throw, or eq results with equal str); a returned expression is printed and re-parsed. Non-trivial, "
             "measured by the target: fresh parse returns a non-atom, or throws on an input of >= 3 tokens; distinct by hash "
             "of (kind, string). A deterministic Hypothesis stage (hy_stage) replays histories through the driver."),
    "assumptions": ["timeouts (-timeout=10), out-of-memory and allocation-size aborts (GMP / ASan refusing a huge block) are "
                    "resource noise, counted, never reported",
                    "libFuzzer campaigns are only approximately reproducible; the saved artifact is the reproducible unit"],
    "tiers": {"quick": {"workers": 8, "runs": 12000, "empty_workers": 1, "empty_runs": 12000, "max_len": 128},
              "thorough": {"workers": 16, "runs": 180000, "empty_workers": 2, "empty_runs": 180000, "max_len": 256}},
    "hy_check": C18Seq,
}

if __name__ == "__main__":
    sys.exit(fuzz.main(SPEC))
