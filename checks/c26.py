"""C26 Matrix expressions preserve value; their predicates are sound."""
import os
import sys

sys.path.insert(0, os.path.join(os.path.dirname(os.path.abspath(__file__)), ".."))
from hypothesis import strategies as st
from pbt import engine
from pbt.engine import Check, Violation, R, B, is_exc
from pbt.exact import GQ
from pbt import matexpr as mx
from pbt.matexpr import Mat, Mismatch, Uneval

DECLINES = ("NotImplementedError",)


def assert_site(what):
    """'/repo/symengine/x.h:12: cond' from a VerifAssertFailure message"""
    w = what.replace("SYMENGINE_ASSERT failed: ", "")
    k = w.find("/symengine/")      # any checkout (/repo or a scratch worktree)
    return (w[k + len("/symengine/"):] if k >= 0 else w)[:120]


def symbolic_identity_below(t):
    """recipe contains an IdentityMatrix leaf of symbolic size"""
    h = t[0]
    if h == "I":
        return not isinstance(t[1], int)
    if h in ("add", "had", "mul"):
        return any(symbolic_identity_below(k) for k in t[1])
    if h in ("T", "C", "tr"):
        return symbolic_identity_below(t[1])
    return False


def show(v):
    if isinstance(v, Mat):
        return "%dx%d %s" % (v.r, v.c, v.show())
    return repr(v)


# ---------------------------------------------------------------- deterministic cases
def _g(*xs):
    return [[str(x), "0"] if not isinstance(x, tuple) else [str(x[0]), str(x[1])] for x in xs]


def square_pool(n):
    """named structurally different n x n leaves"""
    seq = [2, -1, 3, (1, 1), 5, "1/2", -2, 7, (0, 2), 4, -3, 1, 6, (2, -1), "3/2", 9]
    full = _g(*seq[:n * n])
    grid = [[full[i * n + j] for j in range(n)] for i in range(n)]

    def dense(f):
        return ["M", n, n, [f(i, j) for i in range(n) for j in range(n)]]
    z = ["0", "0"]
    pool = [["I", n], ["Z", n, n], ["D", _g(*seq[:n])], ["D", _g(*([3] * n))],
            dense(lambda i, j: grid[i][j]),
            dense(lambda i, j: grid[min(i, j)][max(i, j)]),
            dense(lambda i, j: grid[i][j] if j <= i else z),
            dense(lambda i, j: grid[i][j] if j >= i else z),
            dense(lambda i, j: _g(1 + abs(i - j))[0])]
    if n == 1:
        pool = pool[:5]
    return pool


def rect_pool(r, c):
    seq = [1, -2, (0, 1), 3, "1/2", 4, -1, 2, 5, (1, -1), 7, -3]
    pool = [["Z", r, c], ["M", r, c, _g(*seq[:r * c])], ["M", r, c, _g(*([2] * (r * c)))]]
    if r == c:
        pool += square_pool(r)
    return pool


def enumerated():
    sc = ["s", ["2", "0"]]
    si = ["s", ["0", "1"]]
    for n in (1, 2, 3):
        pool = square_pool(n)
        for a in pool:
            yield ["T", a]
            yield ["C", a]
            yield ["tr", a]
            yield ["mul", [sc, a]]
            yield ["mul", [a, si]]
            yield ["T", ["mul", [sc, a]]]
            yield ["C", ["mul", [si, a]]]
            yield ["C", ["T", ["mul", [si, a]]]]
            yield ["T", ["C", ["mul", [si, a]]]]
            yield ["tr", ["mul", [sc, a]]]
            for b in pool:
                for op in ("add", "had", "mul"):
                    yield [op, [a, b]]
                yield ["add", [["mul", [sc, a]], b]]
                yield ["had", [["mul", [sc, a]], b]]
                yield ["mul", [["T", ["mul", [sc, a]]], b]]
                yield ["tr", ["add", [["mul", [si, a]], b]]]
                yield ["T", ["add", [["mul", [si, a]], b]]]
                yield ["C", ["had", [["mul", [si, a]], b]]]
        small = pool[:5] + pool[6:7]
        for a in small:
            for b in small:
                for c in small:
                    for op in ("add", "had", "mul"):
                        yield [op, [a, b, c]]
    for r in (1, 2, 3, 4):
        for k in (1, 2, 3):
            for c in (1, 2, 3, 4):
                if r == k == c:
                    continue
                for a in rect_pool(r, k)[:6]:
                    for b in rect_pool(k, c)[:6]:
                        yield ["mul", [a, b]]
                        yield ["mul", [a, sc, b]]
    for r in (1, 2, 3, 4):
        for c in (1, 2, 3, 4):
            if r != c:
                for a in rect_pool(r, c):
                    yield ["T", a]
                    yield ["C", a]
                    yield ["add", [a, a]]
                    yield ["had", [a, rect_pool(r, c)[1]]]
                    yield ["T", ["mul", [sc, a]]]
                    yield ["mul", [["T", a], a]]
    # symbols and symbolic dimensions: size logic
    for r in (1, 2, 3):
        for c in (1, 2, 3):
            X = ["S", "X%d%d" % (r, c)]
            Y = ["S", "Y%d%d" % (r, c)]
            for a in rect_pool(r, c)[:3]:
                yield ["add", [X, a]]
                yield ["add", [a, X, Y]]
                yield ["had", [X, a, Y]]
                yield ["mul", [["T", X], a]]
                yield ["mul", [a, ["T", Y]]]
                yield ["add", [["Z", "n%d" % r, "k%d" % c], a]]
                yield ["had", [["Z", "n%d" % r, c], X]]
            if r == c:
                yield ["mul", [["I", "n%d" % r], X]]
                yield ["add", [["I", "n%d" % r], ["I", r]]]
                yield ["add", [["Z", "n%d" % r, "n%d" % r], ["I", "n%d" % r]]]
                yield ["tr", ["Z", "n%d" % r, "k%d" % r]]
                yield ["tr", ["I", "n%d" % r]]


class C26(Check):
    pid = "C26"
    exe = "driver_matexpr"
    builds = [("main", ("driver_matexpr",))]
    rule = ("recipe trees (<= 10 matrix nodes) of matrix_add / matrix_mul (with scalar factors, also traces) / "
            "hadamard_product / transpose / conjugate_matrix / trace over IdentityMatrix, ZeroMatrix, DiagonalMatrix, "
            "ImmutableDenseMatrix leaves with Gaussian-rational entries, shapes 1..4 x 1..4 consistent by construction "
            "(plus trees with an injected dimension mismatch, and trees with MatrixSymbols / symbolic dimensions for the "
            "size logic).  Every node is a judged sub-case: the dense value of the returned dump must equal the dense "
            "value of the recipe, and the answers of is_zero/diagonal/symmetric/lower/upper/real/square/toeplitz and "
            "size on the returned object must not contradict that matrix ('indeterminate' always allowed).  "
            "Deterministic part: all ordered pairs of 9 (triples of 6) structurally different leaves per size 1..3 under "
            "each operation, rectangular products, unary operations on evaluated and unevaluated arguments, symbol/size cases.  "
            "Non-trivial: a symbol-free consistent tree with >= 2 leaf kinds under >= 2 different operations whose root "
            "was value-checked; distinct by tree.")
    assumptions = ["Python Fraction / Gaussian-rational dense arithmetic is the reference",
                   "for non-square matrices is_diagonal/is_lower/is_upper = false is accepted under either convention",
                   "a recipe with mismatching numeric dimensions has no value: a library exception is expected; a returned "
                   "expression is counted (class mismatch_returned:*) but not reported, the property text is silent on it",
                   "any exception other than NotImplementedError on a dimensionally consistent symbol-free recipe is a violation "
                   "(the statement says the combination yields an expression)",
                   "symbolic dimensions / matrix symbols: only definite size and is_square answers are judged, against the "
                   "intended instantiation encoded in the names"]
    tiers = {"quick": {"examples": 3200}, "thorough": {"examples": 120000}}   # random cases of 1..5 trees each
    min_nontrivial = 50

    def enumerate(self, tier):
        if os.environ.get("VERIF_C26_NOENUM"):   # development switch: judge the random search alone
            return
        batch = []
        for t in enumerated():
            batch.append(t)
            if len(batch) == 12:
                yield {"trees": batch}
                batch = []
        if batch:
            yield {"trees": batch}

    def strategy(self, tier):
        t = st.one_of(mx.case_tree(False, 0.0), mx.case_tree(False, 0.0), mx.case_tree(False, 0.0),
                      mx.case_tree(False, 0.25), mx.case_tree(True, 0.0), mx.case_tree(True, 0.2))
        return st.fixed_dictionaries({"trees": st.lists(t, min_size=1, max_size=5)})

    # ---- known defects excluded by construction while their tag is active (GUIDE: known findings protocol;
    # tags: mul_zero_shape mul_identity_scalar hadamard_symmetric toeplitz_oob mul_symbolic_identity_mismatch).
    # With an inactive tag the input is run and judged normally.
    def known_defect(self, n, nodes, reg, res):
        if n.t[0] != "mul":
            return None
        kids = [nodes[k] for k in n.kids]
        mats = [k for k in kids if not k.scalar]
        heads = [(B(res[reg[k.idx]]) or [None])[0] for k in mats]
        # matrix_mul returns the first ZeroMatrix factor itself, whatever the shape of the product
        if self.tag_active("mul_zero_shape"):
            for k, h in zip(mats, heads):
                if h == "ZeroMatrix":
                    if k.shape != n.shape:
                        return "mul_zero_shape"
                    break
        # matrix_mul drops the scalar when all matrix factors are identities
        if self.tag_active("mul_identity_scalar") and heads and all(h == "IdentityMatrix" for h in heads) \
                and len(mats) < len(kids):
            return "mul_identity_scalar"
        return None

    def judge(self, case):
        plans = []
        stmts = []
        for tree in case["trees"]:
            nodes = mx.model(mx.flatten(tree))
            if self.tag_active("mul_symbolic_identity_mismatch") and any(
                    n.t[0] == "mul" and n.mismatch not in (None, "below") and symbolic_identity_below(n.t)
                    for n in nodes):
                # known finding: matrix_mul validates adjacent factors only, lets an identity of symbolic size
                # pass, drops it and then multiplies the now adjacent, mismatching dense/diagonal factors
                # (heap-buffer-overflow in mul_dense_dense & co).  Not run while the tag is active.
                self.skip("known:mul_symbolic_identity_mismatch")
                continue
            reg = {}
            for n in nodes:
                reg[n.idx] = len(stmts)
                stmts.append(mx.statement(n, reg))
            plans.append((tree, nodes, reg))
        for tree, nodes, reg in plans:
            for n in nodes:
                if not n.scalar:
                    reg[("facts", n.idx)] = len(stmts)
                    # guard: is_toeplitz of a wide dense matrix (out-of-bounds read) is not asked while that finding is known
                    stmts.append(["mx_facts", R(reg[n.idx]), self.tag_active("toeplitz_oob")])
        res = self.run(stmts)
        for tree, nodes, reg in plans:
            self.judge_tree(tree, nodes, reg, stmts, res)

    def seen_assert(self, r, opname):
        self.skip("assert_seen")
        self.cls("assert@%s <- %s" % (assert_site(r["what"]), opname))

    def judge_tree(self, tree, nodes, reg, stmts, res):
        nn = len(nodes)
        tainted = set()
        root_checked = False
        for n in nodes:
            r = res[reg[n.idx]]
            op = n.t[0]
            opname = stmts[reg[n.idx]][0]
            if any(k in tainted for k in n.kids) or is_exc(r, "Dep"):
                tainted.add(n.idx)
                self.skip("below_unjudged")
                continue
            if op == "s":
                continue
            self.count()
            self.cls(op)
            args = [B(res[reg[k]]) for k in n.kids]
            if n.mismatch:
                tainted.add(n.idx)
                if is_exc(r):
                    if r["exc"] == "VerifAssertFailure":
                        self.seen_assert(r, opname)
                    else:
                        self.cls("mismatch_rejected:" + r["exc"])
                else:
                    self.cls("mismatch_returned:%s:%s" % (op, "symbolic" if n.symbolic else "concrete"))
                continue
            kd = self.known_defect(n, nodes, reg, res)
            if kd:
                tainted.add(n.idx)
                self.skip("known:" + kd)
                continue
            if is_exc(r):
                tainted.add(n.idx)
                if r["exc"] == "VerifAssertFailure":
                    self.seen_assert(r, opname)
                elif r["exc"] == "Decline":
                    self.skip("declined:driver")
                elif r["exc"] in DECLINES or n.symbolic:
                    self.skip("declined:" + r["exc"])
                else:
                    raise Violation("%s on a dimensionally consistent recipe raised %s: %s"
                                    % (opname, r["exc"], r.get("what")), {"node": n.t, "args": args})
                continue
            dump = B(r)
            if dump is None:
                raise Violation("%s returned a non-expression %r" % (opname, r), {"node": n.t})
            if n.symbolic:
                self.cls("symbolic_node")
            else:
                try:
                    got = mx.eval_dump(dump)
                except Mismatch as e:
                    raise Violation("%s returned a dimensionally inconsistent expression (%s): %s"
                                    % (opname, e, dump), {"node": n.t, "args": args})
                except Uneval as e:
                    tainted.add(n.idx)
                    self.skip("uneval_result")
                    continue
                if isinstance(got, GQ) != n.scalar or got != n.val:
                    raise Violation("%s changed the value: recipe %s evaluates to %s, returned %s evaluates to %s"
                                    % (opname, n.t, show(n.val), dump, show(got)),
                                    {"node": n.t, "args": args, "returned": dump})
                if n.idx == nn - 1:
                    root_checked = True
            if n.scalar:
                continue
            self.judge_facts(n, dump, res[reg[("facts", n.idx)]])
        if root_checked:
            leaves, ops = mx.signature(tree)
            if len(leaves) >= 2 and len(ops) >= 2:
                self.nontriv(tree)
                self.sample({"tree": tree, "result": B(res[reg[nn - 1]])})

    def judge_facts(self, n, dump, fr):
        self.count()
        if is_exc(fr):
            if fr["exc"] == "VerifAssertFailure":
                self.seen_assert(fr, "facts(%s)" % dump[0])
            else:
                self.skip("facts_exc:" + fr["exc"])
            return
        # size: a definite integer must be the true dimension
        for which, comp in enumerate(fr["size"]):
            if comp is None:
                self.cls("size_unknown")
                continue
            try:
                d = mx.dump_dim(B(comp))
            except Uneval:
                self.cls("size_symbolic_expr")
                continue
            if d != n.shape[which]:
                raise Violation("size(%s) answers %s = %s but the matrix is %dx%d"
                                % (dump, ("rows", "cols")[which], B(comp), n.shape[0], n.shape[1]),
                                {"node": n.t, "facts": fr})
        if n.symbolic:
            a = fr["square"]
            if a != "U" and (a == "T") != (n.shape[0] == n.shape[1]):
                raise Violation("is_square(%s) answers %s but the intended instantiation is %dx%d"
                                % (dump, a, n.shape[0], n.shape[1]), {"node": n.t, "facts": fr})
            return
        adm = mx.admissible(n.val)
        heads = None
        for p in mx.PREDICATES:
            a = fr[p]
            self.cls("%s=%s" % (p, a))
            if a == "K":
                self.skip("known:toeplitz_oob")
                continue
            if a not in adm[p]:
                if p == "symmetric" and a == "F" and self.tag_active("hadamard_symmetric"):
                    heads = heads or mx.dump_heads(dump)
                    if "HadamardProduct" in heads:
                        # is_symmetric(HadamardProduct) = false as soon as one factor is not symmetric
                        self.skip("known:hadamard_symmetric")
                        continue
                raise Violation("is_%s(%s) answers %s but the matrix is %s"
                                % (p, dump, {"T": "true", "F": "false"}.get(a, a), show(n.val)),
                                {"node": n.t, "facts": fr})


if __name__ == "__main__":
    sys.exit(engine.main(C26))
