"""C43 Results do not depend on the integer backend (gmp / gmpxx / boostmp)."""
import json
import os
import select
import sys
import time

sys.path.insert(0, os.path.join(os.path.dirname(os.path.abspath(__file__)), ".."))
from pbt import engine
from pbt.engine import Check, Violation, Driver, DriverCrash, DriverTimeout, crash_signature
from pbt import backend as be

VARIANTS = ("main", "gmpxx", "boostmp")
EXPECT_NAME = {"main": "gmp", "gmpxx": "gmpxx", "boostmp": "boostmp"}


# Sensitivity runs against a scratch tree (VERIF_REPO + VERIF_BUILD_TAG) may name the variants that
# come from the tagged scratch build (VERIF_SCRATCH_VARIANTS=boostmp); the others use the regular
# builds of /repo (mutations inside `#if SYMENGINE_INTEGER_CLASS == SYMENGINE_BOOSTMP` code cannot
# change the gmp builds, and a full scratch build of all three variants takes > 30 min).
_TAG = os.environ.get("VERIF_BUILD_TAG", "")
_SCRATCH = [v for v in os.environ.get("VERIF_SCRATCH_VARIANTS", "").split(",") if v] if _TAG else []


class PDriver(Driver):
    """Driver with the request split into send / receive so that the three backends work concurrently"""

    def __init__(self, variant, exe, timeout):
        Driver.__init__(self, variant, exe, timeout)
        if _SCRATCH and variant not in _SCRATCH:
            self.path = os.path.join(engine.BUILD, variant, "drv", exe)

    def send(self, program):
        if self.p is None:
            self.start()
        self._prog = program
        try:
            self.p.stdin.write((program + "\n").encode("latin-1"))
            self.p.stdin.flush()
        except (BrokenPipeError, OSError):
            rc = self.p.wait()
            err = self._stderr_tail()
            self.stop()
            self.restarts += 1
            raise DriverCrash(program, err, rc)

    def recv(self, timeout=None):
        program = self._prog
        deadline = time.time() + (timeout or self.timeout)
        fd = self.p.stdout.fileno()
        while b"\n" not in self.buf:
            left = deadline - time.time()
            if left <= 0:
                self.stop()
                self.restarts += 1
                raise DriverTimeout(program)
            r, _, _ = select.select([fd], [], [], min(left, 1.0))
            if r:
                chunk = os.read(fd, 1 << 20)
                if not chunk:
                    rc = self.p.wait()
                    err = self._stderr_tail()
                    self.stop()
                    self.restarts += 1
                    raise DriverCrash(program, err, rc)
                self.buf += chunk
        line, _, self.buf = self.buf.partition(b"\n")
        res = json.loads(line.decode("latin-1"))
        if isinstance(res, dict) and "protocol_error" in res:
            raise RuntimeError("protocol error: %s in %s" % (res["protocol_error"], program[:300]))
        return res


class Trio:
    """three drivers behind the interface the engine expects of `Check.drv` (stop / restarts)"""

    def __init__(self, exe, timeout):
        self.d = {v: PDriver(v, exe, timeout) for v in VARIANTS}

    def stop(self):
        for d in self.d.values():
            d.stop()

    @property
    def restarts(self):
        return sum(d.restarts for d in self.d.values())


def _short(x, n=300):
    s = json.dumps(x, default=str)
    return s if len(s) <= n else s[:n] + "..."


class C43(Check):
    pid = "C43"
    exe = "driver_backend"
    builds = [(v, ("driver_backend",)) for v in VARIANTS if not _SCRATCH or v in _SCRATCH]
    rule = ("A case is a list of 1-5 items; an item is (family, operands) and compiles to 3-25 statements of exact "
            "computations: floor/ceil/trunc division family and its aliasing forms, gcd/lcm/extended gcd/modular "
            "inverse, Legendre/Jacobi/Kronecker, integer roots with exactness flag and remainder, perfect power / "
            "square tests, primality and next prime, modular powers, Fibonacci/Lucas/factorial/binomial/primorial/"
            "Bernoulli/harmonic, small-number factorisation functions, rational canonicalisation and arithmetic, "
            "integer and rational powers incl. radicals (rpowrat / nth_root), exact arithmetic trees, expand of small "
            "polynomial expressions, UIntPoly/URatPoly arithmetic (Kronecker substitution), trigonometric functions at "
            "rational multiples of pi, parsing and printing of big literals. Operands: small, limb boundaries "
            "(2^31..2^399 +-1), uniform to 2^70 / 2^200 / 2^400, perfect and near-perfect powers, smooth numbers. The "
            "SAME program text is executed by three drivers built with INTEGER_CLASS = gmp (variant main), gmpxx and "
            "boostmp; per statement the three answers (raw dumps with the entries of hash-ordered Add/Mul dictionaries "
            "sorted, plain integers, strings, booleans, exception CLASS) must be identical. Randomised routines "
            "(Pollard rho / p-1, factor(), Tonelli-Shanks based nthroot_mod / powermod with fractional exponent) are "
            "not part of the workload; FLINT and Piranha backends are not installed and therefore not compared. "
            "Non-trivial: a statement with an operand above 64 bits or whose op reaches a backend-specific "
            "implementation (mp_boost.cpp, #if SYMENGINE_INTEGER_CLASS code); distinct by (op, operands).")
    assumptions = ["differential oracle: agreement of the three builds is what is judged, not correctness of the common answer (C05/C32/C21 judge that on the gmp build)",
                   "operands are kept inside the GMP-documented domain of each wrapped function (outside it GMP itself aborts)",
                   "the return value of probab_prime_p is only specified up to zero / non-zero",
                   "FLINT and Piranha are not installed: only gmp, gmpxx, boostmp are compared"]
    tiers = {"quick": {"examples": 1800}, "thorough": {"examples": 40000}}
    timeout = 40.0
    case_timeout = 150
    min_nontrivial = 200

    def setup_worker(self, tier):
        self.drv = Trio(self.exe, self.timeout)
        names = {}
        for v in VARIANTS:
            names[v] = self.drv.d[v].run("(be_variant)")[0]
        if names != EXPECT_NAME:
            raise engine.GeneratorDefect("driver variants are not the expected backends: %r" % (names,))

    # -- exclusions by construction while a known finding is listed and still reproduces
    def tags(self):
        if os.environ.get("C43_DEV_TAGS"):
            return tuple(os.environ["C43_DEV_TAGS"].split(","))
        return tuple(t for t in ("kronecker_zero", "probab_prime_negative", "gcdext_zero_zero") if self.tag_active(t))

    def judge(self, case):
        if self.drv is None:
            self.setup_worker("quick")
        tags = self.tags()
        stmts, labels, fams = [], [], []
        for it in case["items"]:
            comp = be.compile_item(it, len(stmts), tags)
            for s, lab in comp:
                stmts.append(s)
                labels.append(lab)
                fams.append(it["k"])
            if it["k"] == "gcd2" and it["b"] == 0 and "kronecker_zero" in tags:
                self.skip("known:kronecker_zero", 2)
            if it["k"] == "un1" and it["a"] < 0 and "probab_prime_negative" in tags:
                self.skip("known:probab_prime_negative")
            if it["k"] == "gcd2" and it["a"] == 0 and it["b"] == 0 and "gcdext_zero_zero" in tags:
                self.skip("known:gcdext_zero_zero", 2)
        text = engine.prog(stmts)
        res = {}
        phase = "send"
        v = None
        try:
            for v in VARIANTS:
                self.drv.d[v].send(text)
            phase = "recv"
            for v in VARIANTS:
                res[v] = self.drv.d[v].recv()
        except DriverTimeout:
            # slowness is never a violation; all drivers restart so that they stay in step
            self.skip("timeout:" + v)
            self.drv.stop()
            return
        except DriverCrash as e:
            self.drv.stop()
            raise Violation("driver of backend %s crashed (rc=%s): %s" % (v, e.rc, crash_signature(e.stderr)),
                            {"variant": v, "stderr": e.stderr[-3000:], "program": text[:4000]})
        n = len(stmts)
        for v in VARIANTS:
            if len(res[v]) != n:
                raise Violation("backend %s answered %d of %d statements" % (v, len(res[v]), n), {"program": text[:4000]})
        for i in range(n):
            lab = labels[i]
            if lab is None:
                continue
            rs = [res[v][i] for v in VARIANTS]
            if stmts[i][0] == "let" and not any(engine.is_exc(r) for r in rs):
                continue  # quiet operand construction: judged through the statements that use it
            self.count()
            self.cls(fams[i] + ":" + lab)
            if all(engine.is_exc(r) for r in rs) and len({r["exc"] for r in rs}) == 1:
                ex = rs[0]["exc"]
                if ex == "Dep":
                    self.skip("dep")
                elif ex == "Decline":
                    self.skip("declined_by_op")
                elif ex == "VerifAssertFailure":
                    self.skip("assert_seen")
                else:
                    self.skip("same_exception:" + ex)
                continue
            ns = [be.norm_result(r) for r in rs]
            if lab in ("be_probab_prime_p",):
                # [is_prime, raw]: only zero / non-zero is specified
                raws = {json.dumps(r[1]) if isinstance(r, list) else "exc" for r in rs}
                if len(raws) > 1:
                    self.cls("info:probab_prime_raw_value_differs")
                ns = [(r[0] if isinstance(r, list) else r) for r in ns]
            if lab == "nt_probab_prime_p":
                ns = [(bool(r) if isinstance(r, int) else r) for r in ns]
            if not (ns[0] == ns[1] == ns[2]):
                det = {VARIANTS[j]: rs[j] for j in range(3)}
                raise Violation("backends disagree on statement %d %s: %s" % (
                    i, _short(stmts[i], 400), "; ".join("%s=%s" % (VARIANTS[j], _short(ns[j], 260)) for j in range(3))),
                    {"statement": stmts[i], "results": det, "program": text[:6000]})
            if not (rs[0] == rs[1] == rs[2]) and not any(engine.is_exc(r) for r in rs):
                if lab not in ("be_probab_prime_p", "nt_probab_prime_p"):
                    self.cls("info:container_order_only_difference")
            b = be.bits(stmts[i][1:]) if isinstance(stmts[i], list) else 0
            if b > 64 or lab in be.BACKEND_OPS:
                self.nontriv((lab, json.dumps(stmts[i], default=str)))
            if self.rng.random() < 0.01:
                self.sample({"statement": _short(stmts[i], 500), "result_all_backends": _short(rs[0], 500)})

    def strategy(self, tier):
        return be.case_strategy(5)

    def enumerate(self, tier):
        if os.environ.get("C43_DEV_NO_ENUM"):  # development aid: sensitivity of the generated part alone
            return
        # fixed edge table: every pair of small / boundary integers through the two-operand families
        edge = [0, 1, -1, 2, -3, 4, -8, 9, 27, 64, -(2 ** 32), 2 ** 63, 2 ** 64 - 1, -(2 ** 64), 2 ** 64 + 1, 3 ** 41,
                -(10 ** 40), 2 ** 127 - 1]
        items = []
        for a in edge:
            for b in edge:
                if b != 0:
                    items.append({"k": "div2", "a": a, "b": b})
                items.append({"k": "gcd2", "a": a, "b": b})
            items.append({"k": "un1", "a": a, "reps": 25, "flag": True})
            for n in (1, 2, 3, 5, 6, 41):
                items.append({"k": "root", "a": a, "n": n})
        for i in range(0, len(items), 6):
            yield {"items": items[i:i + 6]}


if __name__ == "__main__":
    sys.exit(engine.main(C43))
